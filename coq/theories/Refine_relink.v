(** * Refine_relink: the read operations ([find], [get], [has], [len]), creation, [find_prev]
    and [relink] against the invariant of [Refine.v].

    The allocator specifications ([AllocInv.v]) and the key comparison fact are hypotheses of
    the section [with_alloc]; after the section every theorem is generalised over the ones it
    uses. *)
From Coq Require Import Lia ZifyN ZifyNat ZifyBool.
From Aby Require Import Base Vu64 Hash KeyTypes Consts Sizing Alloc AllocInv Htx Htx_proofs Store Spec Refine.

(** ** Lists *)

Lemma last_cons_default {A} (l : list A) (a d : A) : List.last (a :: l) d = List.last l a.
Proof.
  revert a d. induction l as [|b l IH]; intros a d; [reflexivity|].
  change (List.last (a :: b :: l) d) with (List.last (b :: l) d).
  rewrite (IH b d), (IH b a). reflexivity.
Qed.

Lemma last_snoc_default {A} (l : list A) (a d : A) : List.last (l ++ [a]) d = a.
Proof. apply last_last. Qed.

Lemma list_snoc_cases {A} (l : list A) : l = [] \/ exists l' a, l = l' ++ [a].
Proof.
  induction l as [|a l IH] using rev_ind; [left; reflexivity|right; eauto].
Qed.

(** ** Paths of key records *)

Section seg_lib.
Implicit Types (kh : gmap N krec) (l : list N).

Lemma seg_nil_inv kh h x : seg kh h [] x -> x = h.
Proof. inversion 1; reflexivity. Qed.

Lemma seg_cons_inv kh h o l x :
  seg kh h (o :: l) x -> h = o /\ o <> 0 /\ exists r, kh !! o = Some r /\ seg kh (k_next r) l x.
Proof. inversion 1; subst. eauto. Qed.

Lemma seg_frame kh kh' h l x :
  seg kh h l x -> (forall o, o ∈ l -> kh' !! o = kh !! o) -> seg kh' h l x.
Proof.
  induction 1 as [h0|off r l0 x0 Hnz Hl Hs IH]; intros Hf.
  - constructor.
  - apply seg_cons with r; [exact Hnz| |].
    + rewrite Hf; [exact Hl|]. apply elem_of_cons. left. reflexivity.
    + apply IH. intros o Ho. apply Hf. apply elem_of_cons. right. exact Ho.
Qed.

Lemma seg_app kh h l1 l2 x :
  seg kh h (l1 ++ l2) x <-> exists y, seg kh h l1 y /\ seg kh y l2 x.
Proof.
  split.
  - revert h. induction l1 as [|a l1 IH]; intros h Hs.
    + exists h. split; [constructor|exact Hs].
    + cbn [app] in Hs. apply seg_cons_inv in Hs as (-> & Hnz & r & Hr & Hs).
      destruct (IH _ Hs) as (y & H1 & H2). exists y. split; [|exact H2].
      apply seg_cons with r; assumption.
  - intros (y & H1 & H2). induction H1 as [h0|off r l0 x0 Hnz Hl Hs IH].
    + exact H2.
    + cbn [app]. apply seg_cons with r; [exact Hnz|exact Hl|]. apply IH. exact H2.
Qed.

Lemma seg_elem kh h l x o : seg kh h l x -> o ∈ l -> o <> 0 /\ is_Some (kh !! o).
Proof.
  induction 1 as [h0|off r l0 x0 Hnz Hl Hs IH]; intros Ho.
  - apply elem_of_nil in Ho. destruct Ho.
  - apply elem_of_cons in Ho as [-> | Ho]; [|exact (IH Ho)].
    split; [exact Hnz|]. exists r. exact Hl.
Qed.

Lemma seg_snoc kh h l p r :
  seg kh h l p -> p <> 0 -> kh !! p = Some r -> seg kh h (l ++ [p]) (k_next r).
Proof.
  intros Hs Hnz Hp. apply seg_app. exists p. split; [exact Hs|].
  apply seg_cons with r; [exact Hnz|exact Hp|constructor].
Qed.

Lemma seg_snoc_inv kh h l p x :
  seg kh h (l ++ [p]) x ->
  p <> 0 /\ seg kh h l p /\ exists r, kh !! p = Some r /\ k_next r = x.
Proof.
  intros Hs. apply seg_app in Hs as (y & H1 & H2).
  apply seg_cons_inv in H2 as (-> & Hnz & r & Hr & H2). apply seg_nil_inv in H2.
  split; [exact Hnz|]. split; [exact H1|]. exists r. split; [exact Hr|]. symmetry. exact H2.
Qed.

(** the "last link" lemma *)
Lemma seg_last_link kh h l p x r :
  seg kh h (l ++ [p]) x -> kh !! p = Some r -> k_next r = x.
Proof.
  intros Hs Hp. apply seg_snoc_inv in Hs as (_ & _ & r0 & Hr0 & Hx). congruence.
Qed.

(** a path is determined by its start and its length, or by its start when it is complete *)
Lemma seg_det_length kh h l l' x x' :
  seg kh h l x -> seg kh h l' x' -> length l = length l' -> l = l' /\ x = x'.
Proof.
  intros Hs. revert l' x'. induction Hs as [h0|off r l0 x0 Hnz Hl Hs IH]; intros l' x' Hs' Hlen.
  - destruct l'; [|discriminate]. apply seg_nil_inv in Hs'. auto.
  - destruct l' as [|o' l']; [discriminate|].
    apply seg_cons_inv in Hs' as (<- & _ & r' & Hr' & Hs').
    assert (r' = r) as -> by congruence.
    destruct (IH _ _ Hs') as (-> & ->); [cbn in Hlen; lia|]. auto.
Qed.

Lemma chain_det kh h l l' : chain kh h l -> chain kh h l' -> l = l'.
Proof.
  unfold chain. intros Hs. revert l'. remember 0 as z eqn:Hz.
  induction Hs as [h0|off r l0 x0 Hnz Hl Hs IH]; intros l' Hs'; subst.
  - destruct l' as [|o' l']; [reflexivity|].
    apply seg_cons_inv in Hs' as (<- & Hnz & _). congruence.
  - destruct l' as [|o' l'].
    + apply seg_nil_inv in Hs'. congruence.
    + apply seg_cons_inv in Hs' as (<- & _ & r' & Hr' & Hs').
      assert (r' = r) as -> by congruence. f_equal. apply IH; [reflexivity|exact Hs'].
Qed.

(** a list of distinct offsets of a heap is no longer than the heap *)
Lemma length_le_size kh l :
  NoDup l -> (forall o, o ∈ l -> is_Some (kh !! o)) -> (length l <= size kh)%nat.
Proof.
  intros Hnd Hin.
  rewrite <- (size_list_to_set (C:=gset N) l Hnd), <- (size_dom (D:=gset N) kh).
  apply subseteq_size. intros o Ho. apply elem_of_list_to_set in Ho.
  apply elem_of_dom. apply Hin. exact Ho.
Qed.

End seg_lib.

(** ** The heap view of a piece file *)

Lemma used_lookup {P} (f : pfile P) off p :
  used f !! off = Some p <-> exists sz, slots f !! off = Some (Used sz p).
Proof.
  unfold used. rewrite lookup_omap_Some. split.
  - intros (sl & Hsl & Hl). destruct sl as [sz q|sz nxt]; [|discriminate].
    injection Hsl as ->. eauto.
  - intros (sz & Hl). exists (Used sz p). auto.
Qed.

Lemma read_krec_ok s off r : kheap s !! off = Some r -> read_krec s off = Ok r.
Proof.
  intros H. apply used_lookup in H as (sz & H). unfold read_krec. rewrite H. reflexivity.
Qed.

Lemma read_val_ok s off v : vheap s !! off = Some v -> read_val s off = Ok v.
Proof.
  intros H. apply used_lookup in H as (sz & H). unfold read_val. rewrite H. reflexivity.
Qed.

Lemma home_lt s k : 1 <= nb (hx s) -> home s k < nb (hx s).
Proof. intros H. unfold home, bucket_of. apply N.mod_lt. lia. Qed.

(** the chains of two buckets share no record *)
Lemma core_chain_disj s ch orph b b' o :
  core s ch orph -> b < nb (hx s) -> b' < nb (hx s) -> o ∈ ch b -> o ∈ ch b' -> b = b'.
Proof.
  intros Hc Hb Hb' Ho Ho'. destruct (co_in _ _ _ Hc _ _ Hb Ho) as (r & Hr).
  rewrite <- (co_home _ _ _ Hc _ _ _ Hb Ho Hr). apply (co_home _ _ _ Hc _ _ _ Hb' Ho' Hr).
Qed.

Lemma enc_len_pos v : 1 <= enc_len v.
Proof. unfold enc_len. repeat (destruct (_ <? _); [lia|]). lia. Qed.

Lemma krec_need_pos r : 0 < krec_need r.
Proof.
  unfold krec_need, key_need. cbv zeta.
  pose proof (enc_len_pos (blen (k_key r))). lia.
Qed.

Section with_alloc.
Hypothesis Hk_new  : @write_new_spec krec key_cfg.
Hypothesis Hk_old  : @write_old_spec krec key_cfg.
Hypothesis Hk_del  : @delete_spec krec key_cfg.
Hypothesis Hk_fact : @used_facts krec key_cfg.
Hypothesis Hk_cr   : @create_spec krec key_cfg.
Hypothesis Hv_new  : @write_new_spec bytes val_cfg.
Hypothesis Hv_old  : @write_old_spec bytes val_cfg.
Hypothesis Hv_del  : @delete_spec bytes val_cfg.
Hypothesis Hv_fact : @used_facts bytes val_cfg.
Hypothesis Hv_cr   : @create_spec bytes val_cfg.
(* facts about key comparison proved by another engineer *)
Hypothesis Hcmp : cmp_eq_wf_stmt.

(** ** Fuel: a list of distinct records is shorter than [chain_fuel] *)

Lemma fuel_ok s l :
  AInv key_cfg (keyf s) -> NoDup l -> (forall o, o ∈ l -> is_Some (kheap s !! o)) ->
  (length l < chain_fuel s)%nat.
Proof.
  intros Ha Hnd Hin. pose proof (length_le_size (kheap s) l Hnd Hin) as H1.
  destruct (Hk_fact _ Ha) as (_ & _ & H2 & _). unfold chain_fuel. unfold kheap in H1. lia.
Qed.

Lemma chain_fuel_ok s ch orph b :
  core s ch orph -> b < nb (hx s) -> (length (ch b) < chain_fuel s)%nat.
Proof.
  intros Hc Hb. apply fuel_ok.
  - exact (co_k _ _ _ Hc).
  - exact (co_nodup _ _ _ Hc _ Hb).
  - intros o Ho. exact (co_in _ _ _ Hc _ _ Hb Ho).
Qed.

(** ** [find] *)

Lemma find_chain_seg s k l :
  key_wf (kt s) k ->
  forall h fuel prev, seg (kheap s) h l 0 ->
  (forall o r, o ∈ l -> kheap s !! o = Some r -> key_wf (kt s) (k_key r)) ->
  (length l < fuel)%nat ->
  (find_chain fuel s k prev h = Ok None /\
     forall o r, o ∈ l -> kheap s !! o = Some r -> k_key r <> k) \/
  (exists la o r lb, l = la ++ o :: lb /\ kheap s !! o = Some r /\ k_key r = k /\
     find_chain fuel s k prev h = Ok (Some (o, List.last la prev))).
Proof.
  intros Hk. induction l as [|o l IH]; intros h fuel prev Hs Hwf Hf.
  - apply seg_nil_inv in Hs. subst h. destruct fuel as [|f]; [cbn in Hf; lia|].
    left. split; [reflexivity|]. intros o r Ho. apply elem_of_nil in Ho. destruct Ho.
  - apply seg_cons_inv in Hs as (-> & Hnz & r & Hr & Hs).
    destruct fuel as [|f]; [cbn in Hf; lia|].
    cbn [find_chain]. rewrite (proj2 (N.eqb_neq o 0) Hnz).
    rewrite (read_krec_ok _ _ _ Hr). cbn [rbind].
    assert (o ∈ o :: l) as Hoin by (apply elem_of_cons; left; reflexivity).
    rewrite (Hcmp _ _ _ Hk (Hwf o r Hoin Hr)). cbn [rbind].
    case_bool_decide as Hkeq.
    + right. exists [], o, r, l. cbn [app List.last]. auto.
    + destruct (IH (k_next r) f o Hs) as [(Hfc & Hno) | (la & o' & r' & lb & -> & Hr' & Hk' & Hfc)].
      * intros o' r' Ho'. apply Hwf. apply elem_of_cons. right. exact Ho'.
      * cbn in Hf. lia.
      * left. split; [exact Hfc|]. intros o' r' Ho' Hr'.
        apply elem_of_cons in Ho' as [-> | Ho'].
        -- assert (r' = r) as -> by congruence. congruence.
        -- exact (Hno _ _ Ho' Hr').
      * right. exists (o :: la), o', r', lb. rewrite last_cons_default. cbn [app]. auto.
Qed.

Theorem find_ok : find_stmt.
Proof.
  intros s ch orph k (Hc & Hl) Hk Horph.
  pose proof (home_lt s k (co_n _ _ _ Hc)) as Hb.
  specialize (Hl _ Hb). unfold links_ok, chain in Hl.
  unfold find. change (bucket s k) with (home s k).
  assert (forall o r, o ∈ ch (home s k) -> kheap s !! o = Some r -> key_wf (kt s) (k_key r))
    as Hwf by (intros o r Ho Hr; exact (co_kwf _ _ _ Hc _ _ Hr)).
  destruct (find_chain_seg s k (ch (home s k)) Hk _ (chain_fuel s) 0 Hl Hwf
              (chain_fuel_ok _ _ _ _ Hc Hb))
    as [(Hf & Hno) | (la & o & r & lb & Hch & Hr & Hkey & Hf)].
  - left. split; [exact Hf|]. intros vo (off & r & Hr & Hkey & _).
    destruct (co_reach _ _ _ Hc _ _ Hr) as [Hin | Ho].
    + rewrite Hkey in Hin. exact (Hno _ _ Hin Hr Hkey).
    + exact (Horph _ Ho _ Hr Hkey).
  - right. exists o, r, la, lb. auto.
Qed.

(** ** [get], [has], [len] *)

Theorem get_ok : get_stmt.
Proof.
  intros s m k (ch & Hinv) Hrep Hk.
  assert (forall off, @None N = Some off -> forall r, kheap s !! off = Some r -> k_key r <> k)
    as Hnone by (intros ? [=]).
  destruct (find_ok s ch None k Hinv Hk Hnone)
    as [(Hf & Hno) | (off & r & l1 & l2 & Hf & Hr & Hkey & _)].
  - assert (m !! k = None) as Hm.
    { destruct (m !! k) as [v|] eqn:E; [|reflexivity].
      apply Hrep in E as (vo & Hh & _). destruct (Hno _ Hh). }
    unfold get, has. rewrite Hf, Hm. cbn [rbind]. split; [reflexivity|].
    f_equal; symmetry; apply bool_decide_eq_false; intros [? ?]; discriminate.
  - destruct Hinv as (Hc & _). destruct (co_val _ _ _ Hc _ _ Hr) as (v & Hv).
    assert (m !! k = Some v) as Hm.
    { apply Hrep. exists (k_voff r). split; [|exact Hv]. exists off, r. auto. }
    unfold get, has. rewrite Hf, Hm. cbn [rbind].
    rewrite (read_krec_ok _ _ _ Hr). cbn [rbind].
    rewrite (read_val_ok _ _ _ Hv). cbn [rbind]. split; [reflexivity|].
    f_equal; symmetry; apply bool_decide_eq_true; eauto.
Qed.

Theorem len_ok : len_stmt.
Proof.
  intros s m (ch & Hc & _) Hrep. unfold spec in m. unfold len. rewrite (co_count _ _ _ Hc). f_equal.
  set (keys := (fun p : N * krec => k_key p.2) <$> map_to_list (kheap s)).
  assert (NoDup keys) as Hnd.
  { apply NoDup_fmap_2_strong; [|apply NoDup_map_to_list].
    intros [o1 r1] [o2 r2] H1 H2 Heq. cbn in Heq.
    apply elem_of_map_to_list in H1, H2.
    assert (o1 = o2) as -> by exact (co_uniq _ _ _ Hc _ _ _ _ H1 H2 Heq). congruence. }
  assert (dom m = list_to_set (C:=gset bytes) keys) as Hdom.
  { apply set_eq. intros k. rewrite elem_of_dom, elem_of_list_to_set.
    unfold keys. rewrite elem_of_list_fmap. split.
    - intros (v & Hv). apply Hrep in Hv as (vo & (off & r & Hr & Hkey & _) & _).
      exists (off, r). split; [symmetry; exact Hkey|]. apply elem_of_map_to_list. exact Hr.
    - intros ([off r] & -> & Hin). apply elem_of_map_to_list in Hin.
      destruct (co_val _ _ _ Hc _ _ Hin) as (v & Hv). exists v. apply Hrep.
      exists (k_voff r). split; [|exact Hv]. exists off, r. auto. }
  rewrite <- (size_dom (D:=gset bytes) m), Hdom, (size_list_to_set _ Hnd).
  unfold keys. rewrite fmap_length. reflexivity.
Qed.

(** ** Creation *)

Theorem create_ok : create_inv_stmt.
Proof.
  intros t n Hn. destruct Hk_cr as (Hka & Hku). destruct Hv_cr as (Hva & Hvu).
  assert (kheap (create t n) = ∅) as Hkh by exact Hku.
  assert (vheap (create t n) = ∅) as Hvh by exact Hvu.
  split.
  - exists (fun _ => []). split.
    + constructor.
      * exact Hka.
      * exact Hva.
      * exact Hn.
      * apply htx_create_bitmap_ok.
      * intros b off r _ Hin. apply elem_of_nil in Hin. destruct Hin.
      * intros b off _ Hin. apply elem_of_nil in Hin. destruct Hin.
      * intros b _. apply NoDup_nil_2.
      * intros off r H. rewrite Hkh, lookup_empty in H. discriminate.
      * intros off [=].
      * intros o1 o2 r1 r2 H. rewrite Hkh, lookup_empty in H. discriminate.
      * intros off r H. rewrite Hkh, lookup_empty in H. discriminate.
      * intros off r H. rewrite Hkh, lookup_empty in H. discriminate.
      * intros o1 o2 r1 r2 H. rewrite Hkh, lookup_empty in H. discriminate.
      * intros vo v H. rewrite Hvh, lookup_empty in H. discriminate.
      * intros vo v H. rewrite Hvh, lookup_empty in H. discriminate.
      * rewrite Hkh, map_size_empty. reflexivity.
    + intros b Hb. unfold links_ok, chain, head_at.
      cbn [create hx htx_create buckets]. rewrite (lookup_empty (A:=N) b). cbn [default]. constructor.
  - intros k v. unfold spec. rewrite lookup_empty. split; [discriminate|].
    intros (vo & (off & r & Hr & _) & _). rewrite Hkh, lookup_empty in Hr. discriminate.
Qed.

(** ** [find_prev] *)

Lemma find_prev_seg s target l :
  target <> 0 ->
  forall h prev fuel, seg (kheap s) h l target -> target ∉ l -> (length l < fuel)%nat ->
  find_prev fuel s target prev h = Ok (List.last l prev).
Proof.
  intros Ht. induction l as [|o l IH]; intros h prev fuel Hs Hni Hf;
    (destruct fuel as [|f]; [cbn in Hf; lia|]).
  - apply seg_nil_inv in Hs. subst h. cbn [find_prev List.last].
    rewrite N.eqb_refl, orb_true_r. reflexivity.
  - apply seg_cons_inv in Hs as (-> & Hnz & r & Hr & Hs). cbn [find_prev].
    assert (o <> target) as Hot.
    { intros ->. apply Hni. apply elem_of_cons. left. reflexivity. }
    rewrite (proj2 (N.eqb_neq o 0) Hnz), (proj2 (N.eqb_neq o target) Hot). cbn [orb].
    rewrite (read_krec_ok _ _ _ Hr). cbn [rbind]. rewrite last_cons_default.
    apply IH; [exact Hs| |cbn in Hf; lia].
    intros Hin. apply Hni. apply elem_of_cons. right. exact Hin.
Qed.

Theorem find_prev_ok : find_prev_stmt.
Proof.
  intros s h l1 target fuel Hs Ht Hni Hf. apply find_prev_seg; assumption.
Qed.

(** ** A record is rewritten, possibly at another offset *)

(** the record [r] at [o] of [kh] is replaced by [r'] (same key, same value offset) at [o'],
    which is [o] or an offset not in use *)
Definition moved (kh kh' : gmap N krec) (o o' : N) (r r' : krec) : Prop :=
  kh' = <[o' := r']> (delete o kh) /\ kh !! o = Some r /\ (o' = o \/ kh !! o' = None) /\
  k_key r' = k_key r /\ k_voff r' = k_voff r.

Section move.
Context (kh kh' : gmap N krec) (o o' : N) (r r' : krec).
Hypothesis Hmv : moved kh kh' o o' r r'.
Let Hkh' : kh' = <[o' := r']> (delete o kh) := proj1 Hmv.
Let Ho : kh !! o = Some r := proj1 (proj2 Hmv).
Let Hfresh : o' = o \/ kh !! o' = None := proj1 (proj2 (proj2 Hmv)).
Let Hkey : k_key r' = k_key r := proj1 (proj2 (proj2 (proj2 Hmv))).
Let Hvoff : k_voff r' = k_voff r := proj2 (proj2 (proj2 (proj2 Hmv))).

Lemma move_lookup x rx :
  kh' !! x = Some rx <-> (x = o' /\ rx = r') \/ (x <> o' /\ x <> o /\ kh !! x = Some rx).
Proof.
  rewrite Hkh', lookup_insert_Some, lookup_delete_Some. split.
  - intros [(-> & ->) | (Hne & Hne' & Hx)]; [left; auto|right; auto].
  - intros [(-> & ->) | (Hne & Hne' & Hx)]; [left; auto|right; auto].
Qed.

Lemma move_new : kh' !! o' = Some r'.
Proof. apply move_lookup. left. auto. Qed.

Lemma move_frame x : x <> o -> x <> o' -> kh' !! x = kh !! x.
Proof.
  intros H1 H2. rewrite Hkh', lookup_insert_ne, lookup_delete_ne by congruence. reflexivity.
Qed.

Lemma move_old_none : o' <> o -> kh' !! o = None.
Proof.
  intros Hne. rewrite Hkh', lookup_insert_ne, lookup_delete by congruence. reflexivity.
Qed.

(** an old record other than [o] is not at [o'] *)
Lemma move_old_ne x : is_Some (kh !! x) -> x <> o -> x <> o'.
Proof.
  intros (rx & Hx) Hne ->. destruct Hfresh as [-> | Hn]; congruence.
Qed.

Lemma move_back x rx :
  kh' !! x = Some rx ->
  exists x0 rx0, kh !! x0 = Some rx0 /\ k_key rx0 = k_key rx /\ k_voff rx0 = k_voff rx /\
    ((x = o' /\ x0 = o) \/ (x <> o' /\ x0 = x /\ x <> o)).
Proof.
  intros Hx. apply move_lookup in Hx as [(-> & ->) | (H1 & H2 & Hx)].
  - exists o, r. split; [exact Ho|]. split; [congruence|]. split; [congruence|]. left. auto.
  - exists x, rx. split; [exact Hx|]. split; [reflexivity|]. split; [reflexivity|]. right. auto.
Qed.

Lemma move_fwd x rx :
  kh !! x = Some rx ->
  exists x1 rx1, kh' !! x1 = Some rx1 /\ k_key rx1 = k_key rx /\ k_voff rx1 = k_voff rx /\
    ((x = o /\ x1 = o') \/ (x <> o /\ x1 = x /\ x <> o')).
Proof.
  intros Hx. destruct (decide (x = o)) as [-> | Hne].
  - exists o', r'. split; [exact move_new|]. assert (rx = r) as -> by congruence.
    split; [exact Hkey|]. split; [exact Hvoff|]. left. auto.
  - assert (x <> o') as Hne' by (apply move_old_ne; [eauto|exact Hne]).
    exists x, rx. split; [rewrite move_frame by assumption; exact Hx|].
    split; [reflexivity|]. split; [reflexivity|]. right. auto.
Qed.

Lemma move_size : size kh' = size kh.
Proof.
  transitivity (S (size (delete o kh))).
  2:{ rewrite <- (map_size_insert_None o r (delete o kh)) by apply lookup_delete.
      rewrite (insert_delete kh o r Ho). reflexivity. }
  rewrite Hkh'. destruct (decide (o' = o)) as [-> | Hne].
  - apply map_size_insert_None. apply lookup_delete.
  - apply map_size_insert_None. rewrite lookup_delete_ne by congruence.
    destruct Hfresh as [? | Hn]; [congruence|exact Hn].
Qed.

(** injectivity of a projection of the records is kept *)
Lemma move_inj {A} (f : krec -> A) :
  f r' = f r ->
  (forall o1 o2 r1 r2, kh !! o1 = Some r1 -> kh !! o2 = Some r2 -> f r1 = f r2 -> o1 = o2) ->
  forall o1 o2 r1 r2, kh' !! o1 = Some r1 -> kh' !! o2 = Some r2 -> f r1 = f r2 -> o1 = o2.
Proof.
  intros Hf Hinj o1 o2 r1 r2 H1 H2 Heq.
  apply move_lookup in H1 as [(-> & ->) | (H1a & H1b & H1)];
    apply move_lookup in H2 as [(-> & ->) | (H2a & H2b & H2)].
  - reflexivity.
  - exfalso. apply H2b. symmetry. apply (Hinj _ _ _ _ Ho H2). congruence.
  - exfalso. apply H1b. apply (Hinj _ _ _ _ H1 Ho). congruence.
  - exact (Hinj _ _ _ _ H1 H2 Heq).
Qed.

End move.

(** the ghost chains after bucket [b] got the chain [l] *)
Definition ch_upd (ch : N -> list N) (b : N) (l : list N) : N -> list N :=
  fun b' => if decide (b' = b) then l else ch b'.

Lemma ch_upd_eq ch b l : ch_upd ch b l b = l.
Proof. unfold ch_upd. rewrite decide_True by reflexivity. reflexivity. Qed.

Lemma ch_upd_ne ch b l b' : b' <> b -> ch_upd ch b l b' = ch b'.
Proof. intros H. unfold ch_upd. rewrite decide_False by exact H. reflexivity. Qed.

(** [core] is kept when the record [o] of bucket [b] is rewritten (same key and value offset)
    and possibly moves to [o'].  An orphan is never [o] (it is in no chain) and never [o']
    (it is in the heap). *)
Lemma core_move s s' ch orph b o o' r r' l1 l2 :
  core s ch orph -> b < nb (hx s) -> ch b = l1 ++ o :: l2 ->
  moved (kheap s) (kheap s') o o' r r' ->
  AInv key_cfg (keyf s') -> valf s' = valf s -> hx s' = hx s -> kt s' = kt s ->
  core s' (ch_upd ch b (l1 ++ o' :: l2)) orph.
Proof.
  intros Hc Hb Hch Hmv Hk' Hv Hx Ht.
  pose proof Hmv as (Hkh' & Ho & Hfresh & Hkey & Hvoff).
  pose proof (co_nodup _ _ _ Hc _ Hb) as Hnd. rewrite Hch in Hnd.
  assert (o ∈ ch b) as Hob.
  { rewrite Hch. apply elem_of_app. right. apply elem_of_cons. left. reflexivity. }
  assert (forall k, home s' k = home s k) as Hhome by (intros k; unfold home; rewrite Hx; reflexivity).
  assert (vheap s' = vheap s) as Hvh by (unfold vheap; rewrite Hv; reflexivity).
  assert (forall b', b' < nb (hx s) -> o' ∈ ch b' -> o' = o) as M0.
  { intros b' Hb' Hin. destruct (co_in _ _ _ Hc _ _ Hb' Hin) as (rx & Hrx).
    destruct Hfresh as [? | Hn]; [assumption|congruence]. }
  assert (forall b' x, b' < nb (hx s) -> x ∈ ch_upd ch b (l1 ++ o' :: l2) b' ->
            (x = o' /\ b' = b) \/ (x <> o /\ x ∈ ch b')) as M1.
  { intros b' x Hb' Hin. unfold ch_upd in Hin. destruct (decide (b' = b)) as [-> | Hne].
    - apply elem_of_app in Hin as [Hin | Hin]; [|apply elem_of_cons in Hin as [-> | Hin]].
      + right. split.
        * intros ->. apply NoDup_app in Hnd as (_ & Hd & _). apply (Hd _ Hin).
          apply elem_of_cons. left. reflexivity.
        * rewrite Hch. apply elem_of_app. left. exact Hin.
      + left. auto.
      + right. split.
        * intros ->. apply NoDup_app in Hnd as (_ & _ & Hd). apply NoDup_cons in Hd as (Hd & _).
          exact (Hd Hin).
        * rewrite Hch. apply elem_of_app. right. apply elem_of_cons. right. exact Hin.
    - right. split; [|exact Hin]. intros ->. apply Hne.
      exact (core_chain_disj _ _ _ _ _ _ Hc Hb' Hb Hin Hob). }
  assert (forall b' x, x ∈ ch b' -> x <> o -> x ∈ ch_upd ch b (l1 ++ o' :: l2) b') as M2.
  { intros b' x Hin Hne. unfold ch_upd. destruct (decide (b' = b)) as [-> | Hnb]; [|exact Hin].
    rewrite Hch in Hin. apply elem_of_app in Hin as [Hin | Hin].
    - apply elem_of_app. left. exact Hin.
    - apply elem_of_cons in Hin as [-> | Hin]; [congruence|].
      apply elem_of_app. right. apply elem_of_cons. right. exact Hin. }
  assert (o' ∈ ch_upd ch b (l1 ++ o' :: l2) b) as M3.
  { rewrite ch_upd_eq. apply elem_of_app. right. apply elem_of_cons. left. reflexivity. }
  constructor.
  - exact Hk'.
  - rewrite Hv. exact (co_v _ _ _ Hc).
  - rewrite Hx. exact (co_n _ _ _ Hc).
  - rewrite Hx. exact (co_bm _ _ _ Hc).
  - (* co_home *)
    intros b' off rx Hb' Hin Hrx. rewrite Hx in Hb'. rewrite Hhome.
    apply (move_lookup _ _ _ _ _ _ Hmv) in Hrx as [(-> & ->) | (H1 & H2 & Hrx)].
    + rewrite Hkey. destruct (M1 _ _ Hb' Hin) as [(_ & ->) | (Hne & Hin')].
      * exact (co_home _ _ _ Hc _ _ _ Hb Hob Ho).
      * destruct (Hne (M0 _ Hb' Hin')).
    + destruct (M1 _ _ Hb' Hin) as [(-> & _) | (_ & Hin')]; [congruence|].
      exact (co_home _ _ _ Hc _ _ _ Hb' Hin' Hrx).
  - (* co_in *)
    intros b' off Hb' Hin. rewrite Hx in Hb'.
    destruct (M1 _ _ Hb' Hin) as [(-> & _) | (Hne & Hin')].
    + exists r'. exact (move_new _ _ _ _ _ _ Hmv).
    + destruct (co_in _ _ _ Hc _ _ Hb' Hin') as (rx & Hrx).
      destruct (move_fwd _ _ _ _ _ _ Hmv _ _ Hrx) as (x1 & rx1 & Hx1 & _ & _ & [(-> & _) | (_ & -> & _)]).
      * congruence.
      * eauto.
  - (* co_nodup *)
    intros b' Hb'. rewrite Hx in Hb'. unfold ch_upd. destruct (decide (b' = b)) as [-> | Hnb].
    + destruct (decide (o' = o)) as [-> | Hne]; [exact Hnd|].
      apply NoDup_app in Hnd as (Hd1 & Hd2 & Hd3). apply NoDup_cons in Hd3 as (Hd3 & Hd4).
      assert (o' ∉ ch b) as Hni by (intros Hin; exact (Hne (M0 _ Hb Hin))).
      rewrite Hch in Hni.
      apply NoDup_app. split; [exact Hd1|]. split.
      * intros x Hx1 Hx2. apply elem_of_cons in Hx2 as [-> | Hx2].
        -- apply Hni. apply elem_of_app. left. exact Hx1.
        -- apply (Hd2 _ Hx1). apply elem_of_cons. right. exact Hx2.
      * apply NoDup_cons. split; [|exact Hd4]. intros Hin. apply Hni.
        apply elem_of_app. right. apply elem_of_cons. right. exact Hin.
    + exact (co_nodup _ _ _ Hc _ Hb').
  - (* co_reach *)
    intros off rx Hrx. rewrite Hhome.
    apply (move_lookup _ _ _ _ _ _ Hmv) in Hrx as [(-> & ->) | (H1 & H2 & Hrx)].
    + left. rewrite Hkey. rewrite (co_home _ _ _ Hc _ _ _ Hb Hob Ho). exact M3.
    + destruct (co_reach _ _ _ Hc _ _ Hrx) as [Hin | Hor]; [left|right; exact Hor].
      apply M2; assumption.
  - (* co_orph *)
    intros off Hor. destruct (co_orph _ _ _ Hc _ Hor) as ((rx & Hrx) & Hni).
    assert (off <> o) as Hne by (intros ->; exact (Hni _ Hb Hob)).
    assert (off <> o') as Hne' by (apply (move_old_ne _ _ _ _ _ _ Hmv); eauto).
    split.
    + exists rx. rewrite (move_frame _ _ _ _ _ _ Hmv) by assumption. exact Hrx.
    + intros b' Hb' Hin. rewrite Hx in Hb'.
      destruct (M1 _ _ Hb' Hin) as [(-> & _) | (_ & Hin')]; [congruence|].
      exact (Hni _ Hb' Hin').
  - (* co_uniq *)
    apply (move_inj _ _ _ _ _ _ Hmv k_key Hkey). exact (co_uniq _ _ _ Hc).
  - (* co_kwf *)
    intros off rx Hrx. rewrite Ht.
    destruct (move_back _ _ _ _ _ _ Hmv _ _ Hrx) as (x0 & rx0 & Hx0 & <- & _).
    exact (co_kwf _ _ _ Hc _ _ Hx0).
  - (* co_val *)
    intros off rx Hrx. rewrite Hvh.
    destruct (move_back _ _ _ _ _ _ Hmv _ _ Hrx) as (x0 & rx0 & Hx0 & _ & <- & _).
    exact (co_val _ _ _ Hc _ _ Hx0).
  - (* co_vinj *)
    apply (move_inj _ _ _ _ _ _ Hmv k_voff Hvoff). exact (co_vinj _ _ _ Hc).
  - (* co_vown *)
    intros vo v Hvo. rewrite Hvh in Hvo.
    destruct (co_vown _ _ _ Hc _ _ Hvo) as (off & rx & Hrx & <-).
    destruct (move_fwd _ _ _ _ _ _ Hmv _ _ Hrx) as (x1 & rx1 & Hx1 & _ & Hvo1 & _).
    exists x1, rx1. auto.
  - (* co_vwf *)
    intros vo v Hvo. rewrite Hvh in Hvo. exact (co_vwf _ _ _ Hc _ _ Hvo).
  - (* co_count *)
    rewrite Hx, (move_size _ _ _ _ _ _ Hmv). exact (co_count _ _ _ Hc).
Qed.

(** the set of (key, value offset) pairs is kept by a move *)
Lemma moved_has_rec s s' o o' r r' k vo :
  moved (kheap s) (kheap s') o o' r r' -> (has_rec s' k vo <-> has_rec s k vo).
Proof.
  intros Hmv. split.
  - intros (off & rx & Hrx & <- & <-).
    destruct (move_back _ _ _ _ _ _ Hmv _ _ Hrx) as (x0 & rx0 & Hx0 & Hk0 & Hv0 & _).
    exists x0, rx0. auto.
  - intros (off & rx & Hrx & <- & <-).
    destruct (move_fwd _ _ _ _ _ _ Hmv _ _ Hrx) as (x1 & rx1 & Hx1 & Hk1 & Hv1 & _).
    exists x1, rx1. auto.
Qed.

Lemma same_shape_refl s : same_shape s s.
Proof. unfold same_shape. repeat split; auto. Qed.

Lemma same_shape_trans s1 s2 s3 : same_shape s1 s2 -> same_shape s2 s3 -> same_shape s1 s3.
Proof.
  intros (A1 & A2 & A3 & A4 & A5 & A6 & A7) (B1 & B2 & B3 & B4 & B5 & B6 & B7).
  unfold same_shape. repeat split; try congruence.
  - intros H. apply A7, B7. exact H.
  - intros H. apply B7, A7. exact H.
Qed.

(** ** [relink] *)

(** one turn of the loop of [relink]: the predecessor [p] of the moved record gets the link
    [newoff]; it stays in place (the bucket is repaired) or moves to [poff] (the bucket is
    broken one record closer to the head) *)
Lemma relink_step s ch orph b l1 p stale newoff l2 :
  core s ch orph ->
  (forall b', b' < nb (hx s) -> b' <> b -> links_ok s ch b') ->
  b < nb (hx s) -> ch b = (l1 ++ [p]) ++ newoff :: l2 ->
  links_broken s b (l1 ++ [p]) stale newoff l2 ->
  exists r kf poff sz,
    p <> 0 /\ kheap s !! p = Some r /\
    write_piece key_cfg (krec_need (KRec (k_key r) (k_voff r) newoff)) (keyf s) (Some p)
      (KRec (k_key r) (k_voff r) newoff) = Ok (kf, poff, sz) /\
    core (set_keyf s kf) (ch_upd ch b (l1 ++ poff :: newoff :: l2)) orph /\
    same_shape s (set_keyf s kf) /\
    (forall o, orph = Some o -> kheap (set_keyf s kf) !! o = kheap s !! o) /\
    (forall b', b' < nb (hx s) -> b' <> b ->
       links_ok (set_keyf s kf) (ch_upd ch b (l1 ++ poff :: newoff :: l2)) b') /\
    (poff = p -> links_ok (set_keyf s kf) (ch_upd ch b (l1 ++ poff :: newoff :: l2)) b) /\
    (poff <> p ->
       links_broken (set_keyf s kf) b l1 p poff (newoff :: l2) /\ p ∉ l1 /\
       (length l1 < chain_fuel (set_keyf s kf))%nat).
Proof.
  intros Hc Hoth Hb Hch (Hseg & Hchain & Hstale & Hsnz).
  apply seg_snoc_inv in Hseg as (Hpnz & Hseg1 & r & Hr & Hnext).
  set (r' := KRec (k_key r) (k_voff r) newoff).
  destruct (Hk_old (keyf s) (krec_need r') p r r' (co_k _ _ _ Hc) (krec_need_pos r') Hr)
    as (kf & poff & sz & Hw & Hkinv & Hused & Hfresh & Hpoffnz & _).
  exists r, kf, poff, sz. split; [exact Hpnz|]. split; [exact Hr|]. split; [exact Hw|].
  set (s' := set_keyf s kf).
  assert (moved (kheap s) (kheap s') p poff r r') as Hmv.
  { split; [exact Hused|]. split; [exact Hr|]. split; [exact Hfresh|]. split; reflexivity. }
  assert (ch b = l1 ++ p :: newoff :: l2) as Hch'.
  { rewrite Hch, <- app_assoc. reflexivity. }
  pose proof (core_move s s' ch orph b p poff r r' l1 (newoff :: l2) Hc Hb Hch' Hmv Hkinv
                eq_refl eq_refl eq_refl) as Hcore'.
  pose proof (co_nodup _ _ _ Hc _ Hb) as Hnd. rewrite Hch' in Hnd.
  assert (p ∈ ch b) as Hpb.
  { rewrite Hch'. apply elem_of_app. right. apply elem_of_cons. left. reflexivity. }
  apply NoDup_app in Hnd as (Hnd1 & Hnd2 & Hnd3). apply NoDup_cons in Hnd3 as (Hnd3 & Hnd4).
  assert (p ∉ l1) as Hpni.
  { intros Hin. apply (Hnd2 _ Hin). apply elem_of_cons. left. reflexivity. }
  (* records of the chains other than [p] are untouched *)
  assert (forall b' x, b' < nb (hx s) -> x ∈ ch b' -> x <> p -> kheap s' !! x = kheap s !! x) as Hfr.
  { intros b' x Hb' Hin Hne. apply (move_frame _ _ _ _ _ _ Hmv); [exact Hne|].
    apply (move_old_ne _ _ _ _ _ _ Hmv); [|exact Hne]. exact (co_in _ _ _ Hc _ _ Hb' Hin). }
  assert (seg (kheap s') (head_at (hx s) b) l1 p) as Hseg1'.
  { apply (seg_frame _ _ _ _ _ Hseg1). intros x Hin. apply (Hfr b); [exact Hb| |].
    - rewrite Hch'. apply elem_of_app. left. exact Hin.
    - intros ->. exact (Hpni Hin). }
  assert (chain (kheap s') newoff (newoff :: l2)) as Hchain'.
  { apply (seg_frame _ _ _ _ _ Hchain). intros x Hin. apply (Hfr b); [exact Hb| |].
    - rewrite Hch'. apply elem_of_app. right. apply elem_of_cons. right. exact Hin.
    - intros ->. exact (Hnd3 Hin). }
  split; [exact Hcore'|]. split.
  { unfold same_shape. repeat split; try reflexivity.
    - apply (moved_has_rec s s' _ _ _ _ _ _ Hmv).
    - apply (moved_has_rec s s' _ _ _ _ _ _ Hmv). }
  split.
  { intros o Hor. destruct (co_orph _ _ _ Hc _ Hor) as (Hin & Hni).
    assert (o <> p) as Hop by (intros ->; exact (Hni _ Hb Hpb)).
    apply (move_frame _ _ _ _ _ _ Hmv); [exact Hop|].
    exact (move_old_ne _ _ _ _ _ _ Hmv _ Hin Hop). }
  split.
  { intros b' Hb' Hne. unfold links_ok. rewrite ch_upd_ne by exact Hne.
    apply (seg_frame _ _ _ _ _ (Hoth _ Hb' Hne)). intros x Hin. apply (Hfr b'); [exact Hb'|exact Hin|].
    intros ->. apply Hne. exact (core_chain_disj _ _ _ _ _ _ Hc Hb' Hb Hin Hpb). }
  split.
  { intros ->. unfold links_ok, chain. rewrite ch_upd_eq. apply seg_app. exists p.
    split; [exact Hseg1'|]. apply seg_cons with r'; [exact Hpnz| |exact Hchain'].
    exact (move_new _ _ _ _ _ _ Hmv). }
  intros Hne. split; [|split; [exact Hpni|]].
  - split; [exact Hseg1'|]. split; [|split; [|exact Hpnz]].
    + apply seg_cons with r'; [exact Hpoffnz| |exact Hchain']. exact (move_new _ _ _ _ _ _ Hmv).
    + exact (move_old_none _ _ _ _ _ _ Hmv Hne).
  - apply fuel_ok; [exact Hkinv|exact Hnd1|]. intros x Hin.
    exact (proj2 (seg_elem _ _ _ _ _ Hseg1' Hin)).
Qed.

(** [relink_stmt] and, in addition, the orphan record (the record a delete has unlinked and
    will free afterwards) is untouched.  Requested by the put/del proof. *)
Definition relink_orph_stmt : Prop :=
  forall s ch orph b l1 stale newoff l2 fuel,
    core s ch orph ->
    (forall b', b' < nb (hx s) -> b' <> b -> links_ok s ch b') ->
    b < nb (hx s) -> ch b = l1 ++ newoff :: l2 ->
    links_broken s b l1 stale newoff l2 ->
    (length l1 < fuel)%nat ->
    exists s' ch',
      relink fuel s b (List.last l1 0) newoff = Ok s' /\
      sinvo s' ch' orph /\ same_shape s s' /\
      (forall o, orph = Some o -> kheap s' !! o = kheap s !! o).

Theorem relink_orph_ok : relink_orph_stmt.
Proof.
  intros s ch orph b l1 stale newoff l2 fuel. revert s ch l1 stale newoff l2.
  induction fuel as [|f IH]; intros s ch l1 stale newoff l2 Hc Hoth Hb Hch Hbr Hf; [lia|].
  destruct (list_snoc_cases l1) as [-> | (l1' & p & ->)].
  - (* the bucket head *)
    destruct Hbr as (Hseg & Hchain & Hstale & Hsnz).
    cbn [List.last relink]. rewrite N.eqb_refl.
    exists (set_hx s (write_head (hx s) b newoff)), ch. split; [reflexivity|].
    split; [|split; [unfold same_shape; repeat split; try reflexivity; intros H; exact H|reflexivity]].
    split.
    + destruct Hc. constructor; try assumption.
      apply write_head_bitmap_ok; assumption.
    + intros b' Hb'. unfold links_ok. cbn [set_hx hx]. rewrite write_head_head_at.
      destruct (N.eqb_spec b' b) as [-> | Hne].
      * rewrite Hch. exact Hchain.
      * apply Hoth; assumption.
  - rewrite last_snoc_default.
    destruct (relink_step s ch orph b l1' p stale newoff l2 Hc Hoth Hb Hch Hbr)
      as (r & kf & poff & sz & Hpnz & Hr & Hw & Hcore' & Hshape & Horph & Hoth' & Hstay & Hmoved).
    cbn [relink]. rewrite (proj2 (N.eqb_neq p 0) Hpnz).
    rewrite (read_krec_ok _ _ _ Hr). cbn [rbind]. rewrite Hw. cbn [rbind].
    destruct (N.eqb_spec poff p) as [Heq | Hne].
    + exists (set_keyf s kf), (ch_upd ch b (l1' ++ poff :: newoff :: l2)).
      split; [reflexivity|]. split; [|split; [exact Hshape|exact Horph]]. split; [exact Hcore'|].
      intros b' Hb'. destruct (decide (b' = b)) as [-> | Hnb].
      * exact (Hstay Heq).
      * exact (Hoth' _ Hb' Hnb).
    + destruct (Hmoved Hne) as (Hbr' & Hpni & Hlen).
      rewrite (find_prev_ok (set_keyf s kf) _ l1' p _ (proj1 Hbr') Hpnz Hpni Hlen). cbn [rbind].
      destruct (IH (set_keyf s kf) (ch_upd ch b (l1' ++ poff :: newoff :: l2)) l1' p poff
                  (newoff :: l2) Hcore' Hoth' Hb (ch_upd_eq _ _ _) Hbr')
        as (s'' & ch'' & Hrel & Hinv & Hshape' & Horph').
      { rewrite app_length in Hf. cbn [length] in Hf. lia. }
      exists s'', ch''. split; [exact Hrel|]. split; [exact Hinv|].
      split; [exact (same_shape_trans _ _ _ Hshape Hshape')|].
      intros o Hor. rewrite (Horph' _ Hor). exact (Horph _ Hor).
Qed.

Theorem relink_ok : relink_stmt.
Proof.
  intros s ch orph b l1 stale newoff l2 fuel Hc Hoth Hb Hch Hbr Hf.
  destruct (relink_orph_ok s ch orph b l1 stale newoff l2 fuel Hc Hoth Hb Hch Hbr Hf)
    as (s' & ch' & H1 & H2 & H3 & _).
  exists s', ch'. auto.
Qed.

End with_alloc.
