(** * Htx: the bucket table file (htx.rs): bucket heads, occupancy bitmap, item count.

    [bitmap] is the set of bucket indices whose bit is set; a [u64]/[u8] read of the bitmap
    is "some bit among the next 64 / 8 buckets is set" (bytes beyond the end of the file read
    as zero).  [hend] is the length of the file: for fewer than 8 buckets the single bitmap
    byte lies at the end of the created file and the first bucket write extends it. *)
From Aby Require Import Base Consts.

Record htx := Htx { nb : N; buckets : gmap N N; bitmap : gset N; count : N; hend : N }.

Definition htx_create (n : N) : htx :=
  Htx n ∅ ∅ 0 (htx_header_size + n * 8 + n / 8).

Definition head_at (h : htx) (i : N) : N := default 0 (buckets h !! i).

(** [write_key_piece_offset]: bitmap byte read-modify-write, then the bucket head *)
Definition write_head (h : htx) (i off : N) : htx :=
  let pos := htx_header_size + nb h * 8 + i / 8 in
  Htx (nb h)
      (if off =? 0 then delete i (buckets h) else <[i := off]> (buckets h))
      (if off =? 0 then bitmap h ∖ {[i]} else {[i]} ∪ bitmap h)
      (count h)
      (N.max (hend h) (pos + 1)).

Definition count_up (h : htx) : htx := Htx (nb h) (buckets h) (bitmap h) (count h + 1) (hend h).
Definition count_down (h : htx) : htx :=
  Htx (nb h) (buckets h) (bitmap h) (if 0 <? count h then count h - 1 else count h) (hend h).

(** some bit among buckets [idx .. idx+len-1] set *)
Definition bm_any (h : htx) (idx : N) (len : nat) : bool :=
  existsb (fun b => bool_decide (b ∈ bitmap h)) (seqN' idx len).

(** the u64 stride of [next_key_piece_offset] *)
Fixpoint stage64 (fuel : nat) (h : htx) (n idx : N) : res N :=
  match fuel with
  | O => OutOfFuel
  | S f =>
    if idx + 8 <? n then
      if bm_any h idx 64 then Ok (idx + 64) else stage64 f h n (idx + 64)
    else Ok idx
  end.

(** the byte stride *)
Fixpoint stage8 (fuel : nat) (h : htx) (n idx : N) : res N :=
  match fuel with
  | O => OutOfFuel
  | S f =>
    if idx <? n then
      if bm_any h idx 8 then Ok (idx + 8) else stage8 f h n (idx + 8)
    else Ok idx
  end.

(** the bucket stride: (next index, head found or 0) *)
Fixpoint stage1 (fuel : nat) (h : htx) (n idx : N) : res (N * N) :=
  match fuel with
  | O => OutOfFuel
  | S f =>
    if idx <? n then
      let off := head_at h idx in
      if off =? 0 then stage1 f h n (idx + 1) else Ok (idx + 1, off)
    else Ok (idx, 0)
  end.

(** [next_key_piece_offset(buckets_size, idx)] *)
Definition next_nonempty (h : htx) (n idx : N) : res (N * N) :=
  let fuel := S (N.to_nat n) in
  let* idx' :=
    (if htx_bitmap then
       if idx mod 8 =? 0 then
         let* i1 := stage64 fuel h n idx in
         let i2 := if idx <? i1 then i1 - 64 else i1 in
         let* i3 := stage8 fuel h n i2 in
         if i3 <? 8 then Panic Overflow else Ok (i3 - 8)
       else Ok idx
     else Ok idx) in
  stage1 fuel h n idx'.

(** [htx_filling_rate_per_mill] *)
Definition filling (h : htx) : N * N :=
  let c := N.of_nat (length (filter (fun i => negb (head_at h i =? 0)) (seqN' 0 (N.to_nat (nb h))))) in
  (c, c * 1000 / nb h).

(** bucket count derivation at creation *)
Inductive bparam := BucketsSize (x : N) | Capacity (x : N) | BDefault.

Fixpoint next_pow2_from (fuel : nat) (p x : N) : N :=
  match fuel with
  | O => p
  | S f => if x <=? p then p else next_pow2_from f (2 * p) x
  end.
Definition next_pow2 (x : N) : N := next_pow2_from 64 1 x.

Definition buckets_of_param (p : bparam) : res N :=
  match p with
  | BucketsSize x => Ok (next_pow2 x)
  | Capacity x =>
    if x =? 0 then Panic BadParam
    else if x <? 8 then Ok 8
    else Ok (next_pow2 (x + x / 8))
  | BDefault => Ok htx_default_buckets
  end.
