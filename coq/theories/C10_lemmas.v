(** corollaries for property C10: "two integers address the same entry exactly when they are equal" *)
From Aby Require Import Base Vu64 Vu64_proofs KeyTypes KeyTypes_proofs Hash.

(** what the lookup uses to decide that a stored key is the one asked for *)
Definition same_entry (t : ktype) (a b : bytes) : Prop := cmp_eq t a b = Ok true.

Lemma same_entry_u64 x y : x < 2 ^ 64 -> y < 2 ^ 64 ->
  (same_entry KU64 (of_u64 x) (of_u64 y) <-> x = y).
Proof.
  intros Hx Hy. unfold same_entry. rewrite C10_bytes_identity by discriminate.
  split; [apply of_u64_inj; assumption | intros ->; reflexivity].
Qed.

Lemma same_entry_i64 x y : (- 2 ^ 63 <= x < 2 ^ 63)%Z -> (- 2 ^ 63 <= y < 2 ^ 63)%Z ->
  (same_entry KI64 (of_i64 x) (of_i64 y) <-> x = y).
Proof.
  intros Hx Hy. unfold same_entry. rewrite C10_bytes_identity by discriminate.
  split; [apply of_i64_inj; assumption | intros ->; reflexivity].
Qed.

Lemma same_entry_vu64 x y : x < 2 ^ 64 -> y < 2 ^ 64 ->
  (same_entry KVu64 (of_vu64 x) (of_vu64 y) <-> x = y).
Proof.
  intros Hx Hy. unfold same_entry. rewrite C10_vu64_same by assumption.
  split.
  - intros H. injection H as H. apply N.eqb_eq in H. exact H.
  - intros ->. rewrite N.eqb_refl. reflexivity.
Qed.

Lemma same_entry_bytes t a b : t = KString \/ t = KBytes -> (same_entry t a b <-> a = b).
Proof.
  intros [-> | ->]; unfold same_entry; apply C10_bytes_identity; discriminate.
Qed.

(** equal keys are placed in the same bucket of any table (placement is a function of the bytes) *)
Lemma same_bytes_same_bucket a b n : a = b -> bucket_of a n = bucket_of b n.
Proof. intros ->; reflexivity. Qed.
