(** * Io_reads2: the iterator and the statistics of the byte-level model [Io] on the images of a
    record-level state (the read-only half of the operations, continued from Io_reads.v). *)
From Coq Require Import Lia ZifyN ZifyNat ZifyBool.
From Aby Require Import Base Vu64 Vu64_proofs Hash KeyTypes Consts Sizing Sizing_proofs Alloc AllocInv AllocInv_proofs
  Htx Htx_proofs Store Iter Stats Layout Load Load_proofs Load_htx_proofs Cache Cache_proofs Refine Refine_relink
  Io Io_base Io_htx Io_reads.
Import Io.
#[local] Open Scope N_scope.

(** the iterator state of [Iter] as the iterator state of [Io] *)
Definition to_io (a : Iter.iter_st) : Io.iter_st :=
  Io.IterSt (Iter.it_rem a) (Iter.it_n a) (Iter.it_idx a) (Iter.it_koff a).

Section ops2.
Context (s : store) (ch : N -> list N) (Hinv : sinv s ch) (Hfit : fits_ok s) (Hhwf : htx_wf (hx s)) (H64 : fits64 s).
Context (kfr vfr : nat -> list N)
  (Hki : alloc_inv key_cfg (keyf s) kfr) (Hvi : alloc_inv val_cfg (valf s) vfr).
Context (kimg vimg : bytes).
Hypothesis Hrk : render_pfile key_cfg kslot_bytes (sig_of (kt s)) (keyf s) = Ok kimg.
Hypothesis Hrv : render_pfile val_cfg vslot_bytes (sig_of (kt s)) (valf s) = Ok vimg.

Let Hcore : core s ch None := proj1 Hinv.
Let Hsg : length (sig_of (kt s)) = 8%nat := sig_len (kt s).
Let Hheads := heads_lt s ch Hinv Hfit Hhwf H64 kfr Hki kimg Hrk.
Let H3 := holds3 s kimg vimg.
Let H3ro : forall x x', H3 x -> ro_step x x' -> H3 x' := holds3_ro s kimg vimg.
Let Knext := key_next_refines s ch Hinv Hfit H64 kfr vfr Hki Hvi kimg vimg Hrk Hrv.
Let Kpay := key_payload_refines s ch Hinv Hfit H64 kfr vfr Hki Hvi kimg vimg Hrk Hrv.
Let Lval := load_value_refines s ch Hinv Hfit H64 kfr vfr Hki Hvi kimg vimg Hrk Hrv.
Let Kslot := key_slot_at s ch Hinv Hfit H64 kfr vfr Hki Hvi kimg vimg Hrk Hrv.
Let Rcnt := read_item_count_refines s ch Hinv Hfit Hhwf H64 kfr Hki kimg vimg Hrk.
Let Rhead := read_head_refines s ch Hinv Hfit Hhwf H64 kfr Hki kimg vimg Hrk.

Lemma H3_htx x : H3 x -> Io_htx.holds (sig_of (kt s)) (hx s) x.
Proof. apply holds3_htx. Qed.

(** ** E1. the iterator *)

Lemma iter_new_refines_st x : H3 x ->
  exists x', Io.iter_new x = Ok (to_io (Iter.iter_new s), x') /\ ro_step x x'.
Proof.
  intros Hx. unfold Io.iter_new.
  destruct (read_hash_buckets_size_render (sig_of (kt s)) (hx s) Hsg Hheads ltac:(apply H64) ltac:(apply H64) x (H3_htx x Hx))
    as (x1 & E1 & R1). rewrite E1. cbn [rbind].
  destruct (Rcnt x1 (H3ro _ _ Hx R1)) as (x2 & E2 & R2). rewrite E2. cbn [rbind].
  exists x2. split; [reflexivity|]. eauto using ro_step_trans.
Qed.

Lemma bucket_loop_refines fuel : forall idx j off x, H3 x ->
  Iter.bucket_loop fuel s (nb (hx s)) idx = Ok (j, off) ->
  exists x', Io.bucket_loop fuel (nb (hx s)) idx x = Ok (j, off, x') /\ ro_step x x'.
Proof.
  induction fuel as [|fu IH]; intros idx j off x Hx Hb; [discriminate|].
  cbn [Iter.bucket_loop Io.bucket_loop] in *.
  destruct (N.ltb_spec idx (nb (hx s))) as [Hlt|Hge].
  - destruct (next_nonempty (hx s) (nb (hx s)) idx) as [[j1 o1]| | |] eqn:En; cbn [rbind] in Hb; try discriminate Hb.
    destruct (next_key_piece_offset_refines (sig_of (kt s)) (hx s) Hsg Hhwf Hheads ltac:(apply H64) ltac:(apply H64)
                x idx j1 o1 (H3_htx x Hx) Hlt En) as (x1 & E1 & R1).
    rewrite E1. cbn [rbind].
    destruct (o1 =? 0) eqn:Eo.
    + destruct (IH j1 j off x1 (H3ro _ _ Hx R1) Hb) as (x2 & E2 & R2).
      exists x2. split; [exact E2|]. eauto using ro_step_trans.
    + injection Hb as <- <-. exists x1. split; [reflexivity|exact R1].
  - injection Hb as <- <-. exists x. split; [reflexivity|apply ro_step_refl].
Qed.

Lemma read_krec_heap koff r : read_krec s koff = Ok r -> kheap s !! koff = Some r.
Proof.
  unfold read_krec. destruct (slots (keyf s) !! koff) as [[sz r'|]|] eqn:Hs; try discriminate. intros [= ->].
  apply Refine_relink.used_lookup. eauto.
Qed.

Lemma iter_next_off_n a a' o : Iter.iter_next_off s a = Ok (a', o) -> Iter.it_n a' = Iter.it_n a.
Proof.
  unfold Iter.iter_next_off. intros H.
  destruct (if Iter.it_koff a =? 0 then _ else _) as [k1| | |]; cbn [rbind] in H; try discriminate H.
  destruct (if k1 =? 0 then _ else _) as [[i2 k2]| | |]; cbn [rbind] in H; try discriminate H.
  destruct (_ || _); injection H as <- _; reflexivity.
Qed.

Lemma iter_next_off_refines a a' o x : Iter.it_n a = nb (hx s) -> H3 x ->
  Iter.iter_next_off s a = Ok (a', o) ->
  exists x', Io.iter_next_off (to_io a) x = Ok (to_io a', o, x') /\ ro_step x x'.
Proof.
  intros Hn Hx H. unfold Iter.iter_next_off in H. unfold Io.iter_next_off.
  destruct a as [rem n idx koff]. cbn [Iter.it_rem Iter.it_n Iter.it_idx Iter.it_koff to_io
    Io.it_rem Io.it_n Io.it_idx Io.it_koff] in *. subst n.
  assert (Hk1 : exists k1 x1, (if koff =? 0 then Ok 0 else let* r := read_krec s koff in Ok (k_next r)) = Ok k1 /\
            (if koff =? 0 then Ok (0, x) else read_piece_only_bucket_next_offset koff x) = Ok (k1, x1) /\ ro_step x x1).
  { destruct (koff =? 0).
    - exists 0, x. split; [reflexivity|]. split; [reflexivity|apply ro_step_refl].
    - destruct (read_krec s koff) as [r| | |] eqn:Er; cbn [rbind] in H; try discriminate H.
      destruct (Knext x koff r Hx (read_krec_heap _ _ Er)) as (x1 & E1 & R1).
      exists (k_next r), x1. cbn [rbind]. auto. }
  destruct Hk1 as (k1 & x1 & Ek & E1 & R1). rewrite Ek in H. rewrite E1. cbn [rbind] in *.
  pose proof (H3ro _ _ Hx R1) as Hx1.
  assert (Hk2 : exists i2 k2 x2,
            (if k1 =? 0 then Iter.bucket_loop (S (N.to_nat (nb (hx s)))) s (nb (hx s)) idx else Ok (idx, k1)) = Ok (i2, k2) /\
            (if k1 =? 0 then Io.bucket_loop (S (N.to_nat (nb (hx s)))) (nb (hx s)) idx x1 else Ok (idx, k1, x1)) = Ok (i2, k2, x2) /\
            ro_step x1 x2).
  { destruct (k1 =? 0).
    - destruct (Iter.bucket_loop _ s _ idx) as [[i2 k2]| | |] eqn:Eb; cbn [rbind] in H; try discriminate H.
      destruct (bucket_loop_refines _ idx i2 k2 x1 Hx1 Eb) as (x2 & E2 & R2). exists i2, k2, x2. auto.
    - exists idx, k1, x1. split; [reflexivity|]. split; [reflexivity|apply ro_step_refl]. }
  destruct Hk2 as (i2 & k2 & x2 & Eb & E2 & R2). rewrite Eb in H. rewrite E2. cbn [rbind] in *.
  exists x2. split; [|eauto using ro_step_trans].
  destruct ((k2 =? 0) || (rem =? 0)); injection H as <- <-; reflexivity.
Qed.

Lemma iter_next_refines a a' o x : Iter.it_n a = nb (hx s) -> H3 x ->
  Iter.iter_next s a = Ok (a', o) ->
  exists x', Io.iter_next (to_io a) x = Ok (to_io a', o, x') /\ ro_step x x'.
Proof.
  intros Hn Hx H. unfold Iter.iter_next in H. unfold Io.iter_next.
  destruct (Iter.iter_next_off s a) as [[a1 o1]| | |] eqn:En; cbn [rbind] in H; try discriminate H.
  destruct (iter_next_off_refines a a1 o1 x Hn Hx En) as (x1 & E1 & R1). rewrite E1. cbn [rbind].
  pose proof (H3ro _ _ Hx R1) as Hx1.
  destruct o1 as [koff|].
  - destruct (read_krec s koff) as [r| | |] eqn:Er; cbn [rbind] in H; try discriminate H.
    destruct (read_val s (k_voff r)) as [v| | |] eqn:Ev; cbn [rbind] in H; try discriminate H.
    injection H as <- <-.
    pose proof (read_krec_heap _ _ Er) as Hr.
    destruct (Kslot koff r Hr) as (_ & _ & _ & _ & Hnz & _).
    rewrite (proj2 (N.eqb_neq _ _) Hnz).
    destruct (Kpay x1 koff r Hx1 Hr) as (x2 & E2 & R2). rewrite E2. cbn [rbind].
    destruct (Lval x2 koff r v (H3ro _ _ Hx1 R2) Er Ev) as (x3 & E3 & R3). rewrite E3. cbn [rbind].
    exists x3. split; [reflexivity|]. eauto using ro_step_trans.
  - injection H as <- <-. exists x1. split; [reflexivity|exact R1].
Qed.

Lemma iter_next_n a a' o : Iter.iter_next s a = Ok (a', o) -> Iter.it_n a' = Iter.it_n a.
Proof.
  unfold Iter.iter_next. intros H.
  destruct (Iter.iter_next_off s a) as [[a1 o1]| | |] eqn:En; cbn [rbind] in H; try discriminate H.
  apply iter_next_off_n in En. destruct o1 as [koff|].
  - destruct (read_krec s koff) as [r| | |]; cbn [rbind] in H; try discriminate H.
    destruct (read_val s (k_voff r)) as [v| | |]; cbn [rbind] in H; try discriminate H.
    injection H as <- _. exact En.
  - injection H as <- _. exact En.
Qed.

Lemma iter_collect_refines fuel : forall a acc items a' x, Iter.it_n a = nb (hx s) -> H3 x ->
  Iter.iter_collect fuel s a acc = Ok (items, a') ->
  exists x', Io.iter_collect fuel (to_io a) acc x = Ok (items, to_io a', x') /\ ro_step x x' /\
    Iter.it_n a' = nb (hx s).
Proof.
  induction fuel as [|fu IH]; intros a acc items a' x Hn Hx H; [discriminate|].
  cbn [Iter.iter_collect Io.iter_collect] in *.
  destruct (Iter.iter_next s a) as [[a1 o1]| | |] eqn:En; cbn [rbind] in H; try discriminate H.
  destruct (iter_next_refines a a1 o1 x Hn Hx En) as (x1 & E1 & R1). rewrite E1. cbn [rbind].
  pose proof (iter_next_n _ _ _ En) as Hn1. rewrite Hn in Hn1.
  destruct o1 as [kv|].
  - destruct (IH a1 _ items a' x1 Hn1 (H3ro _ _ Hx R1) H) as (x2 & E2 & R2 & Hn2).
    exists x2. split; [exact E2|]. split; [eauto using ro_step_trans|exact Hn2].
  - injection H as <- <-. exists x1. split; [reflexivity|]. split; [exact R1|exact Hn1].
Qed.

Lemma iter_extra_refines n : forall a ex x, Iter.it_n a = nb (hx s) -> H3 x ->
  Iter.iter_extra n s a = Ok ex ->
  exists x', Io.iter_extra n (to_io a) x = Ok (ex, x') /\ ro_step x x'.
Proof.
  induction n as [|n IH]; intros a ex x Hn Hx H; cbn [Iter.iter_extra Io.iter_extra] in *.
  - injection H as <-. exists x. split; [reflexivity|apply ro_step_refl].
  - destruct (Iter.iter_next s a) as [[a1 o1]| | |] eqn:En; cbn [rbind] in H; try discriminate H.
    destruct (iter_next_refines a a1 o1 x Hn Hx En) as (x1 & E1 & R1). rewrite E1. cbn [rbind].
    pose proof (iter_next_n _ _ _ En) as Hn1. rewrite Hn in Hn1.
    destruct (Iter.iter_extra n s a1) as [rest| | |] eqn:Ee; cbn [rbind] in H; try discriminate H.
    injection H as <-.
    destruct (IH a1 rest x1 Hn1 (H3ro _ _ Hx R1) Ee) as (x2 & E2 & R2). rewrite E2. cbn [rbind].
    exists x2. split; [reflexivity|]. eauto using ro_step_trans.
Qed.

Lemma iter_run_refines_st m items h ex : H3 (m_st m) -> Iter.iter_run s = Ok (items, h, ex) ->
  exists m', Io.iter_run m = Ok (items, h, ex, m') /\ ro_step (m_st m) (m_st m') /\ Io.images m' = Io.images m /\
    m_kt m' = m_kt m /\ m_n m' = m_n m.
Proof.
  intros Hx H. unfold Iter.iter_run in H. unfold Io.iter_run.
  destruct (iter_new_refines_st _ Hx) as (x1 & E1 & R1). rewrite E1. cbn [rbind].
  destruct (Iter.iter_collect _ s (Iter.iter_new s) []) as [[its a1]| | |] eqn:Ec; cbn [rbind] in H; try discriminate H.
  destruct (iter_collect_refines _ (Iter.iter_new s) _ _ _ x1 eq_refl (H3ro _ _ Hx R1) Ec) as (x2 & E2 & R2 & Hn2).
  change (Io.it_rem (to_io (Iter.iter_new s))) with (count (hx s)). rewrite E2. cbn [rbind].
  destruct (Iter.iter_extra 2 s a1) as [ex1| | |] eqn:Ee; cbn [rbind] in H; try discriminate H.
  injection H as <- <- <-.
  destruct (iter_extra_refines 2 a1 ex1 x2 Hn2 (H3ro _ _ (H3ro _ _ Hx R1) R2) Ee) as (x3 & E3 & R3).
  rewrite E3. cbn [rbind].
  assert (R : ro_step (m_st m) x3) by eauto using ro_step_trans.
  eexists. split; [reflexivity|]. cbn [with_st m_st m_kt m_n]. split; [exact R|].
  split; [|auto]. unfold Io.images. cbn [m_st]. apply images_ro. exact R.
Qed.
(** ** E2. statistics: the filling rate *)
Lemma seqN'_S a n : seqN' a (S n) = a :: seqN' (a + 1) n.
Proof.
  unfold seqN'. cbn [seq map]. f_equal; [lia|]. rewrite <- seq_shift, map_map. apply map_ext. intros; lia.
Qed.

Lemma filling_loop_refines cnt : forall idx acc x, H3 x -> idx + N.of_nat cnt <= nb (hx s) ->
  exists x', filling_loop cnt idx acc x =
    Ok (acc + N.of_nat (length (filter (fun i => negb (head_at (hx s) i =? 0)) (seqN' idx cnt))), x') /\ ro_step x x'.
Proof.
  induction cnt as [|c IH]; intros idx acc x Hx Hle.
  - exists x. cbn [filling_loop seqN' seq map]. rewrite filter_nil. cbn [length]. rewrite N.add_0_r.
    split; [reflexivity|apply ro_step_refl].
  - cbn [filling_loop]. destruct (Rhead x idx Hx ltac:(lia)) as (x1 & E1 & R1). rewrite E1. cbn [rbind].
    destruct (IH (idx + 1) (if head_at (hx s) idx =? 0 then acc else acc + 1) x1 (H3ro _ _ Hx R1) ltac:(lia))
      as (x2 & E2 & R2).
    exists x2. split; [|eauto using ro_step_trans]. rewrite E2. f_equal. f_equal.
    rewrite seqN'_S, filter_cons. destruct (head_at (hx s) idx =? 0); cbn [negb].
    + destruct (decide _) as [H|H]; [destruct H|]. reflexivity.
    + destruct (decide _) as [H|H]; [|destruct H; exact I]. cbn [length]. lia.
Qed.

Lemma filling_refines_st x : H3 x ->
  exists x', Io.filling (nb (hx s)) x = Ok (fst (Htx.filling (hx s)), snd (Htx.filling (hx s)), x') /\ ro_step x x'.
Proof.
  intros Hx. unfold Io.filling.
  destruct (filling_loop_refines (N.to_nat (nb (hx s))) 0 0 x Hx ltac:(lia)) as (x1 & E1 & R1).
  rewrite E1. cbn [rbind]. exists x1. split; [|exact R1]. rewrite N.add_0_l. reflexivity.
Qed.
End ops2.

(** ** E2. statistics: a rendered piece file (key file or value file) *)
Lemma index_of_lt x l : forall i0 i, index_of x l i0 = Some i -> (i < i0 + length l)%nat.
Proof.
  induction l as [|a l IH]; intros i0 i H; cbn [index_of] in H; [discriminate|].
  destruct (a =? x); [injection H as <-; cbn [length]; lia|].
  apply IH in H. cbn [length]. lia.
Qed.

Lemma class_idx_lt c sz i : Sizing.cfg_ok c -> class_idx c sz = Ok i -> (i < 16)%nat.
Proof.
  intros Hc H. unfold class_idx in H. destruct (sz =? 0); [discriminate|].
  destruct (index_of sz (size_ary c) 0) as [j|] eqn:E.
  - injection H as <-. apply index_of_lt in E. destruct Hc as [-> | ->]; cbn in E; lia.
  - destruct (_ <? _); [|discriminate]. injection H as <-. destruct Hc as [-> | ->]; cbn; lia.
Qed.

Ltac rd_as L s' E R V :=
  destruct L as (s' & E & R & V & _); [try eassumption ..|]; rewrite E; cbn [rbind].

Lemma encode_0 : encode 0 = [0].
Proof. reflexivity. Qed.

Section piece2.
Context {P : Type} (c : pcfg) (Hc : Sizing.cfg_ok c) (sb : slot P -> bytes) (len : slot P -> N) (f : pfile P)
  (frees : nat -> list N) (Hi : alloc_inv c f frees)
  (sig2 : bytes) (Hs : length sig2 = 8%nat) (img : bytes)
  (Hr : render_pfile c sb sig2 f = Ok img) (Hfe : Alloc.fend f < 2 ^ 64)
  (Hsb : forall o s, slots f !! o = Some s -> blen (sb s) = slot_size s)
  (Hfree : forall sz nxt, sb (Free sz nxt) = slot_bytes sz (free_body nxt))
  (Hlen : forall o s, slots f !! o = Some s ->
     len s < 2 ^ 64 /\ exists rest, sb s = encode (slot_size s / 8) ++ encode (len s) ++ rest).
Context (fd : fid).

Definition holdsF (x : st) : Prop := fb (get_file x fd) = img.

Lemma holdsF_ro x x' : holdsF x -> ro_step x x' -> holdsF x'.
Proof. unfold holdsF. intros H R. rewrite (ro_step_fb _ _ _ R). exact H. Qed.

Let HA : AInv c f := ex_intro _ frees Hi.
Let Hat := render_pfile_at c Hc sb f Hsb sig2 img HA Hs Hr.
Let Pat := @pc_at P c Hc sb f frees Hi sig2 Hs img Hr Hsb.
Let Pslot := @pc_slot P c Hc sb f frees Hi sig2 Hs img Hr Hfe Hsb Hfree.
Let Pblen : blen img = Alloc.fend f := proj1 Hat.

Lemma free_next_lt off sz nxt : slots f !! off = Some (Free sz nxt) -> nxt < 2 ^ 64.
Proof.
  intros Hs'. destruct (@pc_free_listed P c Hc f frees Hi _ _ _ Hs') as (i & Hlt' & Hin).
  rewrite <- (nclasses_eq c Hc) in Hlt'.
  destruct (flist_next_ok _ _ _ (ai_lists _ _ _ Hi i Hlt') _ _ _ Hin Hs') as [-> | [s' Hs2]]; [reflexivity|].
  apply (Pslot _ _ Hs2).
Qed.

Lemma free_view off sz nxt : slots f !! off = Some (Free sz nxt) ->
  exists rest, at_off img off = encode (sz / 8) ++ encode 0 ++ le_bytes 8 nxt ++ rest /\
    off <> 0 /\ sz mod 8 = 0 /\ sz < 2 ^ 64 /\ nxt < 2 ^ 64.
Proof.
  intros Hs'. destruct (Pat _ _ Hs') as [rest E]. rewrite Hfree, slot_bytes_app in E.
  unfold free_body in E. rewrite <- !app_assoc in E.
  destruct (Pslot _ _ Hs') as (_ & _ & _ & H8 & Hlt). cbn [slot_size] in *.
  destruct (inv_slot c Hc _ _ _ _ Hi Hs') as (H192 & _).
  eexists. split; [exact E|]. pose proof (free_next_lt _ _ _ Hs'). repeat split; try assumption; lia.
Qed.

Lemma view_inside x off (d rest : bytes) : holdsF x -> at_off img off = d ++ rest -> d <> [] ->
  off <= Io.fend (get_file x fd).
Proof.
  intros Hx E Hd. unfold Io.fend. rewrite Hx. pose proof (img_off_inside _ _ _ _ E Hd). lia.
Qed.

Lemma read_free_refines x off sz nxt : holdsF x -> slots f !! off = Some (Free sz nxt) ->
  exists x', read_free_piece_size_next fd off x = Ok (sz, nxt, x') /\ ro_step x x'.
Proof.
  intros Hx Hs'. destruct (free_view _ _ _ Hs') as (rest & E & Hnz & H8 & Hlt & Hn).
  unfold read_free_piece_size_next, read_free_fields.
  rd_as (rd_seek fd off x (view_inside x off _ _ Hx E (encode_nonnil _))) x0 E0 R0 V0. rewrite Hx, E in V0.
  rd_as (rd_piece_size fd x0 sz _ H8 Hlt V0) x1 E1 R1 V1.
  rd_as (rd_vu64 fd x1 0 _ ltac:(lia) V1) x2 E2 R2 V2. change (negb (0 =? 0)) with false. cbv iota.
  rd_as (rd_u64 fd x2 nxt _ Hn V2) x3 E3 R3 V3.
  eexists. split; [reflexivity|]. eauto 6 using ro_step_trans.
Qed.

Lemma le8_nonnil v : le_bytes 8 v <> [].
Proof. discriminate. Qed.

Lemma head_view i : (i < 16)%nat ->
  exists rest, at_off img (nth i (free_off c) 0) = le_bytes 8 (head_of f i) ++ rest.
Proof.
  intros Hlt. pose proof Hat as (_ & (bd & Hbd) & _). destruct (cfg_hdr_facts c Hc) as (H1 & H2 & H3 & H4).
  pose proof (@pc_heads_len P c Hc f frees Hi) as Hhl.
  set (free0 := List.hd 0 (free_off c)) in *.
  assert (Hnth : nth i (free_off c) 0 = free0 + 8 * N.of_nat i).
  { rewrite H4. rewrite (nth_indep _ 0 (free0 + 8 * N.of_nat 0)) by (rewrite map_length, seq_length; exact Hlt).
    rewrite (map_nth (fun i => free0 + 8 * N.of_nat i)), seq_nth by exact Hlt. reflexivity. }
  rewrite Hnth, Hbd. unfold render_pheader. cbv zeta. fold free0.
  set (tail := zeros (hdr_size c - (free0 + 8 * N.of_nat (length (heads f)))) ++ bd).
  replace ((sig1 c ++ sig2 ++ zeros (free0 - 16) ++ concat (map (le_bytes 8) (heads f))
            ++ zeros (hdr_size c - (free0 + 8 * N.of_nat (length (heads f))))) ++ bd)
    with ((sig1 c ++ sig2 ++ zeros (free0 - 16)) ++ (concat (map (le_bytes 8) (heads f)) ++ tail))
    by (unfold tail; rewrite <- !app_assoc; reflexivity).
  assert (Hb : blen (sig1 c ++ sig2 ++ zeros (free0 - 16)) = free0)
    by (rewrite !blen_app, blen_zeros; unfold blen; rewrite H1, Hs; lia).
  set (pre := sig1 c ++ sig2 ++ zeros (free0 - 16)) in *.
  replace (free0 + 8 * N.of_nat i) with (blen pre + 8 * N.of_nat i) by (rewrite Hb; reflexivity).
  rewrite at_off_app_add. apply concat_le8_at. rewrite Hhl. exact Hlt.
Qed.

Lemma read_free_on_header_refines x sz i : holdsF x -> class_idx c sz = Ok i ->
  exists x', read_free_on_header c fd sz x = Ok (head_of f i, x') /\ ro_step x x'.
Proof.
  intros Hx Hci. pose proof (class_idx_lt c sz i Hc Hci) as Hlt.
  destruct (head_view i Hlt) as (rest & E).
  unfold read_free_on_header, free_hdr_off. rewrite Hci. cbn [rbind].
  rd_as (rd_seek fd _ x (view_inside x _ _ _ Hx E (le8_nonnil _))) x0 E0 R0 V0. rewrite Hx, E in V0.
  destruct (rd_u64 fd x0 (head_of f i) _ (@pc_head_lt P c Hc sb f frees Hi sig2 Hs img Hr Hfe Hsb Hfree i Hlt) V0)
    as (x' & E' & R' & _).
  exists x'. split; [exact E'|]. eauto using ro_step_trans.
Qed.

(** the free-list walk *)
Lemma count_free_loop_refines : forall l h, flist f h l -> forall f1 f2 acc n x, (length l < f2)%nat ->
  count_free_from f1 f h acc = Ok n -> holdsF x ->
  exists x', count_free_loop f2 fd h acc x = Ok (n, x') /\ ro_step x x'.
Proof.
  intros l h Hl. induction Hl as [|off sz nxt l Hnz Hs' Hl IH]; intros f1 f2 acc n x Hf2 Hc1 Hx.
  - destruct f1 as [|f1]; [discriminate|]. destruct f2 as [|f2]; [lia|].
    cbn [count_free_from count_free_loop] in *. change (0 =? 0) with true in *. cbv iota in *.
    injection Hc1 as <-. exists x. split; [reflexivity|apply ro_step_refl].
  - destruct f1 as [|f1]; [discriminate|]. destruct f2 as [|f2]; [cbn [length] in Hf2; lia|].
    cbn [count_free_from count_free_loop] in *. rewrite (proj2 (N.eqb_neq _ _) Hnz) in *.
    unfold read_free in Hc1. rewrite Hs' in Hc1. cbn [rbind] in Hc1.
    destruct (read_free_refines x off sz nxt Hx Hs') as (x1 & E1 & R1). rewrite E1. cbn [rbind].
    destruct (IH f1 f2 (acc + 1) n x1 ltac:(cbn [length] in Hf2; lia) Hc1 (holdsF_ro _ _ Hx R1)) as (x2 & E2 & R2).
    exists x2. split; [exact E2|]. eauto using ro_step_trans.
Qed.

Lemma frees_len i : (i < 16)%nat -> (length (frees i) <= N.to_nat (blen img / 8))%nat.
Proof.
  intros Hlt. apply mult8_count.
  - pose proof (ai_nodup _ _ _ Hi) as Hnd. apply (inv_nodup_iff c Hc) in Hnd as [Hnd _]. apply Hnd. exact Hlt.
  - intros o Ho. destruct (inv_free_elem c Hc _ _ _ _ Hi Hlt Ho) as (Hnz & sz & nxt & E & _ & Hv).
    destruct (inv_slot c Hc _ _ _ _ Hi E) as (H192 & H8 & _ & Hle).
    destruct (valid_slot_size_facts c Hc _ Hv) as [H16 _]. cbn [slot_size] in *. rewrite Pblen. lia.
Qed.

Lemma count_of_free_piece_list_refines x sz n : holdsF x -> count_free_list c f sz = Ok n ->
  exists x', count_of_free_piece_list c fd sz x = Ok (n, x') /\ ro_step x x'.
Proof.
  intros Hx H. unfold count_free_list in H. unfold count_of_free_piece_list.
  destruct (class_idx c sz) as [i| | |] eqn:Hci; cbn [rbind] in H; try discriminate H.
  pose proof (class_idx_lt c sz i Hc Hci) as Hlt.
  destruct (read_free_on_header_refines x sz i Hx Hci) as (x1 & E1 & R1). rewrite E1. cbn [rbind].
  pose proof (holdsF_ro _ _ Hx R1) as Hx1.
  assert (Hlt' : (i < nclasses c)%nat) by (rewrite (nclasses_eq c Hc); exact Hlt).
  destruct (count_free_loop_refines _ _ (ai_lists _ _ _ Hi i Hlt') (S (size (slots f))) (walk_fuel x1 fd) 0 n x1)
    as (x2 & E2 & R2); [|exact H|exact Hx1|].
  - unfold walk_fuel, Io.fend. rewrite Hx1. pose proof (frees_len i Hlt). lia.
  - exists x2. split; [exact E2|]. eauto using ro_step_trans.
Qed.

Lemma count_frees_refines szs : forall x r, holdsF x -> Stats.count_frees c f szs = Ok r ->
  exists x', Io.count_frees c fd szs x = Ok (r, x') /\ ro_step x x'.
Proof.
  induction szs as [|sz rest IH]; intros x r Hx H; cbn [Stats.count_frees Io.count_frees] in *.
  - injection H as <-. exists x. split; [reflexivity|apply ro_step_refl].
  - destruct (count_free_list c f sz) as [n| | |] eqn:E; cbn [rbind] in H; try discriminate H.
    destruct (Stats.count_frees c f rest) as [r1| | |] eqn:Er; cbn [rbind] in H; try discriminate H.
    injection H as <-.
    destruct (count_of_free_piece_list_refines x sz n Hx E) as (x1 & E1 & R1). rewrite E1. cbn [rbind].
    destruct (IH x1 r1 (holdsF_ro _ _ Hx R1) eq_refl) as (x2 & E2 & R2). rewrite E2. cbn [rbind].
    exists x2. split; [reflexivity|]. eauto using ro_step_trans.
Qed.
(** *** the sequential slot walk *)
Lemma slot_view o sl : slots f !! o = Some sl -> exists rest,
  at_off img o = encode (slot_size sl / 8) ++ encode (len sl) ++ rest /\
  o <> 0 /\ slot_size sl mod 8 = 0 /\ slot_size sl < 2 ^ 64 /\ len sl < 2 ^ 64.
Proof.
  intros Hs'. destruct (Pat _ _ Hs') as [rest0 E]. destruct (Hlen _ _ Hs') as (Hl & rest1 & E1).
  rewrite E1, <- !app_assoc in E.
  destruct (Pslot _ _ Hs') as (_ & _ & _ & H8 & Hlt).
  destruct (inv_slot c Hc _ _ _ _ Hi Hs') as (H192 & _).
  eexists. split; [exact E|]. repeat split; try assumption; lia.
Qed.

Lemma advance_refines x o sl : holdsF x -> slots f !! o = Some sl ->
  exists x', (let* (_, a1) := seek_from_start fd o x in read_piece_size fd a1) = Ok (slot_size sl, x') /\ ro_step x x'.
Proof.
  intros Hx Hs'. destruct (slot_view _ _ Hs') as (rest & E & Hnz & H8 & Hlt & Hl).
  rd_as (rd_seek fd o x (view_inside x o _ _ Hx E (encode_nonnil _))) x0 E0 R0 V0. rewrite Hx, E in V0.
  destruct (rd_piece_size fd x0 _ _ H8 Hlt V0) as (x1 & E1 & R1 & _).
  exists x1. split; [exact E1|]. eauto using ro_step_trans.
Qed.

Lemma only_size_refines x o sl : holdsF x -> slots f !! o = Some sl ->
  exists x', read_piece_only_size fd o x = Ok (slot_size sl, x') /\ ro_step x x'.
Proof.
  intros Hx Hs'. destruct (slot_view _ _ Hs') as (_ & _ & Hnz & _).
  unfold read_piece_only_size. rewrite (proj2 (N.eqb_neq _ _) Hnz). apply advance_refines; assumption.
Qed.

Lemma only_length_refines x o sl : holdsF x -> slots f !! o = Some sl ->
  exists x', read_piece_only_length fd o x = Ok (len sl, x') /\ ro_step x x'.
Proof.
  intros Hx Hs'. destruct (slot_view _ _ Hs') as (rest & E & Hnz & H8 & Hlt & Hl).
  unfold read_piece_only_length. rewrite (proj2 (N.eqb_neq _ _) Hnz). rewrite <- Hx in E.
  rd_as (rd_skip_to_piece fd x o (slot_size sl / 8) _ (div8_lt _ Hlt) E) x0 E0 R0 V0.
  destruct (rd_vu64 fd x0 (len sl) _ Hl V0) as (x1 & E1 & R1 & _).
  exists x1. split; [exact E1|]. eauto using ro_step_trans.
Qed.

Definition g_size (h : list (N * N)) (os : N * slot P) : list (N * N) :=
  if len (snd os) =? 0 then h else touch_hist h (slot_size (snd os)).
Definition g_len (h : list (N * N)) (os : N * slot P) : list (N * N) :=
  if len (snd os) =? 0 then h else touch_hist h (len (snd os)).

Lemma size_visit_refines x o sl acc : holdsF x -> slots f !! o = Some sl ->
  exists x', size_visit fd o acc x = Ok (g_size acc (o, sl), x') /\ ro_step x x'.
Proof.
  intros Hx Hs'. unfold size_visit.
  destruct (only_size_refines x o sl Hx Hs') as (x1 & E1 & R1). rewrite E1. cbn [rbind].
  destruct (only_length_refines x1 o sl (holdsF_ro _ _ Hx R1) Hs') as (x2 & E2 & R2). rewrite E2. cbn [rbind].
  exists x2. split; [reflexivity|]. eauto using ro_step_trans.
Qed.

Lemma len_visit_refines x o sl acc : holdsF x -> slots f !! o = Some sl ->
  exists x', len_visit fd o acc x = Ok (g_len acc (o, sl), x') /\ ro_step x x'.
Proof.
  intros Hx Hs'. unfold len_visit.
  destruct (only_length_refines x o sl Hx Hs') as (x2 & E2 & R2). rewrite E2. cbn [rbind].
  exists x2. split; [reflexivity|exact R2].
Qed.

Lemma walk_len fuel : forall off l, walk_slots fuel f off = Ok l ->
  off + 8 * N.of_nat (length l) <= N.max off (Alloc.fend f).
Proof.
  induction fuel as [|fu IH]; intros off l H; [discriminate|]. cbn [walk_slots] in H.
  destruct (N.ltb_spec off (Alloc.fend f)) as [Hlt|Hge].
  - destruct (slots f !! off) as [sl|] eqn:Hs'; [|discriminate].
    destruct (slot_size sl =? 0); [discriminate|].
    destruct (walk_slots fu f (off + slot_size sl)) as [rest| | |] eqn:Er; cbn [rbind] in H; try discriminate H.
    injection H as <-. apply IH in Er. cbn [length].
    destruct (inv_slot c Hc _ _ _ _ Hi Hs') as (_ & _ & Hv & Hle).
    destruct (valid_slot_size_facts c Hc _ Hv) as [H16 _]. lia.
  - injection H as <-. cbn [length]. lia.
Qed.

Section walk2.
Context (visit : N -> list (N * N) -> st -> res (list (N * N) * st)) (g : list (N * N) -> N * slot P -> list (N * N)).
Hypothesis Hvisit : forall x o sl acc, holdsF x -> slots f !! o = Some sl ->
  exists x', visit o acc x = Ok (g acc (o, sl), x') /\ ro_step x x'.

Lemma piece_walk_refines f1 : forall nxt l, walk_slots f1 f nxt = Ok l ->
  forall f2 prev acc x, (length l < f2)%nat -> holdsF x ->
  (prev = 0 /\ nxt = hdr_size c) \/ (exists sl, slots f !! prev = Some sl /\ nxt = prev + slot_size sl) ->
  exists x', piece_walk c fd visit f2 prev (Alloc.fend f) acc x = Ok (fold_left g l acc, x') /\ ro_step x x'.
Proof.
  induction f1 as [|f1 IH]; intros nxt l H f2 prev acc x Hf2 Hx Hprev; [discriminate|].
  destruct f2 as [|f2]; [lia|]. cbn [walk_slots piece_walk] in *.
  assert (Hn : exists x1, (if prev =? 0 then Ok (hdr_size c, x)
                           else let* (_, a1) := seek_from_start fd prev x in
                                let* (sz, a2) := read_piece_size fd a1 in Ok (prev + sz, a2)) = Ok (nxt, x1) /\
                          ro_step x x1).
  { destruct Hprev as [[-> ->] | (sl & Hs' & ->)].
    - exists x. split; [reflexivity|apply ro_step_refl].
    - destruct (inv_slot c Hc _ _ _ _ Hi Hs') as (H192 & _).
      rewrite (proj2 (N.eqb_neq prev 0)) by lia.
      destruct (advance_refines x prev sl Hx Hs') as (x1 & E1 & R1).
      unfold seek_from_start in *. cbn [rbind] in *.
      destruct (read_piece_size fd (seek_to fd prev x)) as [[sz a2]| | |]; try discriminate E1.
      injection E1 as -> ->. cbn [rbind]. exists x1. split; [reflexivity|exact R1]. }
  destruct Hn as (x1 & En & R1). rewrite En. cbn [rbind]. pose proof (holdsF_ro _ _ Hx R1) as Hx1.
  destruct (nxt <? Alloc.fend f).
  - destruct (slots f !! nxt) as [sl|] eqn:Hs'; [|discriminate].
    destruct (slot_size sl =? 0); [discriminate|].
    destruct (walk_slots f1 f (nxt + slot_size sl)) as [rest| | |] eqn:Er; cbn [rbind] in H; try discriminate H.
    injection H as <-. cbn [length] in Hf2.
    destruct (Hvisit x1 nxt sl acc Hx1 Hs') as (x2 & E2 & R2). rewrite E2. cbn [rbind].
    destruct (IH _ rest Er f2 nxt (g acc (nxt, sl)) x2 ltac:(lia) (holdsF_ro _ _ Hx1 R2)) as (x3 & E3 & R3).
    { right. exists sl. auto. }
    exists x3. split; [exact E3|]. eauto using ro_step_trans.
  - injection H as <-. exists x1. split; [reflexivity|exact R1].
Qed.

Lemma piece_stats_refines x l : holdsF x -> all_slots c f = Ok l ->
  exists x', piece_stats c fd visit x = Ok (fold_left g l [], x') /\ ro_step x x'.
Proof.
  intros Hx H. unfold all_slots in H. unfold piece_stats, seek_to_end. cbn [rbind].
  assert (Hfe' : Io.fend (get_file x fd) = Alloc.fend f) by (unfold Io.fend; rewrite Hx; exact Pblen).
  assert (R1 : ro_step x (seek_to fd (Io.fend (get_file x fd)) x)) by (apply ro_step_seek; lia).
  set (x1 := seek_to fd (Io.fend (get_file x fd)) x) in *.
  pose proof (holdsF_ro _ _ Hx R1) as Hx1.
  rewrite Hfe'.
  destruct (piece_walk_refines _ _ _ H (S (walk_fuel x1 fd)) 0 [] x1) as (x2 & E2 & R2); [|exact Hx1|left; auto|].
  - apply walk_len in H. pose proof (ai_fend _ _ _ Hi) as Hge.
    unfold walk_fuel, Io.fend. rewrite Hx1, Pblen.
    assert (N.of_nat (length l) <= Alloc.fend f / 8) by (apply N.div_le_lower_bound; lia). lia.
  - exists x2. split; [exact E2|]. eauto using ro_step_trans.
Qed.
End walk2.

Lemma piece_stats_size_refines x l : holdsF x -> all_slots c f = Ok l ->
  exists x', piece_stats c fd (size_visit fd) x = Ok (size_hist len l, x') /\ ro_step x x'.
Proof. apply (piece_stats_refines (size_visit fd) g_size). intros. apply size_visit_refines; assumption. Qed.

Lemma piece_stats_len_refines x l : holdsF x -> all_slots c f = Ok l ->
  exists x', piece_stats c fd (len_visit fd) x = Ok (len_hist len l, x') /\ ro_step x x'.
Proof. apply (piece_stats_refines (len_visit fd) g_len). intros. apply len_visit_refines; assumption. Qed.
End piece2.

(** ** E2. the statistics of a map *)
Section ops3.
Context (s : store) (ch : N -> list N) (Hinv : sinv s ch) (Hfit : fits_ok s) (Hhwf : htx_wf (hx s)) (H64 : fits64 s).
Context (kfr vfr : nat -> list N)
  (Hki : alloc_inv key_cfg (keyf s) kfr) (Hvi : alloc_inv val_cfg (valf s) vfr).
Context (kimg vimg : bytes).
Hypothesis Hrk : render_pfile key_cfg kslot_bytes (sig_of (kt s)) (keyf s) = Ok kimg.
Hypothesis Hrv : render_pfile val_cfg vslot_bytes (sig_of (kt s)) (valf s) = Ok vimg.

Let Hcore : core s ch None := proj1 Hinv.
Let Hsg : length (sig_of (kt s)) = 8%nat := sig_len (kt s).
Let H3 := holds3 s kimg vimg.
Let H3ro : forall x x', H3 x -> ro_step x x' -> H3 x' := holds3_ro s kimg vimg.

Lemma kslot_hdr o sl : slots (keyf s) !! o = Some sl ->
  kslot_len sl < 2 ^ 64 /\ exists rest, kslot_bytes sl = encode (slot_size sl / 8) ++ encode (kslot_len sl) ++ rest.
Proof.
  intros Hs. destruct sl as [sz r|sz nxt]; cbn [kslot_len kslot_bytes slot_size].
  - assert (Hr : kheap s !! o = Some r) by (apply Refine_relink.used_lookup; eauto).
    destruct (co_kwf _ _ _ Hcore _ _ Hr) as (_ & Hk & _). pose proof pow31_lt_pow64.
    split; [lia|]. unfold slot_bytes, key_body. cbv zeta. rewrite <- !app_assoc. eexists. reflexivity.
  - split; [reflexivity|]. unfold slot_bytes, free_body. cbv zeta. rewrite <- !app_assoc.
    change (encode 0) with [0]. eexists. reflexivity.
Qed.

Lemma vslot_hdr o sl : slots (valf s) !! o = Some sl ->
  vslot_len sl < 2 ^ 64 /\ exists rest, vslot_bytes sl = encode (slot_size sl / 8) ++ encode (vslot_len sl) ++ rest.
Proof.
  intros Hs. destruct sl as [sz v|sz nxt]; cbn [vslot_len vslot_bytes slot_size].
  - assert (Hv : vheap s !! o = Some v) by (apply Refine_relink.used_lookup; eauto).
    destruct (co_vwf _ _ _ Hcore _ _ Hv) as (_ & Hk). pose proof pow31_lt_pow64.
    split; [lia|]. unfold slot_bytes, val_body. cbv zeta. rewrite <- !app_assoc. eexists. reflexivity.
  - split; [reflexivity|]. unfold slot_bytes, free_body. cbv zeta. rewrite <- !app_assoc.
    change (encode 0) with [0]. eexists. reflexivity.
Qed.

Lemma H3_key x : H3 x -> holdsF kimg FKey x.
Proof. intros (_ & A & _). exact A. Qed.
Lemma H3_val x : H3 x -> holdsF vimg FVal x.
Proof. intros (_ & _ & A). exact A. Qed.

Local Notation KP L := (L krec key_cfg kc_ok kslot_bytes kslot_len (keyf s) kfr Hki (sig_of (kt s)) Hsg kimg Hrk (st_kfe s H64)
     (kslot_len_ok s Hfit kfr Hki) kfree_eq kslot_hdr FKey).
Local Notation VP L := (L bytes val_cfg vc_ok vslot_bytes vslot_len (valf s) vfr Hvi (sig_of (kt s)) Hsg vimg Hrv (st_vfe s H64)
     (vslot_len_ok s Hfit vfr Hvi) vfree_eq vslot_hdr FVal).

Lemma stats_of_refines_st m r : H3 (m_st m) -> m_n m = nb (hx s) -> Stats.stats_of s = Ok r ->
  exists m', Io.stats_of m = Ok (r, m') /\ ro_step (m_st m) (m_st m') /\ Io.images m' = Io.images m /\
    m_kt m' = m_kt m /\ m_n m' = m_n m.
Proof.
  intros Hx Hn H. unfold Stats.stats_of in H. unfold Io.stats_of. cbv zeta. rewrite Hn.
  destruct (Stats.count_frees key_cfg (keyf s) (size_ary key_cfg)) as [fk| | |] eqn:Efk; cbn [rbind] in H; try discriminate H.
  destruct (Stats.count_frees val_cfg (valf s) (size_ary val_cfg)) as [fv| | |] eqn:Efv; cbn [rbind] in H; try discriminate H.
  destruct (all_slots key_cfg (keyf s)) as [ks| | |] eqn:Eks; cbn [rbind] in H; try discriminate H.
  destruct (all_slots val_cfg (valf s)) as [vs| | |] eqn:Evs; cbn [rbind] in H; try discriminate H.
  injection H as <-.
  destruct (filling_refines_st s ch Hinv Hfit Hhwf H64 kfr vfr Hki Hvi kimg vimg Hrk Hrv _ Hx) as (x0 & E0 & R0).
  rewrite E0. cbn [rbind]. pose proof (H3ro _ _ Hx R0) as Hx0.
  destruct (KP (@count_frees_refines) _ x0 fk (H3_key _ Hx0) Efk) as (x1 & E1 & R1).
  rewrite E1. cbn [rbind]. pose proof (H3ro _ _ Hx0 R1) as Hx1.
  destruct (VP (@count_frees_refines) _ x1 fv (H3_val _ Hx1) Efv) as (x2 & E2 & R2).
  rewrite E2. cbn [rbind]. pose proof (H3ro _ _ Hx1 R2) as Hx2.
  destruct (KP (@piece_stats_size_refines) x2 ks (H3_key _ Hx2) Eks) as (x3 & E3 & R3).
  rewrite E3. cbn [rbind]. pose proof (H3ro _ _ Hx2 R3) as Hx3.
  destruct (VP (@piece_stats_size_refines) x3 vs (H3_val _ Hx3) Evs) as (x4 & E4 & R4).
  rewrite E4. cbn [rbind]. pose proof (H3ro _ _ Hx3 R4) as Hx4.
  destruct (KP (@piece_stats_len_refines) x4 ks (H3_key _ Hx4) Eks) as (x5 & E5 & R5).
  rewrite E5. cbn [rbind]. pose proof (H3ro _ _ Hx4 R5) as Hx5.
  destruct (VP (@piece_stats_len_refines) x5 vs (H3_val _ Hx5) Evs) as (x6 & E6 & R6).
  rewrite E6. cbn [rbind].
  assert (R : ro_step (m_st m) x6) by eauto 10 using ro_step_trans.
  eexists. split; [reflexivity|]. cbn [with_st m_st m_kt m_n]. split; [exact R|].
  split; [|auto]. unfold Io.images. cbn [m_st]. apply images_ro. exact R.
Qed.
End ops3.

(** ** the statements on [render s] *)
Section refines2.
Context (s : store) (himg kimg vimg : bytes).
Hypothesis HI : Inv s.
Hypothesis Hfit : fits_ok s.
Hypothesis Hhwf : htx_wf (hx s).
Hypothesis H64 : fits64 s.
Hypothesis Hr : render s = Ok (himg, kimg, vimg).

(** an Io state whose three files hold the images *)
Definition on_images (x : st) : Prop := (fb (s_htx x), fb (s_key x), fb (s_val x)) = (himg, kimg, vimg).

Lemma on_images_ro x x' : on_images x -> ro_step x x' -> on_images x'.
Proof. unfold on_images. intros H R. rewrite (images_ro _ _ R). exact H. Qed.

Ltac setup Hx :=
  destruct (refine_setup s himg kimg vimg HI Hr) as (ch & kfr & vfr & Hinv & Hki & Hvi & Hrk & Hrv & Eh);
  assert (Hx3 : holds3 s kimg vimg _) by
    (unfold on_images in Hx; injection Hx as A B C; unfold holds3; cbn [get_file]; rewrite <- Eh; eauto).

Theorem iter_new_refines x : on_images x ->
  exists x', Io.iter_new x = Ok (to_io (Iter.iter_new s), x') /\ ro_step x x'.
Proof. intros Hx. setup Hx. eapply iter_new_refines_st; eassumption. Qed.

Theorem bucket_loop_refines' fuel idx j off x : on_images x ->
  Iter.bucket_loop fuel s (nb (hx s)) idx = Ok (j, off) ->
  exists x', Io.bucket_loop fuel (nb (hx s)) idx x = Ok (j, off, x') /\ ro_step x x'.
Proof. intros Hx H. setup Hx. eapply bucket_loop_refines; eassumption. Qed.

Theorem iter_next_off_refines' a a' o x : Iter.it_n a = nb (hx s) -> on_images x ->
  Iter.iter_next_off s a = Ok (a', o) ->
  exists x', Io.iter_next_off (to_io a) x = Ok (to_io a', o, x') /\ ro_step x x' /\ Iter.it_n a' = nb (hx s).
Proof.
  intros Hn Hx H. setup Hx. pose proof (iter_next_off_n s _ _ _ H) as Hn'. rewrite Hn in Hn'.
  destruct (iter_next_off_refines s ch Hinv Hfit Hhwf H64 kfr vfr Hki Hvi kimg vimg Hrk Hrv a a' o x Hn Hx3 H)
    as (x' & E & R). eauto.
Qed.

Theorem iter_next_refines' a a' o x : Iter.it_n a = nb (hx s) -> on_images x ->
  Iter.iter_next s a = Ok (a', o) ->
  exists x', Io.iter_next (to_io a) x = Ok (to_io a', o, x') /\ ro_step x x' /\ Iter.it_n a' = nb (hx s).
Proof.
  intros Hn Hx H. setup Hx. pose proof (iter_next_n s _ _ _ H) as Hn'. rewrite Hn in Hn'.
  destruct (iter_next_refines s ch Hinv Hfit Hhwf H64 kfr vfr Hki Hvi kimg vimg Hrk Hrv a a' o x Hn Hx3 H)
    as (x' & E & R). eauto.
Qed.

Theorem filling_refines x : on_images x ->
  exists x', Io.filling (nb (hx s)) x = Ok (fst (Htx.filling (hx s)), snd (Htx.filling (hx s)), x') /\ ro_step x x'.
Proof. intros Hx. setup Hx. eapply filling_refines_st; eassumption. Qed.

Theorem count_frees_key_refines szs r x : on_images x -> Stats.count_frees key_cfg (keyf s) szs = Ok r ->
  exists x', Io.count_frees key_cfg FKey szs x = Ok (r, x') /\ ro_step x x'.
Proof.
  intros Hx H. setup Hx.
  exact (@count_frees_refines krec key_cfg kc_ok kslot_bytes kslot_len (keyf s) kfr Hki (sig_of (kt s)) (sig_len _) kimg Hrk
           (st_kfe s H64) (kslot_len_ok s Hfit kfr Hki) kfree_eq (kslot_hdr s ch Hinv) FKey szs x r (proj1 (proj2 Hx3)) H).
Qed.

Theorem count_frees_val_refines szs r x : on_images x -> Stats.count_frees val_cfg (valf s) szs = Ok r ->
  exists x', Io.count_frees val_cfg FVal szs x = Ok (r, x') /\ ro_step x x'.
Proof.
  intros Hx H. setup Hx.
  exact (@count_frees_refines bytes val_cfg vc_ok vslot_bytes vslot_len (valf s) vfr Hvi (sig_of (kt s)) (sig_len _) vimg Hrv
           (st_vfe s H64) (vslot_len_ok s Hfit vfr Hvi) vfree_eq (vslot_hdr s ch Hinv) FVal szs x r (proj2 (proj2 Hx3)) H).
Qed.

Theorem piece_stats_key_refines l x : on_images x -> all_slots key_cfg (keyf s) = Ok l ->
  (exists x', piece_stats key_cfg FKey (size_visit FKey) x = Ok (size_hist kslot_len l, x') /\ ro_step x x') /\
  (exists x', piece_stats key_cfg FKey (len_visit FKey) x = Ok (len_hist kslot_len l, x') /\ ro_step x x').
Proof.
  intros Hx H. setup Hx. split.
  - exact (@piece_stats_size_refines krec key_cfg kc_ok kslot_bytes kslot_len (keyf s) kfr Hki (sig_of (kt s)) (sig_len _) kimg Hrk
           (st_kfe s H64) (kslot_len_ok s Hfit kfr Hki) kfree_eq (kslot_hdr s ch Hinv) FKey x l (proj1 (proj2 Hx3)) H).
  - exact (@piece_stats_len_refines krec key_cfg kc_ok kslot_bytes kslot_len (keyf s) kfr Hki (sig_of (kt s)) (sig_len _) kimg Hrk
           (st_kfe s H64) (kslot_len_ok s Hfit kfr Hki) kfree_eq (kslot_hdr s ch Hinv) FKey x l (proj1 (proj2 Hx3)) H).
Qed.

Theorem piece_stats_val_refines l x : on_images x -> all_slots val_cfg (valf s) = Ok l ->
  (exists x', piece_stats val_cfg FVal (size_visit FVal) x = Ok (size_hist vslot_len l, x') /\ ro_step x x') /\
  (exists x', piece_stats val_cfg FVal (len_visit FVal) x = Ok (len_hist vslot_len l, x') /\ ro_step x x').
Proof.
  intros Hx H. setup Hx. split.
  - exact (@piece_stats_size_refines bytes val_cfg vc_ok vslot_bytes vslot_len (valf s) vfr Hvi (sig_of (kt s)) (sig_len _) vimg Hrv
           (st_vfe s H64) (vslot_len_ok s Hfit vfr Hvi) vfree_eq (vslot_hdr s ch Hinv) FVal x l (proj2 (proj2 Hx3)) H).
  - exact (@piece_stats_len_refines bytes val_cfg vc_ok vslot_bytes vslot_len (valf s) vfr Hvi (sig_of (kt s)) (sig_len _) vimg Hrv
           (st_vfe s H64) (vslot_len_ok s Hfit vfr Hvi) vfree_eq (vslot_hdr s ch Hinv) FVal x l (proj2 (proj2 Hx3)) H).
Qed.

(** the API *)
Context (m : mp).
Hypothesis Hkt : m_kt m = kt s.
Hypothesis Hn : m_n m = nb (hx s).
Hypothesis Him : Io.images m = (himg, kimg, vimg).

Theorem iter_run_refines items h ex : Iter.iter_run s = Ok (items, h, ex) ->
  exists m', Io.iter_run m = Ok (items, h, ex, m') /\ ro_step (m_st m) (m_st m') /\ Io.images m' = Io.images m /\
    m_kt m' = m_kt m /\ m_n m' = m_n m.
Proof.
  intros H. assert (Hx : on_images (m_st m)) by exact Him. setup Hx.
  eapply iter_run_refines_st; eassumption.
Qed.

Theorem stats_of_refines r : Stats.stats_of s = Ok r ->
  exists m', Io.stats_of m = Ok (r, m') /\ ro_step (m_st m) (m_st m') /\ Io.images m' = Io.images m /\
    m_kt m' = m_kt m /\ m_n m' = m_n m.
Proof.
  intros H. assert (Hx : on_images (m_st m)) by exact Him. setup Hx.
  eapply stats_of_refines_st; eassumption.
Qed.
End refines2.

Print Assumptions iter_new_refines.
Print Assumptions iter_next_off_refines'.
Print Assumptions iter_next_refines'.
Print Assumptions iter_run_refines.
Print Assumptions filling_refines.
Print Assumptions count_frees_key_refines.
Print Assumptions count_frees_val_refines.
Print Assumptions piece_stats_key_refines.
Print Assumptions piece_stats_val_refines.
Print Assumptions stats_of_refines.
