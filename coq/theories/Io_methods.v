(** * Io_methods: which method of the buffered file serves a call of the map layer.

    [Io_flat.call_op] names ONE rabuf call per primitive of the map layer (seek from start,
    [read_exact], [write_all], [set_len]).  The crate's [VarFile] forwards each of its primitives to
    the method of the same name of rabuf's BufFile ([read_u8] ... [read_exact_maybeslice],
    [write_u8] ... [write_zero], the partial [write] inside std's [write_all] loop); the fine
    io-trace hook prints that method with every read and write event, and the correspondence runs
    count them and check their guards.  Here: the table from method to the operation of the cache
    model, and the proof that - inside its guard - every method is [Cache_x.same_call] with the
    canonical call, so that [cache_refines_xflat_variants] applies to the calls really made. *)
From Coq Require Import Lia ZifyN ZifyNat ZifyBool.
From Aby Require Import Base Cache Cache_proofs Flatx Cache_x Io Io_flat.
Import Rabuf.
#[local] Open Scope N_scope.

(** the reading methods of [SmallRead] the crate uses ([k]: 1, 2, 4, 8 bytes) and [read_exact] itself *)
Inductive rmethod := RdExact | RdU (k : N) | RdMax8 | RdExactSmall | RdMaybeSlice.
(** the writing methods: [write_all], the [SmallWrite] family, and one [Write::write] (partial) *)
Inductive wmethod := WrAll | WrU (k : N) | WrSlice64 | WrAllSmall | WrZero | WrPart.

Definition read_via (m : rmethod) (n : N) : op :=
  match m with
  | RdExact => ORead n
  | RdU _ | RdMaybeSlice => OReadSmall false n n
  | RdMax8 => OReadSmall false 8 n
  | RdExactSmall => OReadSmall true n n
  end.

Definition read_guard (cs : N) (m : rmethod) (n : N) : bool :=
  match m with
  | RdU k => n =? k
  | RdMax8 => n <=? 8
  | RdExactSmall => n <=? cs
  | _ => true
  end.

Definition write_via (m : wmethod) (d : bytes) : op :=
  match m with
  | WrAll => OWrite d
  | WrAllSmall => OWriteSmall true d
  | WrPart => OWritePart d
  | _ => OWriteSmall false d
  end.

Definition write_guard (cs pos : N) (m : wmethod) (d : bytes) : bool :=
  match m with
  | WrU k => blen d =? k
  | WrAllSmall => blen d <=? cs
  | WrPart => blen d <=? to_boundary cs pos
  | _ => true
  end.

Theorem read_via_same_call cs f m n :
  read_guard cs m n = true -> same_call cs f (ORead n) (read_via m n).
Proof.
  destruct m as [|k| | |]; cbn [read_guard read_via]; intros H.
  - apply sc_refl.
  - apply sc_read_small. cbn [andb orb]. apply N.ltb_irrefl.
  - apply sc_read_small. cbn [andb orb]. apply N.ltb_ge. apply N.leb_le. exact H.
  - apply sc_read_small. rewrite N.ltb_irrefl, orb_false_r. cbn [andb]. apply N.ltb_ge. apply N.leb_le. exact H.
  - apply sc_read_small. cbn [andb orb]. apply N.ltb_irrefl.
Qed.

Theorem write_via_same_call cs f m d :
  write_guard cs (f_pos f) m d = true -> same_call cs f (OWrite d) (write_via m d).
Proof.
  destruct m as [|k| | | |]; cbn [write_guard write_via]; intros H.
  - apply sc_refl.
  - apply sc_write_small. reflexivity.
  - apply sc_write_small. reflexivity.
  - apply sc_write_small. cbn [andb]. apply N.ltb_ge. apply N.leb_le. exact H.
  - apply sc_write_small. reflexivity.
  - apply sc_write_part. apply N.leb_le. exact H.
Qed.

(** a call of the map layer made through any method / any [SeekFrom] *)
Inductive made_via (cs : N) (f : flat) : call -> op -> Prop :=
| via_seek t sf : Cache_x.seek_target f sf = Some t -> made_via cs f (CSeek t) (OSeek sf)
| via_read m n : read_guard cs m n = true -> made_via cs f (CRead n) (read_via m n)
| via_write m d : write_guard cs (f_pos f) m d = true -> made_via cs f (CWrite d) (write_via m d)
| via_set_len n : made_via cs f (CSetLen n) (OSetLen n).

Lemma made_via_same_call cs f c o : made_via cs f c o -> same_call cs f (call_op c) o.
Proof.
  intros [t sf Hs|m n Hg|m d Hg|n]; cbn [call_op].
  - apply sc_seek. cbn [Cache_x.seek_target]. symmetry. exact Hs.
  - apply read_via_same_call. exact Hg.
  - apply write_via_same_call. exact Hg.
  - apply sc_refl.
Qed.

(** call lists, threaded through the flat states *)
Fixpoint made_via_all (cs : N) (f : flat) (cl : list call) (ol : list op) : Prop :=
  match cl, ol with
  | [], [] => True
  | c :: cr, o :: orr => made_via cs f c o /\ made_via_all cs (tstep f c) cr orr
  | _, _ => False
  end.

Lemma made_via_all_same_calls cs : forall cl ol f,
  calls_ok cs f cl = true -> made_via_all cs f cl ol -> same_calls cs f (map call_op cl) ol.
Proof.
  induction cl as [|c cr IH]; intros [|o orr] f Hok Hm; cbn [made_via_all map same_calls] in *; try contradiction; [exact Logic.I|].
  destruct Hm as [Hc Hr]. cbn [calls_ok] in Hok. apply andb_prop in Hok as [H1 H2].
  split; [apply made_via_same_call; exact Hc|].
  rewrite (call_ok_xstep cs f c H1). apply IH; assumption.
Qed.

Print Assumptions made_via_all_same_calls.
Print Assumptions read_via_same_call.
Print Assumptions write_via_same_call.
Print Assumptions made_via_same_call.
