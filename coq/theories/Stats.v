(** * Stats: the [CheckFileDbMap] diagnostics. *)
From Aby Require Import Base KeyTypes Consts Sizing Alloc Htx Store.

(** [touch_size] / [touch_length]: sorted association list of counters *)
Fixpoint touch_hist (h : list (N * N)) (x : N) : list (N * N) :=
  match h with
  | [] => [(x, 1)]
  | (a, c) :: h' =>
    if x <? a then (x, 1) :: h
    else if x =? a then (a, c + 1) :: h'
    else (a, c) :: touch_hist h' x
  end.

Definition kslot_len (s : slot krec) : N :=
  match s with Used _ r => blen (k_key r) | Free _ _ => 0 end.
Definition vslot_len (s : slot bytes) : N :=
  match s with Used _ v => blen v | Free _ _ => 0 end.

Fixpoint count_frees {P} (c : pcfg) (f : pfile P) (szs : list N) : res (list (N * N)) :=
  match szs with
  | [] => Ok []
  | sz :: rest =>
    let* n := count_free_list c f sz in
    let* r := count_frees c f rest in
    Ok ((sz, n) :: r)
  end.

Record stats := MkStats {
  st_free_key : list (N * N); st_free_val : list (N * N);
  st_key_sizes : list (N * N); st_val_sizes : list (N * N);
  st_key_lens : list (N * N); st_val_lens : list (N * N);
  st_fill : N * N }.

Definition size_hist {P} (len : slot P -> N) (l : list (N * slot P)) : list (N * N) :=
  fold_left (fun h os => if len (snd os) =? 0 then h else touch_hist h (slot_size (snd os))) l [].
Definition len_hist {P} (len : slot P -> N) (l : list (N * slot P)) : list (N * N) :=
  fold_left (fun h os => if len (snd os) =? 0 then h else touch_hist h (len (snd os))) l [].

Definition stats_of (s : store) : res stats :=
  let* fk := count_frees key_cfg (keyf s) (size_ary key_cfg) in
  let* fv := count_frees val_cfg (valf s) (size_ary val_cfg) in
  let* ks := all_slots key_cfg (keyf s) in
  let* vs := all_slots val_cfg (valf s) in
  Ok (MkStats fk fv (size_hist kslot_len ks) (size_hist vslot_len vs)
              (len_hist kslot_len ks) (len_hist vslot_len vs) (filling (hx s))).
