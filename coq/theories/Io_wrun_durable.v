(** * Io_wrun_durable: durability for histories with traversals and statistics calls ([Io_wrun]) over ANY buffer:
    sync_all / sync_data (C03), and failed flushes followed by a recovery (C16).

    [Io_sync] and [Io_durable] say it for histories of put / get / delete / includes_key / len / is_empty;
    [Io_wrun_cache.whistory_over_any_cache] serves histories that also contain full traversals and statistics
    calls by any cache.  Composed here: after creation and any such history, (a) syncing the three buffers
    leaves [render] of the state on the disk with the OS request as the newest event of each file;
    (b) any number of flush attempts under file-size limits that come and go leave the buffers representing the
    files, and a flush without limit then puts exactly those files on the disk. *)
From Coq Require Import Lia ZifyN ZifyNat ZifyBool.
From Aby Require Import Base Vu64 Hash KeyTypes Consts Sizing Alloc Htx Store Iter Stats Layout Load Spec Refine Refine_all
  Load_all Cache Cache_proofs Flatx Cache_x Cache_sync Cache_fault Io Io_base Io_htx Io_run Io_create Io_proofs Io_open Io_flat Io_flat_ro Io_cache Io_flat_upd
  Io_durable Io_sync Io_wrun Io_wrun_cache.
Import Io Rabuf RabufF.
#[local] Open Scope N_scope.

Theorem whistory_sync_durable_over_any_buffer t n bk bv bh ops all :
  1 <= n -> pow2 n -> Forall (wop_wf t) ops -> wsized (Store.create t n) ops ->
  exists s' outs (cf : fid -> list call),
    wstore_run (Store.create t n) ops = Ok (s', outs) /\ wagree_run ∅ ops outs /\
    forall ck cv ch fuel,
      backs ck (get_file (empty_st bk bv bh) FKey) ->
      backs cv (get_file (empty_st bk bv bh) FVal) ->
      backs ch (get_file (empty_st bk bv bh) FHtx) ->
      (forall f c, In (f, c) [(FKey, ck); (FVal, cv); (FHtx, ch)] ->
         (xrun_fuel (k_cs c) (flat_of (get_file (empty_st bk bv bh) f)) (map call_op (cf f)) <= fuel)%nat) ->
      exists dk dv dh ek ev eh,
        synced_disk fuel ck (cf FKey) all = Ok (dk, EvSync all :: ek) /\
        synced_disk fuel cv (cf FVal) all = Ok (dv, EvSync all :: ev) /\
        synced_disk fuel ch (cf FHtx) all = Ok (dh, EvSync all :: eh) /\
        render s' = Ok (dh, dk, dv).
Proof.
  intros Hn Hp Hops Hsz.
  destruct (whistory_over_any_cache t n bk bv bh ops Hn Hp Hops Hsz) as (m0 & m' & s' & outs & Hc & Hrun & Hio & Hag & Hr & cf & Hs).
  exists s', outs, cf. split; [exact Hrun|]. split; [exact Hag|].
  intros ck cv ch fuel Bk Bv Bh Hfuel.
  destruct (served_synced _ _ _ _ ck fuel all (Hs FKey) Bk ltac:(apply (Hfuel FKey ck); cbn; auto)) as (ek & Ek).
  destruct (served_synced _ _ _ _ cv fuel all (Hs FVal) Bv ltac:(apply (Hfuel FVal cv); cbn; auto)) as (ev & Ev).
  destruct (served_synced _ _ _ _ ch fuel all (Hs FHtx) Bh ltac:(apply (Hfuel FHtx ch); cbn; auto)) as (eh & Eh).
  exists (fb (get_file (m_st m') FKey)), (fb (get_file (m_st m') FVal)), (fb (get_file (m_st m') FHtx)), ek, ev, eh.
  split; [exact Ek|]. split; [exact Ev|]. split; [exact Eh|]. exact Hr.
Qed.

Theorem whistory_failed_flushes_then_recovery_over_any_buffer t n bk bv bh ops :
  1 <= n -> pow2 n -> Forall (wop_wf t) ops -> wsized (Store.create t n) ops ->
  exists s' m' outs (cf : fid -> list call),
    wstore_run (Store.create t n) ops = Ok (s', outs) /\ wagree_run ∅ ops outs /\
    render s' = Ok (Io.images m') /\
    forall f c fuel lims,
      backs c (get_file (empty_st bk bv bh) f) ->
      (xrun_fuel (k_cs c) (flat_of (get_file (empty_st bk bv bh) f)) (map call_op (cf f)) <= fuel)%nat ->
      exists c1 couts,
        crun fuel c (map call_op (cf f)) = Ok (c1, couts) /\
        R (flush_attempts lims c1) (flat_of (get_file (m_st m') f)) /\
        exists c3, flush_f None (flush_attempts lims c1) = FOk c3 /\ k_disk c3 = fb (get_file (m_st m') f).
Proof.
  intros Hn Hp Hops Hsz.
  destruct (whistory_over_any_cache t n bk bv bh ops Hn Hp Hops Hsz) as (m0 & m' & s' & outs & Hc & Hrun & Hio & Hag & Hr & cf & Hs).
  exists s', m', outs, cf. split; [exact Hrun|]. split; [exact Hag|]. split; [exact Hr|].
  intros f c fuel lims Hb Hfuel.
  destruct (Hs f c fuel Hb Hfuel) as (c1 & Ec & (I1 & R1 & _) & _ & _).
  eexists c1, _. split; [exact Ec|].
  destruct (flush_attempts_keep lims c1 _ I1 R1) as (I2 & R2 & _).
  split; [exact R2|].
  destruct (flush_f_recovery _ _ I2 R2) as (c3 & E3 & Hd & _). exists c3. split; [exact E3|exact Hd].
Qed.

Print Assumptions whistory_sync_durable_over_any_buffer.
Print Assumptions whistory_failed_flushes_then_recovery_over_any_buffer.
