(** * Io_create: the byte-level creation of the three files gives the images of [Store.create]. *)
From Coq Require Import Lia ZifyN ZifyNat ZifyBool.
From Aby Require Import Base Vu64 Vu64_proofs Hash KeyTypes Consts Sizing Alloc Htx Htx_proofs Store Stats
  Layout Load Load_htx_proofs Cache Cache_proofs Io Io_base Io_htx.
Import Io.
#[local] Open Scope N_scope.

(** ** byte strings *)
Lemma zeros_add a b : zeros a ++ zeros b = zeros (a + b).
Proof. unfold zeros. rewrite <- repeat_app. f_equal. lia. Qed.

Lemma splice_end (l d : bytes) : splice l (blen l) d = l ++ d.
Proof.
  unfold splice. rewrite pad_to_le by lia. unfold blen at 1. rewrite Nat2N.id, firstn_all.
  rewrite (drop_ge l) by (unfold blen; lia). rewrite app_nil_r. reflexivity.
Qed.

Lemma concat_const_zeros {A} (l : list A) : concat (map (fun _ => le_bytes 8 0) l) = zeros (8 * N.of_nat (length l)).
Proof.
  induction l as [|a l IH]; [reflexivity|]. cbn [map concat length]. rewrite IH.
  change (le_bytes 8 0) with (zeros 8). rewrite zeros_add. f_equal. lia.
Qed.

Lemma map_const_zeros {A} (g : A -> N) (l : list A) : (forall a, g a = 0) -> map g l = zeros (N.of_nat (length l)).
Proof.
  intros Hg. induction l as [|a l IH]; [reflexivity|]. cbn [map length]. rewrite IH, Hg.
  unfold zeros. rewrite !Nat2N.id. reflexivity.
Qed.

(** rewriting (not converting) a bind whose first computation is known: conversion would make
    the kernel evaluate the rest of the program *)
Lemma rbind_ok {A B} (a : A) (f : A -> res B) : rbind (Ok a) f = f a.
Proof. reflexivity. Qed.

(** ** a file that is being written from its start, always at its end *)
Definition at_end (x : st) (f : fid) (b : bytes) (cs : N) : Prop := get_file x f = File b (blen b) cs.
Definition others (x x' : st) (f : fid) : Prop := forall g, g <> f -> get_file x' g = get_file x g.

Lemma others_trans x1 x2 x3 f : others x1 x2 f -> others x2 x3 f -> others x1 x3 f.
Proof. intros A B g Hg. rewrite B, A by exact Hg. reflexivity. Qed.

Lemma app_all f (d : bytes) x b cs : at_end x f b cs -> 0 < cs ->
  exists x', write_all_bytes f d x = Ok x' /\ at_end x' f (b ++ d) cs /\ others x x' f.
Proof.
  intros Hx Hcs. unfold at_end in Hx.
  destruct (write_all_bytes_spec f d x) as (x' & evs & E & [Hf Ho] & _).
  { rewrite Hx. exact Hcs. }
  { rewrite Hx. unfold fend. cbn [fb fp]. lia. }
  exists x'. split; [exact E|]. split; [|exact Ho].
  unfold at_end. rewrite Hf, Hx. cbn [fb fp fcs]. rewrite splice_end, blen_app. reflexivity.
Qed.

Lemma app_u64 f v x b cs : at_end x f b cs ->
  exists x', write_u64 f v x = Ok x' /\ at_end x' f (b ++ le_bytes 8 v) cs /\ others x x' f.
Proof.
  intros Hx. unfold at_end in Hx. destruct (write_n_spec f (le_bytes 8 v) x) as [[Hf Ho] _].
  exists (write_n f (le_bytes 8 v) x). split; [reflexivity|]. split; [|exact Ho].
  unfold at_end. rewrite Hf, Hx. cbn [fb fp fcs]. rewrite splice_end, blen_app. reflexivity.
Qed.

(** the two seeks every initialisation starts with, on an empty file *)
Definition started (f : fid) (x : st) : st := seek_to f 0 (seek_to f (fend (get_file x f)) x).

Lemma start_empty f x cs : get_file x f = File [] 0 cs ->
  at_end (started f x) f [] cs /\ others x (started f x) f.
Proof.
  intros Hx. unfold started.
  destruct (seek_to_spec f (fend (get_file x f)) x) as [[H1 O1] _].
  destruct (seek_to_spec f 0 (seek_to f (fend (get_file x f)) x)) as [[H2 O2] _].
  split.
  - unfold at_end. rewrite H2, H1, Hx. reflexivity.
  - intros g Hg. rewrite O2, O1 by exact Hg. reflexivity.
Qed.

(** ** the header of a piece file *)
Lemma init_pheader_spec c f sig2 x cs : get_file x f = File [] 0 cs -> 0 < cs ->
  exists x', init_pheader c f sig2 x = Ok x' /\
    fb (get_file x' f) = sig1 c ++ sig2 ++ le_bytes 8 0 ++ le_bytes 8 0 ++ zeros (hdr_size c - 32) /\
    fcs (get_file x' f) = cs /\ others x x' f.
Proof.
  intros Hx Hcs. unfold init_pheader.
  destruct (start_empty f x cs Hx) as (A1 & O1).
  unfold seek_to_end, seek_from_start. cbn [rbind]. fold (started f x). set (x1 := started f x) in *.
  destruct (app_all f (sig1 c) x1 _ cs A1 Hcs) as (x2 & E2 & A2 & O2). rewrite E2, rbind_ok; cbv beta.
  destruct (app_all f sig2 x2 _ cs A2 Hcs) as (x3 & E3 & A3 & O3). rewrite E3, rbind_ok; cbv beta.
  destruct (app_u64 f 0 x3 _ cs A3) as (x4 & E4 & A4 & O4). rewrite E4, rbind_ok; cbv beta.
  destruct (app_u64 f 0 x4 _ cs A4) as (x5 & E5 & A5 & O5). rewrite E5, rbind_ok; cbv beta.
  destruct (app_all f (zeros (hdr_size c - 32)) x5 _ cs A5 Hcs) as (x6 & E6 & A6 & O6).
  exists x6. split; [exact E6|]. unfold at_end in A6. rewrite A6. cbn [fb fcs].
  split; [cbn [app]; rewrite <- !app_assoc; reflexivity|]. split; [reflexivity|].
  eauto 10 using others_trans.
Qed.

Lemma render_pfile_create {P} c (sb : slot P -> bytes) sig2 :
  render_pfile c sb sig2 (pf_create c) = Ok (render_pheader c sig2 (repeat 0 (length (free_off c)))).
Proof.
  unfold render_pfile, all_slots. cbn [walk_slots pf_create Alloc.fend]. rewrite N.ltb_irrefl. cbn [rbind map concat heads].
  rewrite app_nil_r. reflexivity.
Qed.

Lemma pheader_create c sig2 : Sizing.cfg_ok c ->
  sig1 c ++ sig2 ++ le_bytes 8 0 ++ le_bytes 8 0 ++ zeros (hdr_size c - 32) =
  render_pheader c sig2 (repeat 0 (length (free_off c))).
Proof. intros [-> | ->]; unfold render_pheader; cbv zeta; do 2 f_equal; vm_compute; reflexivity. Qed.

(** ** the table file *)
Lemma bitmap_byte_create n j : bitmap_byte (htx_create n) j = 0.
Proof.
  unfold bitmap_byte. generalize (seqN' 0 8). intros l. induction l as [|t l IH]; [reflexivity|].
  cbn [fold_right]. rewrite IH. rewrite bool_decide_eq_false_2; [reflexivity|]. cbn [bitmap htx_create]. set_solver.
Qed.

Lemma head_at_create n i : head_at (htx_create n) i = 0.
Proof. unfold head_at. cbn [buckets htx_create]. rewrite lookup_empty. reflexivity. Qed.

Lemma render_htx_create sig2 n : length sig2 = 8%nat ->
  render_htx sig2 (htx_create n) =
  (htx_signature ++ sig2 ++ le_bytes 8 n ++ zeros (htx_header_size - 24)) ++ zeros (n * 8 + n / 8).
Proof.
  intros Hs. unfold render_htx. cbn [nb count hend htx_create].
  rewrite (map_ext _ (fun _ => le_bytes 8 0)) by (intros i; rewrite head_at_create; reflexivity).
  rewrite concat_const_zeros, seqN'_length.
  rewrite (map_const_zeros (bitmap_byte (htx_create n))) by (intros; apply bitmap_byte_create).
  rewrite seqN'_length. rewrite zeros_add.
  change (le_bytes 8 0) with (zeros 8). rewrite <- !app_assoc. do 3 f_equal.
  rewrite app_assoc, zeros_add. f_equal.
  f_equal. lia.
Qed.

Lemma getb_app_zeros (b : bytes) k p : blen b <= p -> getb (b ++ zeros k) p = 0.
Proof.
  intros H. rewrite getb_app. destruct (N.ltb_spec p (blen b)); [lia|]. apply getb_zeros.
Qed.

Lemma resize_app_zeros (b : bytes) k : resize b (blen b + k) = b ++ zeros k.
Proof.
  unfold resize, pad_to. replace (blen b + k - blen b) with k by lia.
  apply firstn_all2. rewrite app_length. unfold zeros. rewrite repeat_length. unfold blen. lia.
Qed.

Lemma splice_zeros_tail (b : bytes) k : 8 <= k ->
  splice (b ++ zeros k) (blen b + k - 8) (le_bytes 8 0) = b ++ zeros k.
Proof.
  intros Hk. apply bytes_ext.
  - rewrite blen_splice, blen_le_bytes, blen_app, blen_zeros. change (N.of_nat 8) with 8. lia.
  - intros p _. rewrite getb_splice, blen_le_bytes. change (N.of_nat 8) with 8.
    destruct (N.ltb_spec p (blen b + k - 8)); [reflexivity|].
    destruct (N.ltb_spec p (blen b + k - 8 + 8)); [|reflexivity].
    change (le_bytes 8 0) with (zeros 8). rewrite getb_zeros. symmetry. apply getb_app_zeros. lia.
Qed.

Lemma set_len_spec f e x b p cs : get_file x f = File b p cs ->
  get_file (set_len f e x) f = File (resize b e) (N.min p e) cs /\ others x (set_len f e x) f.
Proof.
  intros Hx. unfold set_len. split.
  - rewrite get_emit, get_set_same, Hx. reflexivity.
  - intros g Hg. rewrite get_emit, get_set_other by congruence. reflexivity.
Qed.

(** the tail of [init_htx]: [set_len], the seek to the last word, the zero word *)
Lemma init_htx_tail x (b5 : bytes) k cs e0 : e0 = blen b5 + k -> 8 <= k -> at_end x FHtx b5 cs ->
  exists x', (let e := e0 in
              let s6 := set_len FHtx e x in
              if e <? 8 then Panic Overflow else
              let* (_, s7) := seek_from_start FHtx (e - 8) s6 in write_u64 FHtx 0 s7) = Ok x' /\
    fb (get_file x' FHtx) = b5 ++ zeros k /\ fcs (get_file x' FHtx) = cs /\ others x x' FHtx.
Proof.
  intros -> Hk A5. cbv zeta. destruct (N.ltb_spec (blen b5 + k) 8) as [|_]; [lia|].
  destruct (set_len_spec FHtx (blen b5 + k) x _ _ _ A5) as [A6 O6]. rewrite resize_app_zeros in A6.
  set (x6 := set_len FHtx (blen b5 + k) x) in *.
  assert (Hin : blen b5 + k - 8 <= fend (get_file x6 FHtx)).
  { unfold fend. rewrite A6. cbn [fb]. rewrite blen_app, blen_zeros. lia. }
  unfold seek_from_start, write_u64. cbn [rbind].
  destruct (seek_to_inside FHtx _ x6 Hin) as [H7 O7]. rewrite A6 in H7. cbn [fb fcs] in H7.
  set (x7 := seek_to FHtx (blen b5 + k - 8) x6) in *.
  destruct (write_n_spec FHtx (le_bytes 8 0) x7) as [[H8 O8] _]. rewrite H7 in H8. cbn [fb fp fcs] in H8.
  eexists. split; [reflexivity|]. rewrite H8. cbn [fb fcs]. split; [apply splice_zeros_tail; exact Hk|].
  split; [reflexivity|]. intros g Hg. rewrite O8, O7, O6 by exact Hg. reflexivity.
Qed.

Lemma init_htx_spec sig2 n x cs : length sig2 = 8%nat -> 1 <= n -> get_file x FHtx = File [] 0 cs -> 0 < cs ->
  exists x', init_htx sig2 n x = Ok x' /\
    fb (get_file x' FHtx) = (htx_signature ++ sig2 ++ le_bytes 8 n ++ zeros (htx_header_size - 24)) ++ zeros (n * 8 + n / 8) /\
    fcs (get_file x' FHtx) = cs /\ others x x' FHtx.
Proof.
  intros Hs Hn Hx Hcs. unfold init_htx.
  destruct (start_empty FHtx x cs Hx) as (A1 & O1).
  unfold seek_to_end at 1, seek_from_start at 1. cbn [rbind]. fold (started FHtx x). set (x1 := started FHtx x) in *.
  destruct (app_all FHtx htx_signature x1 _ cs A1 Hcs) as (x2 & E2 & A2 & O2). rewrite E2, rbind_ok; cbv beta.
  destruct (app_all FHtx sig2 x2 _ cs A2 Hcs) as (x3 & E3 & A3 & O3). rewrite E3, rbind_ok; cbv beta.
  destruct (app_u64 FHtx n x3 _ cs A3) as (x4 & E4 & A4 & O4). rewrite E4, rbind_ok; cbv beta.
  destruct (app_all FHtx (zeros (htx_header_size - 24)) x4 _ cs A4 Hcs) as (x5 & E5 & A5 & O5). rewrite E5, rbind_ok; cbv beta.
  cbn [app] in A5. rewrite <- !app_assoc in A5.
  set (b5 := htx_signature ++ sig2 ++ le_bytes 8 n ++ zeros (htx_header_size - 24)) in *.
  assert (Hb5 : blen b5 = htx_header_size).
  { unfold b5. rewrite !blen_app, blen_zeros, blen_le_bytes. unfold blen. rewrite Hs. reflexivity. }
  destruct (init_htx_tail x5 b5 (n * 8 + n / 8) cs (htx_header_size + n * 8 + (if htx_bitmap then n / 8 else 0)))
    as (x6 & E6 & B6 & C6 & O6); [rewrite Hb5; change htx_bitmap with true; cbv iota; lia|lia|exact A5|].
  exists x6. split; [exact E6|]. split; [exact B6|]. split; [exact C6|].
  intros g Hg. rewrite O6, O5, O4, O3, O2, O1 by exact Hg. reflexivity.
Qed.

(** ** creation *)
Lemma sig_len t : length (sig_of t) = 8%nat.
Proof. destruct t; reflexivity. Qed.

Lemma chunk_of_pos own b : 0 < own -> 0 < chunk_of own b.
Proof. intros H. destruct b; [reflexivity|exact H]. Qed.

Theorem create_refines t n bk bv bh : 1 <= n ->
  exists m, Io.create t n bk bv bh = Ok m /\ render (Store.create t n) = Ok (Io.images m) /\
    m_kt m = t /\ m_n m = n /\ (forall f, 0 < fcs (get_file (m_st m) f)).
Proof.
  intros Hn. unfold Io.create. cbv zeta.
  assert (Hk : 0 < chunk_of key_chunk_size bk) by (apply chunk_of_pos; reflexivity).
  assert (Hv : 0 < chunk_of val_chunk_size bv) by (apply chunk_of_pos; reflexivity).
  assert (Hh : 0 < chunk_of htx_chunk_size bh) by (apply chunk_of_pos; reflexivity).
  destruct (init_pheader_spec key_cfg FKey (sig_of t) (empty_st bk bv bh) _ eq_refl Hk) as (x1 & E1 & B1 & C1 & O1).
  rewrite E1, rbind_ok; cbv beta.
  destruct (init_pheader_spec val_cfg FVal (sig_of t) x1 (chunk_of val_chunk_size bv)) as (x2 & E2 & B2 & C2 & O2);
    [rewrite O1 by discriminate; reflexivity|exact Hv|].
  rewrite E2, rbind_ok; cbv beta.
  destruct (init_htx_spec (sig_of t) n x2 (chunk_of htx_chunk_size bh) (sig_len t) Hn) as (x3 & E3 & B3 & C3 & O3);
    [rewrite O2, O1 by discriminate; reflexivity|exact Hh|].
  rewrite E3, rbind_ok; cbv beta.
  eexists. split; [reflexivity|]. cbn [m_kt m_n m_st]. split; [|split; [reflexivity|split; [reflexivity|]]].
  - unfold render, Store.create. cbn [kt hx keyf valf]. rewrite !render_pfile_create. cbn [rbind].
    unfold Io.images. cbn [m_st]. f_equal. f_equal; [f_equal|].
    + rewrite render_htx_create by apply sig_len. symmetry. exact B3.
    + change (s_key x3) with (get_file x3 FKey). rewrite O3, O2 by discriminate. rewrite B1.
      symmetry. apply pheader_create. left; reflexivity.
    + change (s_val x3) with (get_file x3 FVal). rewrite O3 by discriminate. rewrite B2.
      symmetry. apply pheader_create. right; reflexivity.
  - intros [ | | ].
    + rewrite O3, O2 by discriminate. rewrite C1. exact Hk.
    + rewrite O3 by discriminate. rewrite C2. exact Hv.
    + rewrite C3. exact Hh.
Qed.

Print Assumptions create_refines.
