(** * Buf: a buffered file (rabuf::BufFile, dependency - modelled) at chunk granularity, and
    the three files of a map with the [dirty] / [unsynced] flags of [FileDbXxxInner]
    (dbxxx.rs [flush], [sync_all], [sync_data], as of the tree with the D1 and D9 repairs).

    A file is a finite map from chunk index to chunk contents (type [A], abstract).  [logical] is
    what reads see (buffer over disk), [disk] what the OS has been handed.  Chunks outside
    [dirtyset] are identical in both.  rabuf may write dirty chunks back at any time (eviction);
    [flush] writes them in ascending order and stops at the first write the OS refuses, leaving
    that chunk dirty (and the disk copy of it arbitrary: a partial write). *)
From Aby Require Import Base.
From stdpp Require Import sorting.

Section buf.
Context {A : Type}.

Record bfile := BFile { logical : gmap N A; disk : gmap N A; dirtyset : gset N }.

Definition bfile_empty : bfile := BFile ∅ ∅ ∅.

Definition clean_inv (b : bfile) : Prop :=
  forall c, c ∉ dirtyset b -> disk b !! c = logical b !! c.

(** a buffered write into chunk [c] *)
Definition bwrite (b : bfile) (c : N) (a : A) : bfile :=
  BFile (<[c := a]> (logical b)) (disk b) ({[c]} ∪ dirtyset b).

(** the OS accepts the write-back of chunk [c] *)
Definition writeback (b : bfile) (c : N) : bfile :=
  BFile (logical b)
        (match logical b !! c with Some a => <[c := a]> (disk b) | None => delete c (disk b) end)
        (dirtyset b ∖ {[c]}).

(** eviction: any chunks, any time, any order *)
Definition evict (b : bfile) (cs : list N) : bfile := fold_left writeback cs b.

(** the fault oracle of one flush: which chunk writes the OS refuses, and what a refused
    (possibly partial) write leaves on disk *)
Record oracle := Oracle { refuse : N -> bool; garbage : N -> option A }.
Definition no_faults : oracle := Oracle (fun _ => false) (fun _ => None).

Fixpoint flush_chunks (o : oracle) (cs : list N) (b : bfile) : bfile * bool :=
  match cs with
  | [] => (b, true)
  | c :: cs' =>
    if refuse o c then
      (BFile (logical b)
             (match garbage o c with Some a => <[c := a]> (disk b) | None => disk b end)
             (dirtyset b), false)
    else flush_chunks o cs' (writeback b c)
  end.

Definition sorted_dirty (b : bfile) : list N := merge_sort N.le (elements (dirtyset b)).

(** [BufFile::flush] *)
Definition bflush (o : oracle) (b : bfile) : bfile * bool := flush_chunks o (sorted_dirty b) b.

(** ** the three files of a map *)
Inductive fid := FVal | FKey | FHtx.
#[global] Instance fid_eq_dec : EqDecision fid.
Proof. solve_decision. Defined.

Inductive event :=
| EWrite (f : fid)                (* a buffered write *)
| EFlushed (f : fid)              (* BufFile::flush returned Ok *)
| EOsSync (f : fid) (all : bool). (* File::sync_all (true) / File::sync_data (false) requested *)

(** [events]: newest first *)
Record dmap := DMap { fval : bfile; fkey : bfile; fhtx : bfile;
                      dflag : bool; unsynced : bool; events : list event }.

Definition dfile (d : dmap) (f : fid) : bfile :=
  match f with FVal => fval d | FKey => fkey d | FHtx => fhtx d end.
Definition set_dfile (d : dmap) (f : fid) (b : bfile) : dmap :=
  match f with
  | FVal => DMap b (fkey d) (fhtx d) (dflag d) (unsynced d) (events d)
  | FKey => DMap (fval d) b (fhtx d) (dflag d) (unsynced d) (events d)
  | FHtx => DMap (fval d) (fkey d) b (dflag d) (unsynced d) (events d)
  end.
Definition add_event (d : dmap) (e : event) : dmap :=
  DMap (fval d) (fkey d) (fhtx d) (dflag d) (unsynced d) (e :: events d).
Definition set_flags (d : dmap) (dirty uns : bool) : dmap :=
  DMap (fval d) (fkey d) (fhtx d) dirty uns (events d).

(** opening (creating or re-opening): the flag is raised; a creation then writes the headers *)
Definition dopen (v k h : bfile) : dmap := DMap v k h true false [].

(** an update (put / delete): the flag is raised first, then any buffered writes *)
Definition dwrite (d : dmap) (w : fid * N * A) : dmap :=
  let '(f, c, a) := w in add_event (set_dfile d f (bwrite (dfile d f) c a)) (EWrite f).
Definition dupdate (d : dmap) (ws : list (fid * N * A)) : dmap :=
  fold_left dwrite ws (set_flags d true (unsynced d)).

Definition devict (d : dmap) (f : fid) (cs : list N) : dmap := set_dfile d f (evict (dfile d f) cs).

(** one file of a flush / sync: [BufFile::flush] and, for a sync, the OS request *)
Definition dflush_file (o : fid -> oracle) (sync : option bool) (d : dmap) (f : fid) : dmap * bool :=
  let '(b, ok) := bflush (o f) (dfile d f) in
  let d1 := set_dfile d f b in
  if ok then
    let d2 := add_event d1 (EFlushed f) in
    (match sync with Some all => add_event d2 (EOsSync f all) | None => d2 end, true)
  else (d1, false).

(** value file, key file, table file - in that order, stopping at the first error ([?]) *)
Definition dflush_all (o : fid -> oracle) (sync : option bool) (d : dmap) : dmap * bool :=
  let '(d1, ok1) := dflush_file o sync d FVal in
  if negb ok1 then (d1, false) else
  let '(d2, ok2) := dflush_file o sync d1 FKey in
  if negb ok2 then (d2, false) else
  dflush_file o sync d2 FHtx.

(** [flush()] : if dirty { flush x3; dirty = false; unsynced = true } *)
Definition dflush (o : fid -> oracle) (d : dmap) : dmap * bool :=
  if dflag d then
    let '(d1, ok) := dflush_all o None d in
    if ok then (set_flags d1 false true, true) else (d1, false)
  else (d, true).

(** [sync_all()] / [sync_data()] : if dirty || unsynced { sync x3; dirty = false; unsynced = false } *)
Definition dsync (all : bool) (o : fid -> oracle) (d : dmap) : dmap * bool :=
  if dflag d || unsynced d then
    let '(d1, ok) := dflush_all o (Some all) d in
    if ok then (set_flags d1 false false, true) else (d1, false)
  else (d, true).

Inductive dop :=
| DUpdate (ws : list (fid * N * A))
| DEvict (f : fid) (cs : list N)
| DFlush (o : fid -> oracle)
| DSync (all : bool) (o : fid -> oracle).

Definition dstep (d : dmap) (op : dop) : dmap * bool :=
  match op with
  | DUpdate ws => (dupdate d ws, true)
  | DEvict f cs => (devict d f cs, true)
  | DFlush o => dflush o d
  | DSync all o => dsync all o d
  end.

Definition drun (d : dmap) (ops : list dop) : dmap := fold_left (fun d op => fst (dstep d op)) ops d.

(** the memory view: what every read returns *)
Definition view (d : dmap) : gmap N A * gmap N A * gmap N A :=
  (logical (fval d), logical (fkey d), logical (fhtx d)).
Definition on_disk (d : dmap) : gmap N A * gmap N A * gmap N A :=
  (disk (fval d), disk (fkey d), disk (fhtx d)).

(** the invariant D1 broke on the pinned tree: a clear flag means nothing is buffered *)
Definition dinv (d : dmap) : Prop :=
  (forall f, clean_inv (dfile d f)) /\
  (dflag d = false -> forall f, dirtyset (dfile d f) = ∅).

(** no write to [f] is newer than the newest OS sync request for [f] *)
Fixpoint synced_after_last_write (f : fid) (evs : list event) : bool :=
  match evs with
  | [] => true
  | EOsSync f' _ :: evs' => if decide (f' = f) then true else synced_after_last_write f evs'
  | EWrite f' :: evs' => if decide (f' = f) then false else synced_after_last_write f evs'
  | _ :: evs' => synced_after_last_write f evs'
  end.

Definition sync_inv (d : dmap) : Prop :=
  dflag d = false -> unsynced d = false -> forall f, synced_after_last_write f (events d) = true.

End buf.
Arguments bfile A : clear implicits.
Arguments dmap A : clear implicits.
Arguments oracle A : clear implicits.
Arguments dop A : clear implicits.
