(** * Load_htx_proofs: the table-file reader [Load.ld_htx] inverts [Layout.render_htx], and the
    side condition [Load.htx_wf] of that round trip is an invariant of every operation.

    - [ld_htx_render]   : [ld_htx (render_htx sig2 h) = h] for every well-formed table whose
                          numbers fit 64 bits (every field is recovered exactly);
    - [htx_wf_create], [htx_wf_write_head], [htx_wf_count_up], [htx_wf_count_down],
      [htx_wf_put], [htx_wf_del], [htx_wf_run], [htx_wf_reachable] : [htx_wf] is preserved;
    - [heads_fit]       : the bucket heads of a state with the invariant are offsets of key
                          records, hence below the end of the key file. *)
From Coq Require Import Lia ZifyN ZifyNat ZifyBool.
From Aby Require Import Base Vu64 Vu64_proofs Hash KeyTypes Consts Sizing Alloc AllocInv AllocInv_proofs
  Htx Htx_proofs Store Spec Layout Load Refine Open_proofs Refine_all.

(** ** 1. Byte-level helpers *)

Lemma at_off_app (a b : bytes) : at_off (a ++ b) (blen a) = b.
Proof.
  unfold at_off, blen. rewrite Nat2N.id. apply drop_app_alt. reflexivity.
Qed.

Lemma at_off_app' (a b : bytes) off : blen a = off -> at_off (a ++ b) off = b.
Proof. intros <-. apply at_off_app. Qed.

Lemma pow256_8 : 256 ^ N.of_nat 8 = 2 ^ 64.
Proof. reflexivity. Qed.

Lemma rd_u64_le_bytes v rest : v < 2 ^ 64 -> rd_u64 (le_bytes 8 v ++ rest) = v.
Proof.
  intros Hv. unfold rd_u64. apply le_decode_take_app. rewrite pow256_8. exact Hv.
Qed.

Lemma zeros_length n : length (zeros n) = N.to_nat n.
Proof. unfold zeros. apply repeat_length. Qed.

(** [seqN'] *)
Lemma seqN'_length s n : length (seqN' s n) = n.
Proof. unfold seqN'. rewrite map_length. apply seq_length. Qed.

Lemma in_seqN' s n i : In i (seqN' s n) <-> s <= i < s + N.of_nat n.
Proof.
  unfold seqN'. rewrite in_map_iff. split.
  - intros (k & <- & Hk). apply in_seq in Hk. lia.
  - intros Hi. exists (N.to_nat (i - s)). split; [lia|]. apply in_seq. lia.
Qed.

Lemma seq_add a m : seq a m = map (Nat.add a) (seq 0 m).
Proof.
  revert a. induction m as [|m IH]; intros a; cbn [seq map]; [reflexivity|].
  f_equal; [lia|]. rewrite (IH (S a)), (IH 1%nat), map_map. apply map_ext. intros x. lia.
Qed.

Lemma seqN'_split s n k : (k < n)%nat ->
  seqN' s n = seqN' s k ++ (s + N.of_nat k) :: seqN' (s + N.of_nat k + 1) (n - k - 1).
Proof.
  intros Hk. unfold seqN'.
  replace n with (k + S (n - k - 1))%nat at 1 by lia.
  rewrite seq_app, map_app, Nat.add_0_l. f_equal. cbn [seq map]. f_equal.
  rewrite (seq_add (S k)), map_map. apply map_ext. intros a. lia.
Qed.

Lemma nth_map_seqN' {A} (f : N -> A) n j d : (j < n)%nat -> nth j (map f (seqN' 0 n)) d = f (N.of_nat j).
Proof.
  intros Hj. rewrite (nth_indep _ d (f 0)) by (rewrite map_length, seqN'_length; exact Hj).
  rewrite map_nth. f_equal. unfold seqN'.
  rewrite (nth_indep _ 0 (0 + N.of_nat 0)) by (rewrite map_length, seq_length; exact Hj).
  rewrite (map_nth (fun i => 0 + N.of_nat i)). rewrite seq_nth by exact Hj. lia.
Qed.

(** the array of bucket heads *)
Lemma heads_length (f : N -> N) l : length (concat (map (fun i => le_bytes 8 (f i)) l)) = (8 * length l)%nat.
Proof.
  induction l as [|a l IH]; [reflexivity|].
  cbn [map concat length]. rewrite app_length, le_bytes_length, IH. lia.
Qed.

Lemma heads_at (f : N -> N) n i pre rest : i < N.of_nat n ->
  at_off (pre ++ concat (map (fun i => le_bytes 8 (f i)) (seqN' 0 n)) ++ rest) (blen pre + 8 * i) =
  le_bytes 8 (f i) ++
    concat (map (fun i => le_bytes 8 (f i)) (seqN' (i + 1) (n - N.to_nat i - 1))) ++ rest.
Proof.
  intros Hi. rewrite (seqN'_split 0 n (N.to_nat i)) by lia.
  rewrite map_app, concat_app. cbn [map concat].
  replace (0 + N.of_nat (N.to_nat i)) with i by lia.
  rewrite <- !app_assoc, app_assoc.
  apply at_off_app'. unfold blen. rewrite app_length, heads_length, seqN'_length. lia.
Qed.

(** ** 2. The bits of a bitmap byte *)

Lemma bits8 (c0 c1 c2 c3 c4 c5 c6 c7 : bool) t : t < 8 ->
  N.testbit ((if c0 then 2 ^ 0 else 0) + ((if c1 then 2 ^ 1 else 0) + ((if c2 then 2 ^ 2 else 0) +
            ((if c3 then 2 ^ 3 else 0) + ((if c4 then 2 ^ 4 else 0) + ((if c5 then 2 ^ 5 else 0) +
            ((if c6 then 2 ^ 6 else 0) + ((if c7 then 2 ^ 7 else 0) + 0)))))))) t =
  nth (N.to_nat t) [c0; c1; c2; c3; c4; c5; c6; c7] false.
Proof.
  intros Ht.
  assert (t = 0 \/ t = 1 \/ t = 2 \/ t = 3 \/ t = 4 \/ t = 5 \/ t = 6 \/ t = 7) as Hc by lia.
  destruct c0, c1, c2, c3, c4, c5, c6, c7;
    destruct Hc as [-> | [-> | [-> | [-> | [-> | [-> | [-> | ->]]]]]]]; reflexivity.
Qed.

Lemma testbit_bitmap_byte h j t : t < 8 ->
  N.testbit (bitmap_byte h j) t = bool_decide (8 * j + t ∈ bitmap h).
Proof.
  intros Ht. unfold bitmap_byte.
  change (seqN' 0 8) with [0; 1; 2; 3; 4; 5; 6; 7]. cbn [fold_right].
  rewrite bits8 by exact Ht.
  assert (t = 0 \/ t = 1 \/ t = 2 \/ t = 3 \/ t = 4 \/ t = 5 \/ t = 6 \/ t = 7) as Hc by lia.
  destruct Hc as [-> | [-> | [-> | [-> | [-> | [-> | [-> | ->]]]]]]]; reflexivity.
Qed.

Lemma bitmap_byte_lt h j : bitmap_byte h j < 256.
Proof.
  unfold bitmap_byte. change (seqN' 0 8) with [0; 1; 2; 3; 4; 5; 6; 7]. cbn [fold_right].
  repeat match goal with |- context [bool_decide ?P] => generalize (bool_decide P); intro end.
  repeat match goal with b : bool |- _ => destruct b end; reflexivity.
Qed.

(** ** 3. The rendered table file *)

Section image.
Context (sig2 : bytes) (h : htx).
Hypothesis Hsig : length sig2 = 8%nat.

Let heads := concat (map (fun i => le_bytes 8 (head_at h i)) (seqN' 0 (N.to_nat (nb h)))).
Let bm := map (bitmap_byte h) (seqN' 0 (N.to_nat (hend h - (htx_header_size + 8 * nb h)))).
Let hdr := htx_signature ++ sig2 ++ le_bytes 8 (nb h) ++ le_bytes 8 (count h) ++ zeros (htx_header_size - 32).

Lemma render_htx_split : render_htx sig2 h = hdr ++ heads ++ bm.
Proof. unfold render_htx, hdr, heads, bm. rewrite <- !app_assoc. reflexivity. Qed.

Lemma hdr_blen : blen hdr = htx_header_size.
Proof.
  unfold hdr, blen. rewrite !app_length, !le_bytes_length, zeros_length, Hsig. reflexivity.
Qed.

Lemma render_htx_blen : htx_header_size + 8 * nb h <= hend h -> blen (render_htx sig2 h) = hend h.
Proof.
  intros Hle. rewrite render_htx_split. unfold blen. rewrite !app_length.
  pose proof hdr_blen as Hh. unfold blen in Hh.
  unfold heads, bm. rewrite heads_length, map_length, !seqN'_length. lia.
Qed.

Lemma render_htx_nb : nb h < 2 ^ 64 -> rd_u64 (at_off (render_htx sig2 h) htx_size_offset) = nb h.
Proof.
  intros Hn. unfold render_htx. rewrite (app_assoc htx_signature sig2).
  rewrite at_off_app' by (unfold blen; rewrite app_length, Hsig; reflexivity).
  apply rd_u64_le_bytes. exact Hn.
Qed.

Lemma render_htx_count : count h < 2 ^ 64 -> rd_u64 (at_off (render_htx sig2 h) htx_count_offset) = count h.
Proof.
  intros Hn. unfold render_htx.
  rewrite (app_assoc sig2), (app_assoc htx_signature).
  rewrite at_off_app' by (unfold blen; rewrite !app_length, le_bytes_length, Hsig; reflexivity).
  apply rd_u64_le_bytes. exact Hn.
Qed.

Lemma render_htx_head i : i < nb h -> head_at h i < 2 ^ 64 ->
  rd_u64 (at_off (render_htx sig2 h) (htx_header_size + 8 * i)) = head_at h i.
Proof.
  intros Hi Hv. rewrite render_htx_split. rewrite <- hdr_blen. unfold heads.
  rewrite (heads_at (head_at h)) by lia.
  apply rd_u64_le_bytes. exact Hv.
Qed.

Lemma render_htx_bm_byte j : htx_header_size + 8 * nb h + j < hend h ->
  nth (N.to_nat (htx_header_size + 8 * nb h + j)) (render_htx sig2 h) 0 = bitmap_byte h j.
Proof.
  intros Hj. rewrite render_htx_split, app_assoc.
  pose proof hdr_blen as Hh. unfold blen in Hh.
  assert (length (hdr ++ heads) = N.to_nat (htx_header_size + 8 * nb h)) as Hl.
  { rewrite app_length. unfold heads. rewrite heads_length, seqN'_length. lia. }
  rewrite app_nth2 by lia. rewrite Hl. unfold bm.
  replace (N.to_nat (htx_header_size + 8 * nb h + j) - N.to_nat (htx_header_size + 8 * nb h))%nat
    with (N.to_nat j) by lia.
  rewrite nth_map_seqN' by lia. f_equal. lia.
Qed.

End image.

(** ** 4. The round trip *)

Theorem ld_htx_render sig2 h : length sig2 = 8%nat -> htx_wf h -> bitmap_ok h -> 1 <= nb h ->
  nb h < 2 ^ 64 -> count h < 2 ^ 64 -> hend h < 2 ^ 64 ->
  (forall i v, buckets h !! i = Some v -> v < 2 ^ 64) ->
  ld_htx (render_htx sig2 h) = h.
Proof.
  intros Hsig (Hb & Hend & Hbits) _ _ Hnb Hcnt _ Hheads.
  assert (Hhd : forall i, head_at h i < 2 ^ 64).
  { intros i. unfold head_at. destruct (buckets h !! i) as [v|] eqn:E; cbn [default].
    - exact (Hheads i v E).
    - reflexivity. }
  assert (Hlen : blen (render_htx sig2 h) = hend h) by (apply render_htx_blen; [exact Hsig | lia]).
  unfold ld_htx.
  rewrite (render_htx_nb sig2 h Hsig Hnb), (render_htx_count sig2 h Hsig Hcnt), Hlen.
  cbv zeta.
  replace (length (render_htx sig2 h)) with (N.to_nat (hend h)) by (unfold blen in Hlen; lia).
  match goal with |- Htx _ ?B ?M _ _ = _ =>
    assert (HB : B = buckets h); [| assert (HM : M = bitmap h);
      [| rewrite HB, HM; destruct h; reflexivity]] end.
  - (* the bucket map *)
    apply map_eq. intros i.
    match goal with |- list_to_map ?L !! i = _ => set (l := L) end.
    assert (Hl : forall j x, (j, x) ∈ l <-> j < nb h /\ x <> 0 /\ x = head_at h j).
    { intros j x. unfold l. rewrite elem_of_list_filter, elem_of_list_In, in_map_iff. cbn [snd]. split.
      - intros (Hx & k & Hk & Hin). apply in_seqN' in Hin.
        assert (k < nb h) as Hkn by lia.
        rewrite (render_htx_head sig2 h Hsig k Hkn (Hhd k)) in Hk.
        injection Hk as <- <-. split; [exact Hkn|]. split; [|reflexivity].
        intros Hz. rewrite Hz in Hx. exact Hx.
      - intros (Hj & Hx & ->). split.
        + apply negb_prop_intro. intros Hz. apply Is_true_eq_true in Hz. apply N.eqb_eq in Hz. exact (Hx Hz).
        + exists j. split.
          * rewrite (render_htx_head sig2 h Hsig j Hj (Hhd j)). reflexivity.
          * apply in_seqN'. lia. }
    destruct (list_to_map l !! i) as [w|] eqn:E.
    + apply elem_of_list_to_map_2 in E. apply Hl in E as (Hi & Hw & ->).
      unfold head_at in *. destruct (buckets h !! i) as [v|]; [reflexivity|].
      exfalso. apply Hw. reflexivity.
    + apply not_elem_of_list_to_map_2 in E.
      destruct (buckets h !! i) as [v|] eqn:Ev; [|reflexivity].
      exfalso. apply E. apply elem_of_list_fmap. exists (i, v). split; [reflexivity|].
      apply Hl. destruct (Hb i v Ev) as [Hv Hi]. split; [exact Hi|]. split; [exact Hv|].
      unfold head_at. rewrite Ev. reflexivity.
  - (* the occupancy bitmap *)
    apply set_eq. intros i.
    rewrite elem_of_list_to_set, elem_of_list_filter, elem_of_list_In, in_seqN'.
    unfold bit_set.
    pose proof (N.div_mod i 8 ltac:(discriminate)) as Hdm.
    pose proof (N.mod_lt i 8 ltac:(discriminate)) as Hm.
    split.
    + intros (Hbit & Hi).
      assert (htx_header_size + 8 * nb h + i / 8 < hend h) as Hj.
      { assert (i / 8 < hend h - (htx_header_size + 8 * nb h)); [|lia].
        apply N.div_lt_upper_bound; [discriminate|]. lia. }
      rewrite (render_htx_bm_byte sig2 h Hsig (i / 8) Hj) in Hbit.
      rewrite testbit_bitmap_byte in Hbit by exact Hm.
      apply Is_true_eq_true in Hbit. apply bool_decide_eq_true in Hbit.
      rewrite <- Hdm in Hbit. exact Hbit.
    + intros Hi. pose proof (Hbits i Hi) as Hj. split.
      * rewrite (render_htx_bm_byte sig2 h Hsig (i / 8) Hj).
        rewrite testbit_bitmap_byte by exact Hm.
        apply Is_true_eq_left. apply bool_decide_eq_true. rewrite <- Hdm. exact Hi.
      * assert (i / 8 < hend h - (htx_header_size + 8 * nb h)) as Hd by lia.
        assert (i < 8 * (hend h - (htx_header_size + 8 * nb h))); [|lia].
        rewrite Hdm at 1. lia.
Qed.

(** ** 5. [htx_wf] is an invariant *)

Lemma htx_wf_create n : 1 <= n -> htx_wf (htx_create n).
Proof.
  intros _. unfold htx_wf, htx_create. cbn [buckets nb hend bitmap].
  split; [|split].
  - intros i v Hl. rewrite lookup_empty in Hl. discriminate.
  - lia.
  - intros i Hi. apply elem_of_empty in Hi. destruct Hi.
Qed.

Lemma htx_wf_write_head h i off : htx_wf h -> i < nb h -> htx_wf (write_head h i off).
Proof.
  intros (Hb & Hend & Hbits) Hi. unfold htx_wf, write_head. cbn [buckets nb hend bitmap].
  split; [|split].
  - intros j v Hl. destruct (N.eqb_spec off 0) as [Hz | Hnz].
    + apply lookup_delete_Some in Hl as [_ Hl]. exact (Hb j v Hl).
    + apply lookup_insert_Some in Hl as [[<- <-] | [_ Hl]]; [split; assumption | exact (Hb j v Hl)].
  - lia.
  - intros j Hj. destruct (N.eqb_spec off 0) as [Hz | Hnz].
    + apply elem_of_difference in Hj as [Hj _]. pose proof (Hbits j Hj). lia.
    + apply elem_of_union in Hj as [Hj | Hj].
      * apply elem_of_singleton in Hj as ->. lia.
      * pose proof (Hbits j Hj). lia.
Qed.

Lemma htx_wf_count_up h : htx_wf h -> htx_wf (count_up h).
Proof. intros H. exact H. Qed.

Lemma htx_wf_count_down h : htx_wf h -> htx_wf (count_down h).
Proof. intros H. exact H. Qed.

Lemma bucket_lt s k : 1 <= nb (hx s) -> bucket s k < nb (hx s).
Proof. intros Hn. unfold bucket, bucket_of. apply N.mod_lt. lia. Qed.

(** "well-formed with the same number of buckets" *)
Definition wf_same (h h' : htx) : Prop := htx_wf h' /\ nb h' = nb h.

Lemma wf_same_write_head h i off : htx_wf h -> i < nb h -> wf_same h (write_head h i off).
Proof. intros Hw Hi. split; [now apply htx_wf_write_head | apply write_head_nb]. Qed.

Lemma htx_wf_relink fuel s b prev newoff s' :
  relink fuel s b prev newoff = Ok s' -> htx_wf (hx s) -> b < nb (hx s) ->
  htx_wf (hx s') /\ nb (hx s') = nb (hx s).
Proof.
  revert s prev newoff. induction fuel as [|f IH]; intros s prev newoff Hr Hw Hb; [discriminate|].
  cbn [relink] in Hr. destruct (prev =? 0) eqn:Ep.
  - injection Hr as <-. cbn [set_hx hx]. now apply wf_same_write_head.
  - destruct (read_krec s prev) as [r| | |] eqn:Er; cbn [rbind] in Hr; try discriminate.
    destruct (write_piece key_cfg _ (keyf s) (Some prev) _) as [[[kf poff] x]| | |] eqn:Ew;
      cbn [rbind] in Hr; try discriminate.
    destruct (poff =? prev) eqn:Eq.
    + injection Hr as <-. cbn [set_keyf hx]. split; [exact Hw | reflexivity].
    + destruct (find_prev _ _ prev 0 _) as [pp| | |] eqn:Ef; cbn [rbind] in Hr; try discriminate.
      apply IH in Hr; cbn [set_keyf hx] in *; assumption.
Qed.

Lemma htx_wf_put_same s k v s' : 1 <= nb (hx s) -> htx_wf (hx s) -> put s k v = Ok s' ->
  htx_wf (hx s') /\ nb (hx s') = nb (hx s).
Proof.
  intros Hn Hw Hp. unfold put in Hp.
  pose proof (bucket_lt (touch s) k Hn) as Hbk.
  destruct (find (touch s) k) as [o| | |] eqn:Ef; cbn [rbind] in Hp; try discriminate.
  destruct o as [[koff prev]|].
  - destruct (read_krec (touch s) koff) as [r| | |] eqn:Er; cbn [rbind] in Hp; try discriminate.
    destruct (read_val (touch s) (k_voff r)) as [v0| | |] eqn:Ev; cbn [rbind] in Hp; try discriminate.
    destruct (write_piece val_cfg _ (valf (touch s)) _ v) as [[[vf voff] x]| | |] eqn:Ew;
      cbn [rbind] in Hp; try discriminate.
    destruct (voff =? k_voff r) eqn:E1.
    + injection Hp as <-. cbn [set_valf touch hx]. split; [exact Hw | reflexivity].
    + destruct (write_piece key_cfg _ _ (Some koff) _) as [[[kf koff'] y]| | |] eqn:Ew2;
        cbn [rbind] in Hp; try discriminate.
      destruct (koff' =? koff) eqn:E2.
      * injection Hp as <-. cbn [set_keyf set_valf touch hx]. split; [exact Hw | reflexivity].
      * apply htx_wf_relink in Hp; cbn [set_keyf set_valf touch hx] in *; assumption.
  - destruct (write_piece val_cfg _ (valf (touch s)) None v) as [[[vf voff] x]| | |] eqn:Ew;
      cbn [rbind] in Hp; try discriminate.
    destruct (write_piece key_cfg _ (keyf (touch s)) None _) as [[[kf koff] y]| | |] eqn:Ew2;
      cbn [rbind] in Hp; try discriminate.
    injection Hp as <-. cbn [hx touch] in *.
    split.
    + apply htx_wf_count_up. now apply htx_wf_write_head.
    + cbn [count_up nb]. apply write_head_nb.
Qed.

Theorem htx_wf_put s k v s' : 1 <= nb (hx s) -> htx_wf (hx s) -> put s k v = Ok s' -> htx_wf (hx s').
Proof. intros Hn Hw Hp. exact (proj1 (htx_wf_put_same s k v s' Hn Hw Hp)). Qed.

Lemma htx_wf_del_same s k s' r : 1 <= nb (hx s) -> htx_wf (hx s) -> del s k = Ok (s', r) ->
  htx_wf (hx s') /\ nb (hx s') = nb (hx s).
Proof.
  intros Hn Hw Hd. unfold del in Hd.
  pose proof (bucket_lt (touch s) k Hn) as Hbk.
  destruct (find (touch s) k) as [o| | |] eqn:Ef; cbn [rbind] in Hd; try discriminate.
  destruct o as [[koff prev]|].
  2:{ injection Hd as <- <-. cbn [touch hx]. split; [exact Hw | reflexivity]. }
  destruct (read_krec (touch s) koff) as [rk| | |] eqn:Er; cbn [rbind] in Hd; try discriminate.
  destruct (read_val (touch s) (k_voff rk)) as [v0| | |] eqn:Ev; cbn [rbind] in Hd; try discriminate.
  match type of Hd with rbind ?M _ = _ => destruct M as [s1| | |] eqn:E1 end;
    cbn [rbind] in Hd; try discriminate.
  assert (H1 : htx_wf (hx s1) /\ nb (hx s1) = nb (hx s)).
  { clear Hd. destruct (prev =? 0) eqn:Ep.
    - injection E1 as <-. cbn [set_hx touch hx] in *. now apply wf_same_write_head.
    - destruct (read_krec (touch s) prev) as [pr| | |] eqn:Er2; cbn [rbind] in E1; try discriminate.
      destruct (write_piece key_cfg _ (keyf (touch s)) (Some prev) _) as [[[kf poff] x]| | |] eqn:Ew;
        cbn [rbind] in E1; try discriminate.
      destruct (poff =? prev) eqn:Eq.
      + injection E1 as <-. cbn [set_keyf touch hx]. split; [exact Hw | reflexivity].
      + destruct (find_prev _ _ prev 0 _) as [pp| | |] eqn:Efp; cbn [rbind] in E1; try discriminate.
        apply htx_wf_relink in E1; cbn [set_keyf touch hx] in *; assumption. }
  destruct (delete_piece val_cfg (valf s1) (k_voff rk)) as [vf| | |] eqn:Ed1; cbn [rbind] in Hd; try discriminate.
  destruct (delete_piece key_cfg (keyf s1) koff) as [kf| | |] eqn:Ed2; cbn [rbind] in Hd; try discriminate.
  injection Hd as <- <-. cbn [hx]. destruct H1 as [H1 H2].
  split; [now apply htx_wf_count_down | exact H2].
Qed.

Theorem htx_wf_del s k s' r : 1 <= nb (hx s) -> htx_wf (hx s) -> del s k = Ok (s', r) -> htx_wf (hx s').
Proof. intros Hn Hw Hd. exact (proj1 (htx_wf_del_same s k s' r Hn Hw Hd)). Qed.

Lemma htx_wf_step s o s' out : 1 <= nb (hx s) -> htx_wf (hx s) -> store_step s o = Ok (s', out) ->
  htx_wf (hx s') /\ nb (hx s') = nb (hx s).
Proof.
  intros Hn Hw Hs. destruct o as [k v | k | k | k | |]; cbn [store_step] in Hs.
  - destruct (put s k v) as [s1| | |] eqn:E; cbn [rbind] in Hs; try discriminate.
    injection Hs as <- <-. exact (htx_wf_put_same s k v s1 Hn Hw E).
  - destruct (get s k) as [r| | |] eqn:E; cbn [rbind] in Hs; try discriminate.
    injection Hs as <- <-. split; [exact Hw | reflexivity].
  - destruct (del s k) as [[s1 r]| | |] eqn:E; cbn [rbind] in Hs; try discriminate.
    injection Hs as <- <-. exact (htx_wf_del_same s k s1 r Hn Hw E).
  - destruct (has s k) as [r| | |] eqn:E; cbn [rbind] in Hs; try discriminate.
    injection Hs as <- <-. split; [exact Hw | reflexivity].
  - injection Hs as <- <-. split; [exact Hw | reflexivity].
  - injection Hs as <- <-. split; [exact Hw | reflexivity].
Qed.

Theorem htx_wf_run s ops s' outs : 1 <= nb (hx s) -> htx_wf (hx s) -> store_run s ops = Ok (s', outs) ->
  htx_wf (hx s') /\ nb (hx s') = nb (hx s).
Proof.
  revert s outs. induction ops as [|o ops IH]; intros s outs Hn Hw Hr; cbn [store_run] in Hr.
  - injection Hr as <- <-. split; [exact Hw | reflexivity].
  - destruct (store_step s o) as [[s1 r]| | |] eqn:E1; cbn [rbind] in Hr; try discriminate.
    destruct (store_run s1 ops) as [[s2 rs]| | |] eqn:E2; cbn [rbind] in Hr; try discriminate.
    injection Hr as <- <-.
    destruct (htx_wf_step s o s1 r Hn Hw E1) as [Hw1 Hn1].
    destruct (IH s1 rs) as [Hw2 Hn2]; [rewrite Hn1; exact Hn | exact Hw1 | exact E2 |].
    split; [exact Hw2 | rewrite Hn2; exact Hn1].
Qed.

Corollary htx_wf_reachable t n ops s' outs : 1 <= n -> store_run (create t n) ops = Ok (s', outs) -> htx_wf (hx s').
Proof.
  intros Hn Hr.
  apply (htx_wf_run (create t n) ops s' outs) in Hr; [exact (proj1 Hr) | exact Hn |].
  cbn [create hx]. now apply htx_wf_create.
Qed.

(** ** 6. The bucket heads fit 64 bits when the key file does *)

Lemma seg_first kh v l x : seg kh v l x -> v <> x -> exists r, kh !! v = Some r.
Proof. intros Hs Hne. destruct Hs as [h | off r l x Hoff Hk Hseg]; [congruence | eauto]. Qed.

Lemma heads_lt_fend s : Inv s -> htx_wf (hx s) ->
  forall i v, buckets (hx s) !! i = Some v -> v < fend (keyf s).
Proof.
  intros (ch & Hc & Hl) (Hb & _ & _) i v Hv.
  destruct (Hb i v Hv) as [Hnz Hi].
  assert (Hh : head_at (hx s) i = v) by (unfold head_at; rewrite Hv; reflexivity).
  pose proof (Hl i Hi) as Hch. unfold links_ok, chain in Hch. rewrite Hh in Hch.
  destruct (seg_first _ _ _ _ Hch Hnz) as [r Hk].
  destruct (Kfacts (keyf s) (co_k _ _ _ Hc)) as (_ & Hf & _).
  apply (Hf v r Hk).
Qed.

Lemma heads_fit s : Inv s -> htx_wf (hx s) -> fend (keyf s) < 2 ^ 64 ->
  forall i v, buckets (hx s) !! i = Some v -> v < 2 ^ 64.
Proof.
  intros HI Hw Hf i v Hv. pose proof (heads_lt_fend s HI Hw i v Hv). lia.
Qed.

(** ** 7. The round trip for the table of a state with the invariant *)

Corollary ld_htx_render_inv s : Inv s -> htx_wf (hx s) -> fits64 s ->
  ld_htx (render_htx (sig_of (kt s)) (hx s)) = hx s.
Proof.
  intros HI Hw (Hn & Hc & He & Hk & _). pose proof HI as (ch & Hcore & _).
  apply ld_htx_render; try assumption.
  - apply sig_of_length.
  - exact (co_bm _ _ _ Hcore).
  - exact (co_n _ _ _ Hcore).
  - exact (heads_fit s HI Hw Hk).
Qed.

(** every state reachable from [create] by well-formed operations *)
Corollary ld_htx_render_reachable t n ops s' outs : 1 <= n -> Forall (op_wf t) ops ->
  store_run (create t n) ops = Ok (s', outs) -> fits64 s' ->
  ld_htx (render_htx (sig_of (kt s')) (hx s')) = hx s'.
Proof.
  intros Hn Hops Hr Hf.
  destruct (run_from_create t n ops Hn Hops) as (s2 & Hr2 & HI & _).
  rewrite Hr in Hr2. injection Hr2 as <- _.
  apply ld_htx_render_inv; [exact HI | exact (htx_wf_reachable t n ops s' outs Hn Hr) | exact Hf].
Qed.

(** ** 8. Non-vacuity: a concrete table with collisions, a deleted entry and a rewritten one *)

Definition ex_ops : list dop :=
  [Put [1] [10]; Put [2] [20; 21]; Put [3] []; Put [4; 4] [40]; Put [5] [50]; Put [6] [60];
   Del [2]; Put [1] (repeat 7 40); Put [9; 9; 9] [90]].

Definition ex_st : store :=
  match store_run (create KBytes 4) ex_ops with Ok (s, _) => s | _ => create KBytes 1 end.
Definition ex_hx : htx := hx ex_st.

Example ex_run_ok : is_ok (store_run (create KBytes 4) ex_ops) = true.
Proof. vm_compute. reflexivity. Qed.

Example ex_st_run : exists outs, store_run (create KBytes 4) ex_ops = Ok (ex_st, outs).
Proof.
  pose proof ex_run_ok as Hok. unfold ex_st.
  destruct (store_run (create KBytes 4) ex_ops) as [[s outs]| | |]; try discriminate Hok.
  exists outs. reflexivity.
Qed.

Example ex_ops_wf : Forall (op_wf KBytes) ex_ops.
Proof. repeat constructor; try (intros ?; discriminate); vm_compute; reflexivity. Qed.

(** field by field, by computation (records and [gmap]s have no boolean equality to compute
    with): the reader recovers the table of the final state, which has two colliding keys,
    an emptied bucket slot and a re-written record *)
Example ld_htx_render_fields :
  let h' := ld_htx (render_htx (sig_of KBytes) ex_hx) in
  nb h' = nb ex_hx /\ count h' = count ex_hx /\ hend h' = hend ex_hx /\
  map_to_list (buckets h') = map_to_list (buckets ex_hx) /\
  elements (bitmap h') = elements (bitmap ex_hx) /\
  nb ex_hx = 4 /\ count ex_hx = 6 /\ length (map_to_list (buckets ex_hx)) = 3%nat /\
  elements (bitmap ex_hx) = [0; 1; 3] /\ htx_header_size + 8 * nb ex_hx + nb ex_hx / 8 < hend ex_hx.
Proof. vm_compute. repeat split; reflexivity. Qed.

(** a reachable state has the invariant and a well-formed table *)
Lemma reachable_inv_wf t n ops s outs : 1 <= n -> Forall (op_wf t) ops ->
  store_run (create t n) ops = Ok (s, outs) -> Inv s /\ htx_wf (hx s).
Proof.
  intros Hn Hops Hr.
  destruct (run_from_create t n ops Hn Hops) as (s2 & Hr2 & HI & _).
  rewrite Hr in Hr2. injection Hr2 as <- _.
  split; [exact HI | exact (htx_wf_reachable t n ops s outs Hn Hr)].
Qed.

(** the hypotheses of [ld_htx_render] hold for the example table: the theorem applies *)
Example ld_htx_render_hyps :
  length (sig_of KBytes) = 8%nat /\ htx_wf ex_hx /\ bitmap_ok ex_hx /\ 1 <= nb ex_hx /\
  nb ex_hx < 2 ^ 64 /\ count ex_hx < 2 ^ 64 /\ hend ex_hx < 2 ^ 64 /\
  (forall i v, buckets ex_hx !! i = Some v -> v < 2 ^ 64).
Proof.
  destruct ex_st_run as [outs Hr].
  destruct (reachable_inv_wf KBytes 4 ex_ops ex_st outs ltac:(discriminate) ex_ops_wf Hr) as [HI Hw].
  pose proof HI as (ch & Hcore & _).
  split; [reflexivity|]. split; [exact Hw|]. split; [exact (co_bm _ _ _ Hcore)|].
  split; [exact (co_n _ _ _ Hcore)|].
  split; [vm_compute; reflexivity|]. split; [vm_compute; reflexivity|]. split; [vm_compute; reflexivity|].
  apply (heads_fit ex_st HI Hw). vm_compute. reflexivity.
Qed.

Example ld_htx_render_ex : ld_htx (render_htx (sig_of KBytes) ex_hx) = ex_hx.
Proof.
  destruct ld_htx_render_hyps as (H1 & H2 & H3 & H4 & H5 & H6 & H7 & H8).
  now apply ld_htx_render.
Qed.

(** [htx_wf] is not implied by the rest: the reader cannot return a non-canonical bucket map
    (an explicit zero head), so the round trip fails for such a table *)
Example ld_htx_render_needs_wf :
  let h := Htx 1 {[0 := 0]} ∅ 0 (htx_header_size + 8 + 1) in
  bitmap_ok h /\ ~ htx_wf h /\
  map_to_list (buckets (ld_htx (render_htx (sig_of KBytes) h))) <> map_to_list (buckets h).
Proof.
  cbv zeta. split; [|split].
  - intros i. cbn [bitmap nb]. split.
    + intros Hi. apply elem_of_empty in Hi. destruct Hi.
    + intros [Hi Hh]. assert (i = 0) as -> by lia. exfalso. apply Hh. vm_compute. reflexivity.
  - intros (Hb & _). destruct (Hb 0 0) as [Hz _]; [vm_compute; reflexivity | congruence].
  - vm_compute. discriminate.
Qed.

Print Assumptions ld_htx_render.
Print Assumptions htx_wf_run.
Print Assumptions heads_fit.
Print Assumptions htx_wf_reachable.
Print Assumptions ld_htx_render_reachable.
