(** * Bulk_proofs: bulk_get / bulk_delete / bulk_put / put_from_iter against the ideal map.

    The batch is processed in the order an arbitrary [sorter] produces (any permutation of the
    index-tagged batch) and the results are put back in input order by [restore].  The theorems
    say that the caller cannot observe the sorting:
    - [bulk_get]: position [i] of the result is what [get] of the [i]-th key returns;
    - [bulk_delete] (distinct keys): position [i] is what a single [del] of the [i]-th key on the
      original map returns, the final map is the original minus the batch;
    - [bulk_put] (distinct keys): the final map is what the individual puts in input order leave;
    - [put_from_iter]: the puts in input order (repeats allowed, later wins).
    At the end the section is instantiated with the executable sorters of Bulk.v. *)
From Coq Require Import Sorting.Sorted.
From Aby Require Import Base Vu64 Hash KeyTypes Consts Sizing Alloc Htx Store Spec Refine Refine_all Bulk.

(** ** Insertion sort is a permutation *)

Lemma insert_by_perm {A} (lt : A -> A -> bool) (x : A) (l : list A) :
  Permutation (insert_by lt x l) (x :: l).
Proof.
  induction l as [|y l IH]; cbn [insert_by]; [reflexivity|].
  destruct (lt x y); [reflexivity|].
  rewrite IH. apply perm_swap.
Qed.

Lemma isort_perm {A} (lt : A -> A -> bool) (l : list A) : Permutation (isort lt l) l.
Proof.
  unfold isort. induction l as [|x l IH]; cbn [fold_right]; [reflexivity|].
  rewrite insert_by_perm. apply perm_skip. exact IH.
Qed.

(** ** Sorting by the index *)

Definition le1 {A} (a b : nat * A) : Prop := (a.1 <= b.1)%nat.
Definition lt1 {A} (a b : nat * A) : Prop := (a.1 < b.1)%nat.
Definition ltb1 {A} (a b : nat * A) : bool := Nat.ltb (fst a) (fst b).

Lemma Forall_perm' {A} (P : A -> Prop) (l l' : list A) :
  Permutation l' l -> Forall P l -> Forall P l'.
Proof.
  intros HP HF. rewrite Forall_forall in HF. rewrite Forall_forall.
  intros x Hx. apply HF. rewrite <- HP. exact Hx.
Qed.

Lemma NoDup_perm' {A} (l l' : list A) : Permutation l' l -> NoDup l -> NoDup l'.
Proof. intros HP HN. rewrite HP. exact HN. Qed.

Lemma insert_by_sorted {A} (x : nat * A) (l : list (nat * A)) :
  StronglySorted le1 l -> StronglySorted le1 (insert_by ltb1 x l).
Proof.
  induction l as [|y l IH]; intros HS; cbn [insert_by].
  - constructor; constructor.
  - apply StronglySorted_inv in HS as [HS HF].
    unfold ltb1 at 1. destruct (Nat.ltb_spec (fst x) (fst y)) as [Hlt | Hge].
    + constructor.
      * constructor; assumption.
      * constructor; [unfold le1; cbn; lia|].
        eapply Forall_impl; [exact HF|]. intros z Hz. unfold le1 in *. cbn in *. lia.
    + constructor.
      * apply IH. exact HS.
      * eapply Forall_perm'; [apply insert_by_perm|].
        constructor; [unfold le1; cbn; lia | exact HF].
Qed.

Lemma isort_sorted {A} (l : list (nat * A)) : StronglySorted le1 (isort ltb1 l).
Proof.
  unfold isort. induction l as [|x l IH]; cbn [fold_right]; [constructor|].
  apply insert_by_sorted. exact IH.
Qed.

(** a list sorted by index and a permutation of it that is strictly sorted are equal *)
Lemma sorted_unique {A} (l1 l2 : list (nat * A)) :
  StronglySorted le1 l1 -> StronglySorted lt1 l2 -> Permutation l1 l2 -> l1 = l2.
Proof.
  revert l2. induction l1 as [|a l1 IH]; intros l2 H1 H2 HP.
  - apply Permutation_nil in HP. symmetry. exact HP.
  - destruct l2 as [|b l2].
    { symmetry in HP. apply Permutation_nil in HP. discriminate HP. }
    apply StronglySorted_inv in H1 as [H1 F1]. apply StronglySorted_inv in H2 as [H2 F2].
    assert (Hab : a = b).
    { assert (Ha : a ∈ b :: l2) by (rewrite <- HP; left).
      assert (Hb : b ∈ a :: l1) by (rewrite HP; left).
      apply elem_of_cons in Ha as [Ha|Ha]; [exact Ha|].
      apply elem_of_cons in Hb as [Hb|Hb]; [symmetry; exact Hb|].
      rewrite Forall_forall in F1. rewrite Forall_forall in F2.
      specialize (F1 _ Hb). specialize (F2 _ Ha). unfold le1, lt1 in *. lia. }
    subst b. f_equal. apply IH; [exact H1 | exact H2 |].
    eapply Permutation_cons_inv. exact HP.
Qed.

Lemma combine_seq_sorted {A} (xs : list A) (a : nat) :
  StronglySorted lt1 (combine (seq a (length xs)) xs) /\
  Forall (fun p => (a <= p.1)%nat) (combine (seq a (length xs)) xs).
Proof.
  revert a. induction xs as [|x xs IH]; intros a; cbn [length seq combine].
  - split; constructor.
  - destruct (IH (S a)) as [HS HF]. split.
    + constructor; [exact HS|].
      eapply Forall_impl; [exact HF|]. intros p Hp. unfold lt1. cbn in *. lia.
    + constructor; [cbn; lia|].
      eapply Forall_impl; [exact HF|]. intros p Hp. cbn in *. lia.
Qed.

Lemma snd_combine_seq {A} (xs : list A) (a : nat) :
  map snd (combine (seq a (length xs)) xs) = xs.
Proof.
  revert a. induction xs as [|x xs IH]; intros a; cbn [length seq combine map snd]; [reflexivity|].
  f_equal. apply IH.
Qed.

Lemma snd_indexed {A} (xs : list A) : (indexed xs).*2 = xs.
Proof. apply snd_combine_seq. Qed.

(** 1. sorting index-tagged results by the index restores the input order *)
Lemma restore_indexed {A} (xs : list A) (l : list (nat * A)) :
  Permutation l (indexed xs) -> restore l = xs.
Proof.
  intros HP. unfold restore.
  change (fun a b : nat * A => Nat.ltb (fst a) (fst b)) with (@ltb1 A).
  assert (E : isort ltb1 l = indexed xs).
  { apply sorted_unique.
    - apply isort_sorted.
    - apply combine_seq_sorted.
    - rewrite isort_perm. exact HP. }
  rewrite E. apply snd_indexed.
Qed.

(** tagging commutes with a map on the payload *)
Definition tag_with {A B} (g : A -> B) (p : nat * A) : nat * B := (p.1, g p.2).

Lemma map_combine_seq {A B} (g : A -> B) (xs : list A) (a : nat) :
  map (tag_with g) (combine (seq a (length xs)) xs) =
  combine (seq a (length (map g xs))) (map g xs).
Proof.
  revert a. induction xs as [|x xs IH]; intros a; cbn [length seq combine map]; [reflexivity|].
  f_equal. apply IH.
Qed.

Lemma map_indexed {A B} (g : A -> B) (xs : list A) :
  map (tag_with g) (indexed xs) = indexed (map g xs).
Proof. apply map_combine_seq. Qed.

Lemma restore_tagged {A B} (g : A -> B) (xs : list A) (l : list (nat * A)) :
  Permutation l (indexed xs) -> restore (map (tag_with g) l) = map g xs.
Proof.
  intros HP. apply restore_indexed. rewrite <- map_indexed. apply Permutation_map. exact HP.
Qed.

Lemma Forall_snd {A B} (P : B -> Prop) (l : list (A * B)) :
  Forall P (l.*2) <-> Forall (fun p => P p.2) l.
Proof. rewrite Forall_fmap. reflexivity. Qed.

Lemma Forall_fst {A B} (P : A -> Prop) (l : list (A * B)) :
  Forall P (l.*1) <-> Forall (fun p => P p.1) l.
Proof. rewrite Forall_fmap. reflexivity. Qed.

(** ** The ideal map under a batch *)

Lemma foldr_delete_delete (k : bytes) (ks : list bytes) (m : gmap bytes bytes) :
  foldr delete (delete k m) ks = delete k (foldr delete m ks).
Proof.
  induction ks as [|k' ks IH]; cbn [foldr]; [reflexivity|].
  rewrite IH. apply delete_commute.
Qed.

Lemma foldr_delete_perm (ks ks' : list bytes) (m : gmap bytes bytes) :
  Permutation ks ks' -> foldr delete m ks = foldr delete m ks'.
Proof.
  intros HP. induction HP as [| x l l' HP IH | x y l | l l' l'' HP1 IH1 HP2 IH2]; cbn [foldr].
  - reflexivity.
  - rewrite IH. reflexivity.
  - apply delete_commute.
  - rewrite IH1. exact IH2.
Qed.

(** deleting other keys does not change what a key is bound to *)
Lemma lookup_foldr_delete_notin (k : bytes) (ks : list bytes) (m : gmap bytes bytes) :
  k ∉ ks -> foldr delete m ks !! k = m !! k.
Proof.
  induction ks as [|k' ks IH]; intros Hk; cbn [foldr]; [reflexivity|].
  apply not_elem_of_cons in Hk as [Hne Hk].
  rewrite lookup_delete_ne by (intros E; apply Hne; symmetry; exact E).
  apply IH. exact Hk.
Qed.

Lemma lookup_foldr_delete_in (k : bytes) (ks : list bytes) (m : gmap bytes bytes) :
  k ∈ ks -> foldr delete m ks !! k = None.
Proof.
  induction ks as [|k' ks IH]; intros Hk; cbn [foldr].
  - apply elem_of_nil in Hk. destruct Hk.
  - destruct (decide (k' = k)) as [-> | Hne].
    + apply lookup_delete.
    + rewrite lookup_delete_ne by exact Hne. apply IH.
      apply elem_of_cons in Hk as [Hk | Hk]; [congruence | exact Hk].
Qed.

Lemma foldl_insert_perm (l1 l2 : list (bytes * bytes)) :
  Permutation l1 l2 -> NoDup (l1.*1) ->
  forall m : gmap bytes bytes, foldl (fun m kv => <[kv.1 := kv.2]> m) m l1 = foldl (fun m kv => <[kv.1 := kv.2]> m) m l2.
Proof.
  intros HP. induction HP as [| x l l' HP IH | x y l | l l' l'' HP1 IH1 HP2 IH2]; intros ND m.
  - reflexivity.
  - cbn [foldl]. apply IH. rewrite fmap_cons in ND. apply NoDup_cons in ND as [_ ND]. exact ND.
  - cbn [foldl]. rewrite !fmap_cons in ND. apply NoDup_cons in ND as [Hy _].
    assert (Hne : x.1 <> y.1).
    { intros E. apply Hy. rewrite E. left. }
    rewrite (insert_commute m x.1 y.1) by exact Hne. reflexivity.
  - rewrite IH1 by exact ND. apply IH2.
    eapply NoDup_perm'; [|exact ND]. apply Permutation_map. symmetry. exact HP1.
Qed.

(** 6. the run-level spec of Refine_all.v on a sequence of puts *)
Lemma spec_run_puts (kvs : list (bytes * bytes)) (m : spec) :
  fst (spec_run m (map (fun kv => Put kv.1 kv.2) kvs)) = foldl (fun m kv => <[kv.1 := kv.2]> m) m kvs.
Proof.
  revert m. induction kvs as [|kv kvs IH]; intros m; cbn [map spec_run foldl]; [reflexivity|].
  cbn [spec_step]. rewrite <- IH.
  destruct (spec_run _ _) as [m2 rs]. reflexivity.
Qed.

(** ** The sequential loops *)

Lemma get_seq_ok (s : store) (m : spec) (l : list (nat * bytes)) :
  Inv s -> represents s m -> Forall (fun p => key_wf (kt s) p.2) l ->
  get_seq s l = Ok (map (tag_with (fun k => m !! k)) l).
Proof.
  intros HI HR HF. induction l as [|[i k] l IH]; cbn [get_seq map]; [reflexivity|].
  apply Forall_cons in HF as [Hk HF]. cbn [snd] in Hk.
  destruct (get_closed s m k HI HR Hk) as [Hg _].
  rewrite Hg. cbn [rbind]. rewrite (IH HF). cbn [rbind]. reflexivity.
Qed.

(** structural: whatever the store, a successful [get_seq] made every call and kept the tags *)
Definition getr (s : store) (k : bytes) : option bytes :=
  match get s k with Ok r => r | _ => None end.

Lemma get_seq_inv (s : store) (l : list (nat * bytes)) (rs : list (nat * option bytes)) :
  get_seq s l = Ok rs ->
  rs = map (tag_with (getr s)) l /\ Forall (fun p => get s p.2 = Ok (getr s p.2)) l.
Proof.
  revert rs. induction l as [|[i k] l IH]; intros rs Hrs; cbn [get_seq] in Hrs.
  - injection Hrs as <-. split; [reflexivity | constructor].
  - destruct (get s k) as [r | | |] eqn:Eg; cbn [rbind] in Hrs; try discriminate Hrs.
    destruct (get_seq s l) as [rest | | |] eqn:Er; cbn [rbind] in Hrs; try discriminate Hrs.
    injection Hrs as <-. destruct (IH rest eq_refl) as [-> HF].
    assert (Egr : getr s k = r) by (unfold getr; rewrite Eg; reflexivity).
    subst r. split.
    + reflexivity.
    + constructor; [exact Eg | exact HF].
Qed.

Lemma del_seq_ok (l : list (nat * bytes)) : forall (s : store) (m : spec),
  Inv s -> represents s m -> Forall (fun p => key_wf (kt s) p.2) l -> NoDup (l.*2) ->
  exists s', del_seq s l = Ok (s', map (tag_with (fun k => m !! k)) l) /\ Inv s' /\
             represents s' (foldr delete m (l.*2)) /\ kt s' = kt s /\ nb (hx s') = nb (hx s).
Proof.
  induction l as [|[i k] l IH]; intros s m HI HR HF ND.
  - exists s. cbn. auto.
  - apply Forall_cons in HF as [Hk HF]. cbn [snd] in Hk.
    rewrite fmap_cons in ND. cbn [snd] in ND. apply NoDup_cons in ND as [Hnotin ND].
    destruct (del_closed s m k HI HR Hk) as (s1 & Hd & HI1 & HR1 & Ht1 & Hn1).
    assert (HF1 : Forall (fun p : nat * bytes => key_wf (kt s1) p.2) l) by (rewrite Ht1; exact HF).
    destruct (IH s1 (delete k m) HI1 HR1 HF1 ND) as (s2 & Hds & HI2 & HR2 & Ht2 & Hn2).
    exists s2. cbn [del_seq]. rewrite Hd. cbn [rbind]. rewrite Hds. cbn [rbind].
    split; [|split; [exact HI2|split; [|split]]].
    + f_equal. f_equal. cbn [map]. f_equal.
      apply map_ext_in. intros [j k'] Hin. unfold tag_with. cbn [fst snd]. f_equal.
      apply lookup_delete_ne. intros ->. apply Hnotin.
      apply elem_of_list_In in Hin. apply (elem_of_list_fmap_1 snd) in Hin. exact Hin.
    + rewrite fmap_cons. cbn [snd foldr]. rewrite <- foldr_delete_delete. exact HR2.
    + rewrite Ht2. exact Ht1.
    + rewrite Hn2. exact Hn1.
Qed.

Lemma put_seq_ok (l : list (bytes * bytes)) : forall (s : store) (m : spec),
  Inv s -> represents s m -> Forall (fun kv => key_wf (kt s) kv.1 /\ val_wf kv.2) l ->
  exists s', put_seq s l = Ok s' /\ Inv s' /\
             represents s' (foldl (fun m kv => <[kv.1 := kv.2]> m) m l) /\
             kt s' = kt s /\ nb (hx s') = nb (hx s).
Proof.
  induction l as [|[k v] l IH]; intros s m HI HR HF.
  - exists s. cbn. auto.
  - apply Forall_cons in HF as [[Hk Hv] HF]. cbn [fst snd] in Hk, Hv.
    destruct (put_closed s m k v HI HR Hk Hv) as (s1 & Hp & HI1 & HR1 & Ht1 & Hn1).
    assert (HF1 : Forall (fun kv : bytes * bytes => key_wf (kt s1) kv.1 /\ val_wf kv.2) l)
      by (rewrite Ht1; exact HF).
    destruct (IH s1 (<[k := v]> m) HI1 HR1 HF1) as (s2 & Hps & HI2 & HR2 & Ht2 & Hn2).
    exists s2. cbn [put_seq]. rewrite Hp. cbn [rbind].
    split; [exact Hps|]. split; [exact HI2|]. split; [exact HR2|].
    split; [rewrite Ht2; exact Ht1 | rewrite Hn2; exact Hn1].
Qed.

(** 5. [put_from_iter]: the puts in input order; repeats allowed, the later one wins *)
Theorem put_from_iter_in_order (s : store) (m : spec) (kvs : list (bytes * bytes)) :
  Inv s -> represents s m -> Forall (fun kv => key_wf (kt s) kv.1 /\ val_wf kv.2) kvs ->
  exists s', put_from_iter s kvs = Ok s' /\ Inv s' /\
             represents s' (foldl (fun m kv => <[kv.1 := kv.2]> m) m kvs) /\
             kt s' = kt s /\ nb (hx s') = nb (hx s).
Proof. intros HI HR HF. unfold put_from_iter. apply put_seq_ok; assumption. Qed.

(** the same against the run-level spec *)
Corollary put_from_iter_spec_run (s : store) (m : spec) (kvs : list (bytes * bytes)) :
  Inv s -> represents s m -> Forall (fun kv => key_wf (kt s) kv.1 /\ val_wf kv.2) kvs ->
  exists s', put_from_iter s kvs = Ok s' /\ Inv s' /\
             represents s' (fst (spec_run m (map (fun kv => Put kv.1 kv.2) kvs))).
Proof.
  intros HI HR HF.
  destruct (put_from_iter_in_order s m kvs HI HR HF) as (s' & Hp & HI' & HR' & _ & _).
  exists s'. rewrite spec_run_puts. auto.
Qed.

(** repeated keys: the binding the last occurrence gives *)
Lemma foldl_insert_lookup_last (kvs1 kvs2 : list (bytes * bytes)) (k v : bytes) (m : gmap bytes bytes) :
  k ∉ kvs2.*1 ->
  foldl (fun m kv => <[kv.1 := kv.2]> m) m (kvs1 ++ (k, v) :: kvs2) !! k = Some v.
Proof.
  intros Hk. rewrite foldl_app. cbn [foldl fst snd].
  generalize (foldl (fun (m0 : gmap bytes bytes) (kv : bytes * bytes) => <[kv.1:=kv.2]> m0) m kvs1). intros m1.
  revert m1. induction kvs2 as [|[k' v'] kvs2 IH]; intros m1; cbn [foldl fst snd].
  - apply lookup_insert.
  - rewrite fmap_cons in Hk. cbn [fst] in Hk. apply not_elem_of_cons in Hk as [Hne Hk].
    rewrite (insert_commute m1 k' k) by (intros E; apply Hne; symmetry; exact E).
    apply IH. exact Hk.
Qed.

Section bulk_proofs.
Variable sorter : list (nat * bytes) -> list (nat * bytes).
Hypothesis sorter_perm : forall l, Permutation (sorter l) l.
Variable sorter2 : list (bytes * bytes) -> list (bytes * bytes).
Hypothesis sorter2_perm : forall l, Permutation (sorter2 l) l.

Lemma sorter_keys (ks : list bytes) : Permutation ((sorter (indexed ks)).*2) ks.
Proof.
  rewrite <- (snd_indexed ks) at 2. apply Permutation_map. apply sorter_perm.
Qed.

Lemma sorter_wf (P : bytes -> Prop) (ks : list bytes) :
  Forall P ks -> Forall (fun p : nat * bytes => P p.2) (sorter (indexed ks)).
Proof.
  intros HF. apply Forall_snd. eapply Forall_perm'; [apply sorter_keys | exact HF].
Qed.

(** 2. [bulk_get]: position [i] holds what [get] of the [i]-th key returns (repeats allowed) *)
Theorem bulk_get_elementwise (s : store) (m : spec) (ks : list bytes) :
  Inv s -> represents s m -> Forall (key_wf (kt s)) ks ->
  bulk_get sorter s ks = Ok (map (fun k => m !! k) ks).
Proof.
  intros HI HR HF. unfold bulk_get.
  rewrite (get_seq_ok s m _ HI HR (sorter_wf _ ks HF)). cbn [rbind]. f_equal.
  apply restore_tagged. apply sorter_perm.
Qed.

(** no hypothesis on the store: a successful [bulk_get] made every [get] call and its [i]-th
    result is what the call on the [i]-th key returned *)
Theorem bulk_get_positional (s : store) (ks : list bytes) (rs : list (option bytes)) :
  bulk_get sorter s ks = Ok rs ->
  length rs = length ks /\
  forall i k, ks !! i = Some k -> exists r, get s k = Ok r /\ rs !! i = Some r.
Proof.
  unfold bulk_get. intros Hb.
  destruct (get_seq s (sorter (indexed ks))) as [rs' | | |] eqn:Eg; cbn [rbind] in Hb;
    try discriminate Hb.
  injection Hb as <-. destruct (get_seq_inv _ _ _ Eg) as [-> HF].
  rewrite (restore_tagged (getr s) ks _ (sorter_perm _)).
  split; [apply map_length|].
  intros i k Hik. exists (getr s k). split.
  - apply (Forall_snd (fun k0 => get s k0 = Ok (getr s k0))) in HF.
    assert (HF' : Forall (fun k0 => get s k0 = Ok (getr s k0)) ks).
    { eapply Forall_perm'; [symmetry; apply sorter_keys | exact HF]. }
    rewrite Forall_forall in HF'. apply HF'. eapply elem_of_list_lookup_2. exact Hik.
  - rewrite list_lookup_fmap. rewrite Hik. reflexivity.
Qed.

Corollary bulk_get_elementwise_cor (s : store) (ks : list bytes) (rs : list (option bytes)) :
  bulk_get sorter s ks = Ok rs ->
  forall i k, ks !! i = Some k -> exists r, get s k = Ok r /\ rs !! i = Some r.
Proof. intros Hb. apply (bulk_get_positional s ks rs Hb). Qed.

(** 3. [bulk_delete] on a batch without repeated keys *)
Theorem bulk_delete_elementwise (s : store) (m : spec) (ks : list bytes) :
  Inv s -> represents s m -> Forall (key_wf (kt s)) ks -> NoDup ks ->
  exists s', bulk_delete sorter s ks = Ok (s', map (fun k => m !! k) ks) /\ Inv s' /\
             represents s' (foldr delete m ks) /\ kt s' = kt s /\ nb (hx s') = nb (hx s).
Proof.
  intros HI HR HF ND. unfold bulk_delete.
  assert (ND' : NoDup ((sorter (indexed ks)).*2)).
  { eapply NoDup_perm'; [apply sorter_keys | exact ND]. }
  destruct (del_seq_ok (sorter (indexed ks)) s m HI HR (sorter_wf _ ks HF) ND')
    as (s' & Hd & HI' & HR' & Ht & Hn).
  exists s'. rewrite Hd. cbn [rbind].
  rewrite (restore_tagged (fun k => m !! k) ks _ (sorter_perm _)).
  split; [reflexivity|]. split; [exact HI'|]. split; [|split; assumption].
  exact (eq_ind _ (fun m' => represents s' m') HR' _ (foldr_delete_perm _ _ m (sorter_keys ks))).
Qed.

(** what the final map of 3. binds *)
Corollary bulk_delete_lookup (m : spec) (ks : list bytes) (k : bytes) :
  foldr delete m ks !! k = if bool_decide (k ∈ ks) then None else m !! k.
Proof.
  destruct (bool_decide_reflect (k ∈ ks)) as [Hin | Hnin].
  - apply lookup_foldr_delete_in. exact Hin.
  - apply lookup_foldr_delete_notin. exact Hnin.
Qed.

(** 4. [bulk_put] on a batch without repeated keys: as the puts in input order *)
Theorem bulk_put_elementwise (s : store) (m : spec) (kvs : list (bytes * bytes)) :
  Inv s -> represents s m -> Forall (fun kv => key_wf (kt s) kv.1 /\ val_wf kv.2) kvs ->
  NoDup (kvs.*1) ->
  exists s', bulk_put sorter2 s kvs = Ok s' /\ Inv s' /\
             represents s' (foldl (fun m kv => <[kv.1 := kv.2]> m) m kvs) /\
             kt s' = kt s /\ nb (hx s') = nb (hx s).
Proof.
  intros HI HR HF ND. unfold bulk_put.
  assert (HF' : Forall (fun kv : bytes * bytes => key_wf (kt s) kv.1 /\ val_wf kv.2) (sorter2 kvs)).
  { eapply Forall_perm'; [apply sorter2_perm | exact HF]. }
  destruct (put_seq_ok (sorter2 kvs) s m HI HR HF') as (s' & Hp & HI' & HR' & Ht & Hn).
  exists s'. split; [exact Hp|]. split; [exact HI'|]. split; [|split; assumption].
  assert (HP : Permutation kvs (sorter2 kvs)) by (symmetry; apply sorter2_perm).
  exact (eq_ind _ (fun m' => represents s' m') HR' _ (eq_sym (foldl_insert_perm kvs (sorter2 kvs) HP ND m))).
Qed.

(** 6. [bulk_put] against the run-level spec of Refine_all.v *)
Corollary bulk_put_spec_run (s : store) (m : spec) (kvs : list (bytes * bytes)) :
  Inv s -> represents s m -> Forall (fun kv => key_wf (kt s) kv.1 /\ val_wf kv.2) kvs ->
  NoDup (kvs.*1) ->
  exists s', bulk_put sorter2 s kvs = Ok s' /\ Inv s' /\
             represents s' (fst (spec_run m (map (fun kv => Put kv.1 kv.2) kvs))) /\
             kt s' = kt s /\ nb (hx s') = nb (hx s).
Proof.
  intros HI HR HF ND.
  destruct (bulk_put_elementwise s m kvs HI HR HF ND) as (s' & Hp & HI' & HR' & Ht & Hn).
  exists s'. rewrite spec_run_puts. auto.
Qed.

(** with distinct keys [bulk_put] and [put_from_iter] leave the same ideal map *)
Corollary bulk_put_as_put_from_iter (s : store) (m : spec) (kvs : list (bytes * bytes)) :
  Inv s -> represents s m -> Forall (fun kv => key_wf (kt s) kv.1 /\ val_wf kv.2) kvs ->
  NoDup (kvs.*1) ->
  exists s1 s2 m', bulk_put sorter2 s kvs = Ok s1 /\ put_from_iter s kvs = Ok s2 /\
                   represents s1 m' /\ represents s2 m'.
Proof.
  intros HI HR HF ND.
  destruct (bulk_put_elementwise s m kvs HI HR HF ND) as (s1 & Hp1 & _ & HR1 & _ & _).
  destruct (put_from_iter_in_order s m kvs HI HR HF) as (s2 & Hp2 & _ & HR2 & _ & _).
  exists s1, s2, (foldl (fun (m : spec) (kv : bytes * bytes) => <[kv.1 := kv.2]> m) m kvs). auto.
Qed.

End bulk_proofs.

(** ** 7. The executable sorters of Bulk.v *)

Lemma key_sorter_perm : forall l, Permutation (key_sorter l) l.
Proof. intros l. apply isort_perm. Qed.

Lemma kv_sorter_perm : forall l, Permutation (kv_sorter l) l.
Proof. intros l. apply isort_perm. Qed.

Theorem bulk_get_key_sorter (s : store) (m : spec) (ks : list bytes) :
  Inv s -> represents s m -> Forall (key_wf (kt s)) ks ->
  bulk_get key_sorter s ks = Ok (map (fun k => m !! k) ks).
Proof. apply (bulk_get_elementwise key_sorter key_sorter_perm). Qed.

Theorem bulk_get_key_sorter_cor (s : store) (ks : list bytes) (rs : list (option bytes)) :
  bulk_get key_sorter s ks = Ok rs ->
  forall i k, ks !! i = Some k -> exists r, get s k = Ok r /\ rs !! i = Some r.
Proof. apply (bulk_get_elementwise_cor key_sorter key_sorter_perm). Qed.

Theorem bulk_delete_key_sorter (s : store) (m : spec) (ks : list bytes) :
  Inv s -> represents s m -> Forall (key_wf (kt s)) ks -> NoDup ks ->
  exists s', bulk_delete key_sorter s ks = Ok (s', map (fun k => m !! k) ks) /\ Inv s' /\
             represents s' (foldr delete m ks) /\ kt s' = kt s /\ nb (hx s') = nb (hx s).
Proof. apply (bulk_delete_elementwise key_sorter key_sorter_perm). Qed.

Theorem bulk_put_kv_sorter (s : store) (m : spec) (kvs : list (bytes * bytes)) :
  Inv s -> represents s m -> Forall (fun kv => key_wf (kt s) kv.1 /\ val_wf kv.2) kvs ->
  NoDup (kvs.*1) ->
  exists s', bulk_put kv_sorter s kvs = Ok s' /\ Inv s' /\
             represents s' (foldl (fun m kv => <[kv.1 := kv.2]> m) m kvs) /\
             kt s' = kt s /\ nb (hx s') = nb (hx s).
Proof. apply (bulk_put_elementwise kv_sorter kv_sorter_perm). Qed.

Theorem bulk_put_kv_sorter_spec_run (s : store) (m : spec) (kvs : list (bytes * bytes)) :
  Inv s -> represents s m -> Forall (fun kv => key_wf (kt s) kv.1 /\ val_wf kv.2) kvs ->
  NoDup (kvs.*1) ->
  exists s', bulk_put kv_sorter s kvs = Ok s' /\ Inv s' /\
             represents s' (fst (spec_run m (map (fun kv => Put kv.1 kv.2) kvs))) /\
             kt s' = kt s /\ nb (hx s') = nb (hx s).
Proof. apply (bulk_put_spec_run kv_sorter kv_sorter_perm). Qed.

(** ** 8. Non-vacuity: a concrete store *)

Lemma key_wf_bytes_small (k : bytes) :
  bytes_okb k = true -> (length k < 1000)%nat -> key_wf KBytes k.
Proof.
  intros Hb Hl. split; [|split].
  - unfold bytes_ok, bytes_okb in *. apply Forall_forall. intros b Hb'.
    rewrite forallb_forall in Hb. apply elem_of_list_In in Hb'. specialize (Hb _ Hb').
    apply N.ltb_lt in Hb. exact Hb.
  - unfold blen. assert (E : 2 ^ 31 = 2147483648) by (vm_compute; reflexivity). rewrite E. lia.
  - intros E. discriminate E.
Qed.

Lemma val_wf_small (v : bytes) : bytes_okb v = true -> (length v < 1000)%nat -> val_wf v.
Proof.
  intros Hb Hl. destruct (key_wf_bytes_small v Hb Hl) as (H1 & H2 & _). split; assumption.
Qed.

Definition ex_ops : list dop := [Put [1;2;3] [10]; Put [2] [20;21]; Put [1] [30]; Put [7;7] []].
Definition ex_store : store :=
  match store_run (create KBytes 4) ex_ops with Ok (s, _) => s | _ => create KBytes 4 end.
Definition ex_map : spec := fst (spec_run ∅ ex_ops).

Lemma ex_ops_wf : Forall (op_wf KBytes) ex_ops.
Proof.
  unfold ex_ops. repeat constructor;
    (apply key_wf_bytes_small || apply val_wf_small); (reflexivity || (cbn; lia)).
Qed.

Lemma ex_store_run : store_run (create KBytes 4) ex_ops = Ok (ex_store, snd (spec_run ∅ ex_ops)).
Proof. vm_compute. reflexivity. Qed.

(** the hypotheses of the theorems are satisfiable: *)
Lemma ex_store_inv : Inv ex_store /\ represents ex_store ex_map /\ kt ex_store = KBytes.
Proof.
  assert (H4 : 1 <= 4) by lia.
  destruct (run_from_create KBytes 4 ex_ops H4 ex_ops_wf) as (s' & Hr & HI & HR).
  rewrite ex_store_run in Hr.
  assert (E : ex_store = s').
  { apply (f_equal (fun r => match r with Ok (a, _) => a | _ => s' end)) in Hr. exact Hr. }
  subst s'.
  split; [exact HI|]. split; [exact HR|]. vm_compute. reflexivity.
Qed.

Definition ex_keys : list bytes := [[2]; [9]; [1;2;3]; [2]].
Definition ex_dkeys : list bytes := [[2]; [9]; [1;2;3]].

Lemma ex_keys_wf : Forall (key_wf (kt ex_store)) ex_keys /\ Forall (key_wf (kt ex_store)) ex_dkeys.
Proof.
  destruct ex_store_inv as (_ & _ & ->).
  split; repeat constructor; apply key_wf_bytes_small; (reflexivity || (cbn; lia)).
Qed.

(** results come back in input order although the calls are made in key order
    ([1;2;3] < [2] < [9]); a repeated key is answered at both positions *)
Example ex_bulk_get :
  bulk_get key_sorter ex_store ex_keys = Ok [Some [20;21]; None; Some [10]; Some [20;21]].
Proof. vm_compute. reflexivity. Qed.

Example ex_call_order : map snd (key_sorter (indexed ex_keys)) = [[1;2;3]; [2]; [2]; [9]].
Proof. vm_compute. reflexivity. Qed.

(** the theorem predicts the same *)
Example ex_bulk_get_thm :
  bulk_get key_sorter ex_store ex_keys = Ok (map (fun k => ex_map !! k) ex_keys) /\
  map (fun k => ex_map !! k) ex_keys = [Some [20;21]; None; Some [10]; Some [20;21]].
Proof.
  destruct ex_store_inv as (HI & HR & _). destruct ex_keys_wf as [HF _].
  split; [apply (bulk_get_key_sorter _ _ _ HI HR HF) | vm_compute; reflexivity].
Qed.

Example ex_bulk_delete :
  match bulk_delete key_sorter ex_store ex_dkeys with
  | Ok (s', rs) =>
    rs = [Some [20;21]; None; Some [10]] /\
    map (get s') [[1;2;3]; [2]; [1]; [7;7]] = [Ok None; Ok None; Ok (Some [30]); Ok (Some [])] /\
    len s' = 2
  | _ => False
  end.
Proof. vm_compute. repeat split; reflexivity. Qed.

Example ex_bulk_delete_thm :
  exists s', bulk_delete key_sorter ex_store ex_dkeys = Ok (s', [Some [20;21]; None; Some [10]]) /\
             Inv s' /\ represents s' (foldr delete ex_map ex_dkeys).
Proof.
  destruct ex_store_inv as (HI & HR & _). destruct ex_keys_wf as [_ HF].
  assert (ND : NoDup ex_dkeys).
  { apply (bool_decide_unpack _). vm_compute. exact I. }
  destruct (bulk_delete_key_sorter _ _ _ HI HR HF ND) as (s' & Hd & HI' & HR' & _ & _).
  exists s'. split; [|split; assumption].
  rewrite Hd. f_equal.
Qed.

Example ex_bulk_put :
  match bulk_put kv_sorter ex_store [([9], [90]); ([2], [22]); ([5], [50])] with
  | Ok s' =>
    map (get s') [[9]; [2]; [5]; [1]] = [Ok (Some [90]); Ok (Some [22]); Ok (Some [50]); Ok (Some [30])] /\
    len s' = 6
  | _ => False
  end.
Proof. vm_compute. split; reflexivity. Qed.

(** [put_from_iter] with a repeated key: the later value wins *)
Example ex_put_from_iter :
  match put_from_iter ex_store [([5], [50]); ([2], [22]); ([5], [51])] with
  | Ok s' => map (get s') [[5]; [2]] = [Ok (Some [51]); Ok (Some [22])] /\ len s' = 5
  | _ => False
  end.
Proof. vm_compute. split; reflexivity. Qed.

Print Assumptions restore_indexed.
Print Assumptions bulk_get_elementwise.
Print Assumptions bulk_get_positional.
Print Assumptions bulk_get_elementwise_cor.
Print Assumptions bulk_delete_elementwise.
Print Assumptions bulk_put_elementwise.
Print Assumptions bulk_put_spec_run.
Print Assumptions put_from_iter_in_order.
Print Assumptions spec_run_puts.
Print Assumptions bulk_get_key_sorter.
Print Assumptions bulk_get_key_sorter_cor.
Print Assumptions bulk_delete_key_sorter.
Print Assumptions bulk_put_kv_sorter.
Print Assumptions bulk_put_kv_sorter_spec_run.
Print Assumptions ex_store_inv.
Print Assumptions ex_bulk_get_thm.
Print Assumptions ex_bulk_delete_thm.
