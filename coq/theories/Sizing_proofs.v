(** * Sizing_proofs: C09 - a record always fits the slot chosen for it.

    The slot size [S] is [roundup] of an *estimate* ([val_need] / [key_need]); the estimate of
    the size field is [enc_len ((pl+7)/8)] while the writer emits [enc_len (S/8)], which can be
    one byte longer.  The slack [roundup] leaves above the last-but-one class
    ([((x+128)/128)*128 > x]) pays for that byte; below it the size field is one byte anyway.

    The proofs compute with the concrete size classes of the regenerated [Consts]
    (only [key_size_ary] / [val_size_ary] matter, nothing else of the configuration). *)
From Coq Require Import ZArith Lia ZifyN ZifyNat ZifyBool.
From Aby Require Import Base Vu64 Consts Sizing.

#[local] Ltac Zify.zify_post_hook ::= Z.div_mod_to_equations.

(** ** [enc_len] *)

Ltac enc_cases :=
  unfold enc_len;
  repeat match goal with |- context [?a <? ?b] => destruct (N.ltb_spec a b) end.

Lemma enc_len_range v : 1 <= enc_len v <= 9.
Proof. enc_cases; lia. Qed.

Lemma enc_len_small v : v < 128 -> enc_len v = 1.
Proof. intros H. enc_cases; lia. Qed.

Lemma enc_len_mono a b : a <= b -> enc_len a <= enc_len b.
Proof. intros H. enc_cases; lia. Qed.

(** the varint width grows by at most one over a short distance *)
Lemma enc_len_step a b : b <= a + 32 -> enc_len b <= enc_len a + 1.
Proof. intros H. enc_cases; lia. Qed.

Lemma enc_len_div8 v : enc_len (v / 8) <= enc_len v.
Proof. apply enc_len_mono. lia. Qed.

(** ** byte lengths *)

Lemma blen_app a b : blen (a ++ b) = blen a + blen b.
Proof. unfold blen. rewrite app_length. lia. Qed.

Lemma blen_zeros n : blen (zeros n) = n.
Proof. unfold blen, zeros. rewrite repeat_length. lia. Qed.

Lemma le_bytes_length n v : length (le_bytes n v) = n.
Proof. revert v. induction n as [|n IH]; intros v; cbn [le_bytes length]; [reflexivity|]. now rewrite IH. Qed.

(** holds for every [v] (no [v < 2^64] needed) *)
Lemma blen_encode v : blen (encode v) = enc_len v.
Proof.
  pose proof (enc_len_range v) as Hr.
  unfold encode. cbv zeta.
  destruct (N.eqb_spec (enc_len v) 1) as [E1|N1].
  { rewrite E1. reflexivity. }
  destruct (N.leb_spec (enc_len v) 7) as [L7|G7].
  { unfold blen. cbn [length]. rewrite le_bytes_length. lia. }
  destruct (N.eqb_spec (enc_len v) 8) as [E8|N8].
  { unfold blen. cbn [length]. rewrite le_bytes_length. lia. }
  unfold blen. cbn [length]. rewrite le_bytes_length. lia.
Qed.

Lemma slot_bytes_length_gen size body :
  enc_len (size / 8) + blen body <= size -> blen (slot_bytes size body) = size.
Proof.
  intros H. unfold slot_bytes. cbv zeta.
  rewrite blen_app, blen_zeros, blen_app, blen_encode. lia.
Qed.

Lemma slot_bytes_length size body :
  enc_len (size / 8) + blen body <= size -> size / 8 < 2 ^ 64 ->
  blen (slot_bytes size body) = size.
Proof. intros H _. now apply slot_bytes_length_gen. Qed.

(** ** The concrete size classes *)

Definition classes : list N :=
  [16; 24; 32; 48; 64; 80; 96; 112; 128; 256; 384; 512; 640; 768; 896; 1024].

Lemma size_ary_eq c : cfg_ok c -> size_ary c = classes.
Proof. intros [-> | ->]; reflexivity. Qed.

Lemma last_class_eq c : cfg_ok c -> last_class c = 1024.
Proof. intros Hc. unfold last_class. rewrite (size_ary_eq c Hc). reflexivity. Qed.

Lemma second_last_class_eq c : cfg_ok c -> second_last_class c = 896.
Proof. intros Hc. unfold second_last_class. rewrite (size_ary_eq c Hc). reflexivity. Qed.

Ltac leb_cases :=
  repeat match goal with |- context [?a <=? ?b] => destruct (N.leb_spec a b) end.

Lemma roundup_unfold c x : cfg_ok c ->
  roundup c x =
    if x <=? 16 then 16 else if x <=? 24 then 24 else if x <=? 32 then 32
    else if x <=? 48 then 48 else if x <=? 64 then 64 else if x <=? 80 then 80
    else if x <=? 96 then 96 else if x <=? 112 then 112 else if x <=? 128 then 128
    else if x <=? 256 then 256 else if x <=? 384 then 384 else if x <=? 512 then 512
    else if x <=? 640 then 640 else if x <=? 768 then 768 else if x <=? 896 then 896
    else ((x + 128) / 128) * 128.
Proof.
  intros Hc. unfold roundup. rewrite (size_ary_eq c Hc).
  unfold classes. cbn [removelast find]. leb_cases; reflexivity.
Qed.

(** [valid_slot_size] as plain arithmetic *)
Lemma valid_slot_size_unfold c S : cfg_ok c ->
  valid_slot_size c S <->
  (S = 16 \/ S = 24 \/ S = 32 \/ S = 48 \/ S = 64 \/ S = 80 \/ S = 96 \/ S = 112 \/ S = 128 \/
   S = 256 \/ S = 384 \/ S = 512 \/ S = 640 \/ S = 768 \/ S = 896 \/ S = 1024) \/
  (1024 < S /\ S mod 128 = 0).
Proof.
  intros Hc. unfold valid_slot_size.
  rewrite (size_ary_eq c Hc), (last_class_eq c Hc). unfold classes. cbn [In].
  intuition (subst; auto 20).
Qed.

Lemma in_size_ary_unfold c S : cfg_ok c ->
  In S (size_ary c) <->
  (S = 16 \/ S = 24 \/ S = 32 \/ S = 48 \/ S = 64 \/ S = 80 \/ S = 96 \/ S = 112 \/ S = 128 \/
   S = 256 \/ S = 384 \/ S = 512 \/ S = 640 \/ S = 768 \/ S = 896 \/ S = 1024).
Proof.
  intros Hc. rewrite (size_ary_eq c Hc). unfold classes. cbn [In].
  intuition (subst; auto 20).
Qed.

(** ** [roundup] *)

Lemma roundup_ge c x : cfg_ok c -> 0 < x -> x <= roundup c x.
Proof. intros Hc _. rewrite (roundup_unfold c x Hc). leb_cases; lia. Qed.

Lemma roundup_valid c x : cfg_ok c -> 0 < x -> valid_slot_size c (roundup c x).
Proof.
  intros Hc _. apply (valid_slot_size_unfold c _ Hc).
  rewrite (roundup_unfold c x Hc). leb_cases; lia.
Qed.

Lemma valid_slot_size_mod8 c S : cfg_ok c ->
  valid_slot_size c S -> S mod 8 = 0 /\ 16 <= S.
Proof. intros Hc H. apply (valid_slot_size_unfold c S Hc) in H. lia. Qed.

Lemma valid_size_spec c S :
  valid_size c S = true <-> S <> 0 /\ (In S (size_ary c) \/ second_last_class c < S).
Proof.
  unfold valid_size.
  rewrite andb_true_iff, orb_true_iff, negb_true_iff, N.eqb_neq, N.ltb_lt, existsb_exists.
  split.
  - intros [H0 [(y & Hy & E) | H]]; split; auto. apply N.eqb_eq in E. subst y. auto.
  - intros [H0 [H | H]]; split; auto. left. exists S. split; auto. apply N.eqb_refl.
Qed.

Lemma valid_slot_size_valid_size c S : cfg_ok c ->
  valid_slot_size c S -> valid_size c S = true.
Proof.
  intros Hc H. apply valid_size_spec.
  rewrite (in_size_ary_unfold c S Hc), (second_last_class_eq c Hc).
  apply (valid_slot_size_unfold c S Hc) in H. lia.
Qed.

Lemma valid_size_iff c S : cfg_ok c ->
  S mod 128 = 0 \/ In S (size_ary c) ->
  (valid_size c S = true <-> valid_slot_size c S).
Proof.
  intros Hc H. rewrite valid_size_spec, (valid_slot_size_unfold c S Hc).
  rewrite (in_size_ary_unfold c S Hc) in *. rewrite (second_last_class_eq c Hc).
  split.
  - intros [H0 [HD | H896]]; [left; exact HD|].
    destruct H as [M | HD]; [|left; exact HD].
    destruct (N.eq_dec S 1024) as [-> | Hne]; [left; lia | right; lia].
  - intros [HD | [HL M]].
    + split; [lia | left; exact HD].
    + split; lia.
Qed.

Lemma roundup_mono c x y : cfg_ok c -> x <= y -> roundup c x <= roundup c y.
Proof.
  intros Hc H. rewrite (roundup_unfold c x Hc), (roundup_unfold c y Hc).
  leb_cases; lia.
Qed.

(** [roundup] is the identity on every class but the last ... *)
Lemma roundup_idem_class c S : cfg_ok c ->
  In S (size_ary c) -> S <> last_class c -> roundup c S = S.
Proof.
  intros Hc H N. rewrite (last_class_eq c Hc) in N.
  apply (in_size_ary_unfold c S Hc) in H.
  rewrite (roundup_unfold c S Hc). leb_cases; lia.
Qed.

(** ... and moves every slot size from the last class on to the next multiple of 128 *)
Lemma roundup_large c S : cfg_ok c ->
  last_class c <= S -> S mod 128 = 0 -> roundup c S = S + 128.
Proof.
  intros Hc H M. rewrite (last_class_eq c Hc) in H.
  rewrite (roundup_unfold c S Hc). leb_cases; lia.
Qed.

(** The statement "roundup c S = S for every valid S but the last class" is FALSE:
    not only 1024 but every larger multiple of 128 is bumped (roundup 1152 = 1280). *)
Lemma roundup_idem_refuted :
  ~ (forall c S, cfg_ok c ->
       valid_slot_size c S -> S <> last_class c -> roundup c S = S).
Proof.
  intros H. specialize (H val_cfg 1152 (or_intror eq_refl)).
  assert (E : roundup val_cfg 1152 = 1280) by (vm_compute; reflexivity).
  rewrite E in H. clear E.
  assert (V : valid_slot_size val_cfg 1152).
  { right. split; vm_compute; reflexivity. }
  assert (N : 1152 <> last_class val_cfg) by (vm_compute; discriminate).
  specialize (H V N). discriminate H.
Qed.

(** what C09 needs of [roundup]: below the last class the size field takes one byte,
    from there on [roundup] leaves at least one byte of slack *)
Lemma roundup_cases c x : cfg_ok c ->
  x <= roundup c x /\
  (enc_len (roundup c x / 8) = 1 \/ (x < roundup c x /\ roundup c x <= x + 128)).
Proof.
  intros Hc. rewrite (roundup_unfold c x Hc).
  leb_cases; (split; [lia|]); try (left; apply enc_len_small; reflexivity).
  right. lia.
Qed.

(** ** C09 *)

(** the arithmetic core: [pl] = everything but the size field *)
Lemma fits_core S pl :
  enc_len ((pl + 7) / 8) + pl <= S ->
  (enc_len (S / 8) = 1 \/
   (enc_len ((pl + 7) / 8) + pl < S /\ S <= enc_len ((pl + 7) / 8) + pl + 128)) ->
  enc_len (S / 8) + pl <= S.
Proof.
  intros Hge H.
  pose proof (enc_len_range ((pl + 7) / 8)) as Hr.
  destruct H as [E | [Hlt Hle]]; [lia|].
  assert (Hs : enc_len (S / 8) <= enc_len ((pl + 7) / 8) + 1).
  { apply enc_len_step. revert Hr Hle. generalize (enc_len ((pl + 7) / 8)). intros e Hr Hle. lia. }
  lia.
Qed.

Lemma roundup_fits c pl : cfg_ok c ->
  enc_len (roundup c (enc_len ((pl + 7) / 8) + pl) / 8) + pl
    <= roundup c (enc_len ((pl + 7) / 8) + pl).
Proof.
  intros Hc. destruct (roundup_cases c (enc_len ((pl + 7) / 8) + pl) Hc) as [Hge H].
  apply fits_core; [exact Hge|]. destruct H as [H | [H1 H2]]; [left | right]; auto.
Qed.

Lemma val_need_pos len : 0 < val_need len.
Proof. unfold val_need. cbv zeta. pose proof (enc_len_range len). lia. Qed.

Lemma key_need_pos klen voff noff : 0 < key_need klen voff noff.
Proof. unfold key_need. cbv zeta. pose proof (enc_len_range klen). lia. Qed.

(** holds for every length (the bound of the property statement is not needed) *)
Lemma val_fits_gen len :
  val_real_len (roundup val_cfg (val_need len)) len <= roundup val_cfg (val_need len).
Proof.
  unfold val_real_len, val_need. cbv zeta.
  pose proof (roundup_fits val_cfg (enc_len len + len) (or_intror eq_refl)) as H.
  lia.
Qed.

(** holds for all lengths and offsets, aligned or not *)
Lemma key_fits_gen klen voff noff :
  key_real_len (roundup key_cfg (key_need klen voff noff)) klen voff noff
    <= roundup key_cfg (key_need klen voff noff).
Proof.
  unfold key_real_len, key_need. cbv zeta.
  pose proof (roundup_fits key_cfg (enc_len klen + klen + enc_len voff + enc_len noff)
                (or_introl eq_refl)) as H.
  pose proof (enc_len_div8 voff). pose proof (enc_len_div8 noff).
  lia.
Qed.

Theorem C09_val_fits len : len < 2 ^ 31 ->
  let S := roundup val_cfg (val_need len) in
  valid_slot_size val_cfg S /\ val_real_len S len <= S.
Proof.
  intros _ S. subst S. split.
  - apply roundup_valid; [now right | apply val_need_pos].
  - apply val_fits_gen.
Qed.

Theorem C09_key_fits klen voff noff : klen < 2 ^ 31 -> voff < 2 ^ 64 -> noff < 2 ^ 64 ->
  voff mod 8 = 0 -> noff mod 8 = 0 ->
  let S := roundup key_cfg (key_need klen voff noff) in
  valid_slot_size key_cfg S /\ key_real_len S klen voff noff <= S.
Proof.
  intros _ _ _ _ _ S. subst S. split.
  - apply roundup_valid; [now left | apply key_need_pos].
  - apply key_fits_gen.
Qed.

(** an overwrite in place keeps the OLD (possibly larger) slot: it still fits.
    Two different valid sizes are at least 8 apart, the size field varies by at most 8. *)
Lemma fits_mono c S S' body : cfg_ok c ->
  valid_slot_size c S -> valid_slot_size c S' -> S <= S' ->
  enc_len (S / 8) + body <= S -> enc_len (S' / 8) + body <= S'.
Proof.
  intros Hc V V' Hle H.
  destruct (valid_slot_size_mod8 c S Hc V) as [M _].
  destruct (valid_slot_size_mod8 c S' Hc V') as [M' _].
  destruct (N.eq_dec S S') as [<- | Hne]; [exact H|].
  pose proof (enc_len_range (S / 8)) as R. pose proof (enc_len_range (S' / 8)) as R'.
  revert R R' H. generalize (enc_len (S / 8)) (enc_len (S' / 8)). intros e e' R R' H.
  lia.
Qed.

Corollary C09_val_fits_any_slot len S' : len < 2 ^ 31 -> valid_slot_size val_cfg S' ->
  roundup val_cfg (val_need len) <= S' -> val_real_len S' len <= S'.
Proof.
  intros _ V' Hle.
  pose proof (val_fits_gen len) as H.
  assert (V : valid_slot_size val_cfg (roundup val_cfg (val_need len)))
    by (apply roundup_valid; [now right | apply val_need_pos]).
  revert H V Hle. generalize (roundup val_cfg (val_need len)). intros S0 H V Hle.
  unfold val_real_len in *.
  pose proof (fits_mono val_cfg S0 S' (enc_len len + len) (or_intror eq_refl) V V' Hle) as F.
  clear V V' Hle.
  revert H F. generalize (enc_len (S0 / 8)) (enc_len (S' / 8)) (enc_len len). intros e0 e' el H F.
  lia.
Qed.

Corollary C09_key_fits_any_slot klen voff noff S' :
  klen < 2 ^ 31 -> voff < 2 ^ 64 -> noff < 2 ^ 64 ->
  voff mod 8 = 0 -> noff mod 8 = 0 -> valid_slot_size key_cfg S' ->
  roundup key_cfg (key_need klen voff noff) <= S' -> key_real_len S' klen voff noff <= S'.
Proof.
  intros _ _ _ _ _ V' Hle.
  pose proof (key_fits_gen klen voff noff) as H.
  assert (V : valid_slot_size key_cfg (roundup key_cfg (key_need klen voff noff)))
    by (apply roundup_valid; [now left | apply key_need_pos]).
  revert H V Hle. generalize (roundup key_cfg (key_need klen voff noff)). intros S0 H V Hle.
  unfold key_real_len in *.
  pose proof (fits_mono key_cfg S0 S'
                (enc_len klen + klen + enc_len (voff / 8) + enc_len (noff / 8))
                (or_introl eq_refl) V V' Hle) as F.
  clear V V' Hle.
  revert H F.
  generalize (enc_len (S0 / 8)) (enc_len (S' / 8)) (enc_len klen)
             (enc_len (voff / 8)) (enc_len (noff / 8)).
  intros e0 e' ek ev en H F.
  lia.
Qed.
