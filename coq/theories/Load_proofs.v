(** * Load_proofs: the independent reader [Load.load] recovers from the byte images of
    [Layout.render] exactly the record-level state (every slot of both piece files, the
    free-list heads, the file lengths and the bucket table), the in-memory flags aside.

    Layers: 1. field codecs, 2. slot parsers on slot images, 3. addressing inside a rendered piece
    file, 4. chains and free lists, 5. assembly, 6. a computed example, 7. preservation of the
    extra invariant [fits_ok] ("every record fits its slot") by the store operations. *)
From Coq Require Import Lia ZifyN ZifyNat ZifyBool.
From Aby Require Import Base Vu64 Vu64_proofs Hash KeyTypes Consts Sizing Sizing_proofs Alloc AllocInv
  AllocInv_proofs Htx Htx_proofs Store Spec Layout Load Refine Refine_relink Refine_all Open_proofs
  Stats_proofs.

(** ** 1. field codecs on a byte stream with a rest *)

Lemma two64_pow : 256 ^ N.of_nat 8 = 2 ^ 64.
Proof. reflexivity. Qed.

Lemma p_vu64_app v rest : v < 2 ^ 64 -> p_vu64 (encode v ++ rest) = Ok (v, rest).
Proof. intros Hv. unfold p_vu64. rewrite (decode_encode v rest Hv). reflexivity. Qed.

Lemma p_take_app (k rest : bytes) : p_take (blen k) (k ++ rest) = Ok (k, rest).
Proof.
  unfold p_take, blen. rewrite Nat2N.id.
  destruct (Nat.ltb_spec (length (k ++ rest)) (length k)) as [Hlt|_].
  - rewrite app_length in Hlt. lia.
  - rewrite take_app_alt, drop_app_alt by reflexivity. reflexivity.
Qed.

Lemma rd_u64_app v rest : v < 2 ^ 64 -> rd_u64 (le_bytes 8 v ++ rest) = v.
Proof.
  intros Hv. unfold rd_u64. apply le_decode_take_app. rewrite two64_pow. exact Hv.
Qed.

Lemma div8_mul8 v : v mod 8 = 0 -> v / 8 * 8 = v.
Proof. intros H. pose proof (N.div_mod v 8). lia. Qed.

Lemma div8_lt v : v < 2 ^ 64 -> v / 8 < 2 ^ 64.
Proof. intros H. pose proof (N.div_le_upper_bound v 8 v). assert (v / 8 <= v) by (apply N.div_le_upper_bound; lia). lia. Qed.

(** ** 2. slot parsers on a slot image followed by arbitrary bytes *)

Lemma slot_bytes_app sz body rest :
  slot_bytes sz body ++ rest =
  encode (sz / 8) ++ body ++ (zeros (sz - blen (encode (sz / 8) ++ body)) ++ rest).
Proof. unfold slot_bytes. cbv zeta. rewrite <- !app_assoc. reflexivity. Qed.

Lemma p_kslot_image sz k voff noff rest :
  sz mod 8 = 0 -> sz < 2 ^ 64 -> blen k < 2 ^ 64 ->
  voff mod 8 = 0 -> voff < 2 ^ 64 -> noff mod 8 = 0 -> noff < 2 ^ 64 ->
  p_kslot (slot_bytes sz (key_body k voff noff) ++ rest) = Ok (Used sz (KRec k voff noff)).
Proof.
  intros Hs8 Hs Hk Hv8 Hv Hn8 Hn.
  rewrite slot_bytes_app. unfold key_body, p_kslot. rewrite <- !app_assoc.
  rewrite p_vu64_app by (apply div8_lt; exact Hs). cbn [rbind].
  rewrite p_vu64_app by exact Hk. cbn [rbind].
  rewrite p_take_app. cbn [rbind].
  rewrite p_vu64_app by (apply div8_lt; exact Hv). cbn [rbind].
  rewrite p_vu64_app by (apply div8_lt; exact Hn). cbn [rbind].
  rewrite !div8_mul8 by assumption. reflexivity.
Qed.

Lemma p_vslot_image sz (v rest : bytes) :
  sz mod 8 = 0 -> sz < 2 ^ 64 -> blen v < 2 ^ 64 ->
  p_vslot (slot_bytes sz (val_body v) ++ rest) = Ok (Used sz v).
Proof.
  intros Hs8 Hs Hv.
  rewrite slot_bytes_app. unfold val_body, p_vslot. rewrite <- !app_assoc.
  rewrite p_vu64_app by (apply div8_lt; exact Hs). cbn [rbind].
  rewrite p_vu64_app by exact Hv. cbn [rbind].
  rewrite p_take_app. cbn [rbind].
  rewrite !div8_mul8 by assumption. reflexivity.
Qed.

Lemma p_free_image {P} sz nxt rest :
  sz mod 8 = 0 -> sz < 2 ^ 64 -> nxt < 2 ^ 64 ->
  @p_free P (slot_bytes sz (free_body nxt) ++ rest) = Ok (Free sz nxt).
Proof.
  intros Hs8 Hs Hn.
  rewrite slot_bytes_app. unfold free_body, p_free. rewrite <- !app_assoc.
  rewrite p_vu64_app by (apply div8_lt; exact Hs). cbn [rbind app].
  destruct (Nat.ltb_spec (length (le_bytes 8 nxt ++
     zeros (sz - blen (encode (sz / 8) ++ 0 :: le_bytes 8 nxt)) ++ rest)) 8) as [Hlt|_].
  - rewrite app_length, Vu64_proofs.le_bytes_length in Hlt. lia.
  - rewrite rd_u64_app by exact Hn. rewrite div8_mul8 by exact Hs8. reflexivity.
Qed.

(** ** 3. addressing inside a rendered piece file *)

Lemma blen_nil : blen [] = 0.
Proof. reflexivity. Qed.

Lemma at_off_0 (a : bytes) : at_off a 0 = a.
Proof. reflexivity. Qed.

Lemma at_off_app_add (a b : bytes) k : at_off (a ++ b) (blen a + k) = at_off b k.
Proof.
  unfold at_off, blen. rewrite N2Nat.inj_add, Nat2N.id.
  rewrite drop_app_ge by lia. f_equal. lia.
Qed.

Lemma at_off_app_blen (a b : bytes) : at_off (a ++ b) (blen a) = b.
Proof. rewrite <- (N.add_0_r (blen a)), at_off_app_add. reflexivity. Qed.

Lemma elem_of_concat {A} (x : A) (ls : list (list A)) :
  x ∈ concat ls <-> exists l, l ∈ ls /\ x ∈ l.
Proof.
  rewrite elem_of_list_In, in_concat. split; intros (l & H1 & H2); exists l.
  - split; apply elem_of_list_In; assumption.
  - split; apply elem_of_list_In; assumption.
Qed.

Lemma elem_of_map {A B} (g : A -> B) (l : list A) (y : B) :
  y ∈ map g l <-> exists x, y = g x /\ x ∈ l.
Proof. apply (elem_of_list_fmap g l y). Qed.

Lemma map_seq_nth {A} (l : list A) d : map (fun i => nth i l d) (seq 0 (length l)) = l.
Proof.
  induction l as [|a l IH]; [reflexivity|].
  cbn [length seq map nth]. f_equal.
  rewrite <- seq_shift, map_map. exact IH.
Qed.

Lemma blen_le8 v : blen (le_bytes 8 v) = 8.
Proof. unfold blen. rewrite Vu64_proofs.le_bytes_length. reflexivity. Qed.

Lemma blen_concat_le8 hd : blen (concat (map (le_bytes 8) hd)) = 8 * N.of_nat (length hd).
Proof.
  induction hd as [|a hd IH]; [reflexivity|].
  cbn [map concat length]. rewrite blen_app, blen_le8, IH. lia.
Qed.

Lemma concat_le8_at hd : forall i tail, (i < length hd)%nat ->
  exists rest, at_off (concat (map (le_bytes 8) hd) ++ tail) (8 * N.of_nat i)
               = le_bytes 8 (nth i hd 0) ++ rest.
Proof.
  induction hd as [|a hd IH]; intros i tail Hi; [cbn in Hi; lia|].
  cbn [map concat]. rewrite <- app_assoc. destruct i as [|i].
  - cbn [nth]. eexists. reflexivity.
  - cbn [nth]. cbn [length] in Hi.
    replace (8 * N.of_nat (S i)) with (blen (le_bytes 8 a) + 8 * N.of_nat i)
      by (rewrite blen_le8; lia).
    rewrite at_off_app_add. apply IH. lia.
Qed.

(** the layout constants the header proofs need, by computation over the regenerated constants *)
Lemma cfg_hdr_facts c : cfg_ok c ->
  length (sig1 c) = 8%nat /\ 16 <= List.hd 0 (free_off c) /\
  List.hd 0 (free_off c) + 128 <= hdr_size c /\
  free_off c = map (fun i => List.hd 0 (free_off c) + 8 * N.of_nat i) (seq 0 16).
Proof.
  intros [-> | ->]; (split; [reflexivity|]); (split; [apply N.leb_le; reflexivity|]);
    (split; [apply N.leb_le; reflexivity|]); vm_compute; reflexivity.
Qed.

Lemma render_pheader_length c sig2 hd :
  cfg_ok c -> length sig2 = 8%nat -> length hd = 16%nat ->
  blen (render_pheader c sig2 hd) = hdr_size c.
Proof.
  intros Hc Hs Hh. destruct (cfg_hdr_facts c Hc) as (H1 & H2 & H3 & _).
  unfold render_pheader. cbv zeta.
  rewrite !blen_app, !blen_zeros, blen_concat_le8, Hh. unfold blen. rewrite H1, Hs. lia.
Qed.

Lemma rd_head c sig2 hd body i :
  cfg_ok c -> length sig2 = 8%nat -> (i < length hd)%nat -> nth i hd 0 < 2 ^ 64 ->
  rd_u64 (at_off (render_pheader c sig2 hd ++ body) (List.hd 0 (free_off c) + 8 * N.of_nat i))
  = nth i hd 0.
Proof.
  intros Hc Hs Hi Hv. destruct (cfg_hdr_facts c Hc) as (H1 & H2 & H3 & _).
  unfold render_pheader. cbv zeta.
  set (free0 := List.hd 0 (free_off c)) in *.
  set (tail := zeros (hdr_size c - (free0 + 8 * N.of_nat (length hd))) ++ body).
  replace ((sig1 c ++ sig2 ++ zeros (free0 - 16) ++ concat (map (le_bytes 8) hd)
            ++ zeros (hdr_size c - (free0 + 8 * N.of_nat (length hd)))) ++ body)
    with ((sig1 c ++ sig2 ++ zeros (free0 - 16)) ++ (concat (map (le_bytes 8) hd) ++ tail))
    by (unfold tail; rewrite <- !app_assoc; reflexivity).
  replace free0 with (blen (sig1 c ++ sig2 ++ zeros (free0 - 16))) at 2
    by (rewrite !blen_app, blen_zeros; unfold blen; rewrite H1, Hs; lia).
  rewrite at_off_app_add.
  destruct (concat_le8_at hd i tail Hi) as [rest ->].
  apply rd_u64_app. exact Hv.
Qed.

Lemma ld_heads_render c sig2 hd body :
  cfg_ok c -> length sig2 = 8%nat -> length hd = 16%nat -> Forall (fun v => v < 2 ^ 64) hd ->
  ld_heads c (render_pheader c sig2 hd ++ body) = hd.
Proof.
  intros Hc Hs Hh Hall. destruct (cfg_hdr_facts c Hc) as (_ & _ & _ & H4).
  unfold ld_heads. rewrite H4, map_map.
  transitivity (map (fun i => nth i hd 0) (seq 0 16)); [|rewrite <- Hh; apply map_seq_nth].
  apply map_ext_in. intros i Hi. apply in_seq in Hi.
  apply rd_head; [exact Hc | exact Hs | lia |].
  apply Forall_nth; [exact Hall | lia].
Qed.

Section addressing.
Context {P : Type} (c : pcfg) (Hc : cfg_ok c) (sb : slot P -> bytes) (f : pfile P).
Hypothesis Hsb : forall o s, slots f !! o = Some s -> blen (sb s) = slot_size s.

Let body (l : list (N * slot P)) : bytes := concat (map (fun os => sb (snd os)) l).

Lemma tiles_image l : forall off,
  tiles c f off (map fst l) -> (forall o s, (o, s) ∈ l -> slots f !! o = Some s) ->
  off + blen (body l) = fend f /\
  N.of_nat (length l) <= blen (body l) /\
  forall o s, (o, s) ∈ l -> exists pre rest, body l = pre ++ sb s ++ rest /\ off + blen pre = o.
Proof.
  induction l as [|[o1 s1] l IH]; intros off Ht Hl.
  - cbn [map] in Ht. inversion Ht; subst. unfold body. cbn [map concat length]. rewrite blen_nil.
    split; [lia|]. split; [lia|]. intros o s Hin. apply elem_of_nil in Hin. destruct Hin.
  - cbn [map fst] in Ht. inversion Ht as [|off' s' l' Hs' Hv Ht' E1]; subst.
    assert (Hs1 : slots f !! o1 = Some s1) by (apply Hl; left).
    rewrite Hs1 in Hs'. injection Hs' as <-.
    destruct (IH _ Ht') as (Hlen & Hcnt & Hat); [intros o s Hin; apply Hl; right; exact Hin|].
    pose proof (valid_slot_size_facts c Hc _ Hv) as [Hge _].
    unfold body in *. cbn [map concat snd length]. rewrite blen_app, (Hsb _ _ Hs1).
    split; [lia|]. split; [lia|].
    intros o s Hin. apply elem_of_cons in Hin as [Heq | Hin].
    + injection Heq as -> ->. exists [], (concat (map (fun os => sb (snd os)) l)).
      split; [reflexivity | rewrite blen_nil; lia].
    + destruct (Hat o s Hin) as (pre & rest & E & Hoff).
      exists (sb s1 ++ pre), rest. rewrite E, <- app_assoc. split; [reflexivity|].
      rewrite blen_app, (Hsb _ _ Hs1). lia.
Qed.

Lemma render_pfile_total sig2 : AInv c f -> exists img, render_pfile c sb sig2 f = Ok img.
Proof.
  intros HA. destruct (walk_ok_stmt P c Hc f HA) as (l & Hl & _).
  unfold render_pfile. rewrite Hl. cbn [rbind]. eexists. reflexivity.
Qed.

Lemma render_pfile_at sig2 img :
  AInv c f -> length sig2 = 8%nat -> render_pfile c sb sig2 f = Ok img ->
  blen img = fend f /\
  (exists bd, img = render_pheader c sig2 (heads f) ++ bd) /\
  (forall o s, slots f !! o = Some s -> exists rest, at_off img o = sb s ++ rest) /\
  (forall lo, NoDup lo -> (forall o, o ∈ lo -> is_Some (slots f !! o)) -> (length lo <= length img)%nat).
Proof.
  intros HA Hs Hr. destruct (walk_ok_stmt P c Hc f HA) as (l & Hl & Hmem & Hnd & Ht).
  unfold render_pfile in Hr. rewrite Hl in Hr. cbn [rbind] in Hr. injection Hr as <-.
  assert (Hh : length (heads f) = 16%nat).
  { destruct HA as [frees Hi]. rewrite (ai_heads _ _ _ Hi). apply (nclasses_eq c Hc). }
  pose proof (render_pheader_length c sig2 (heads f) Hc Hs Hh) as HL.
  destruct (tiles_image l _ Ht) as (Hlen & Hcnt & Hat); [intros o s Hin; apply Hmem; exact Hin|].
  fold (body l).
  split; [rewrite blen_app, HL; exact Hlen|].
  split; [eexists; reflexivity|]. split.
  - intros o s Hos. apply Hmem in Hos. destruct (Hat o s Hos) as (pre & rest & E & Hoff).
    exists rest. rewrite E, <- Hoff, <- HL, at_off_app_add. apply at_off_app_blen.
  - intros lo Hnd' Hin.
    assert (Hsub : lo ⊆+ map fst l).
    { apply NoDup_submseteq; [exact Hnd'|]. intros x Hx. destruct (Hin x Hx) as [s Hs'].
      apply Hmem in Hs'. apply elem_of_map. exists (x, s). split; [reflexivity | exact Hs']. }
    apply submseteq_length in Hsub. rewrite map_length in Hsub.
    rewrite app_length. unfold blen in Hcnt. lia.
Qed.

End addressing.

(** ** 4. chains and free lists *)

Definition slot_at {P} (f : pfile P) (off : N) : slot P := default (Free 0 0) (slots f !! off).
Definition tag_slots {P} (f : pfile P) (l : list N) : list (N * slot P) :=
  map (fun off => (off, slot_at f off)) l.

Lemma slot_at_eq {P} (f : pfile P) off sl : slots f !! off = Some sl -> slot_at f off = sl.
Proof. intros H. unfold slot_at. rewrite H. reflexivity. Qed.

Lemma tag_slots_mem {P} (f : pfile P) l o sl :
  (o, sl) ∈ tag_slots f l <-> o ∈ l /\ sl = slot_at f o.
Proof.
  unfold tag_slots. rewrite elem_of_map. split.
  - intros (x & Heq & Hx). injection Heq as -> ->. auto.
  - intros (Ho & ->). exists o. auto.
Qed.

Lemma ld_chain_seg (kf : pfile krec) img :
  (forall off sz r, slots kf !! off = Some (Used sz r) -> p_kslot (at_off img off) = Ok (Used sz r)) ->
  forall l h, seg (used kf) h l 0 -> forall fuel, (length l <= fuel)%nat ->
  ld_chain fuel img h = Ok (tag_slots kf l).
Proof.
  intros Hp l. induction l as [|o l IH]; intros h Hs fuel Hf.
  - apply seg_nil_inv in Hs. subst h. destruct fuel; reflexivity.
  - apply seg_cons_inv in Hs as (-> & Hnz & r & Hr & Hs).
    apply Refine_relink.used_lookup in Hr as (sz & Hr).
    destruct fuel as [|fuel]; [cbn [length] in Hf; lia|]. cbn [ld_chain].
    destruct (N.eqb_spec o 0) as [E|_]; [contradiction|].
    rewrite (Hp _ _ _ Hr). cbn [rbind].
    rewrite (IH _ Hs fuel) by (cbn [length] in Hf; lia). cbn [rbind].
    unfold tag_slots. cbn [map]. rewrite (slot_at_eq _ _ _ Hr). reflexivity.
Qed.

Lemma ld_free_flist {P} (f : pfile P) img :
  (forall off sz nxt, slots f !! off = Some (Free sz nxt) ->
     @p_free P (at_off img off) = Ok (Free sz nxt)) ->
  forall h l, flist f h l -> forall fuel, (length l <= fuel)%nat ->
  ld_free fuel img h = Ok (tag_slots f l).
Proof.
  intros Hp h l Hl. induction Hl as [|off sz nxt l Hnz Hs Hl IH]; intros fuel Hf.
  - destruct fuel; reflexivity.
  - destruct fuel as [|fuel]; [cbn [length] in Hf; lia|]. cbn [ld_free].
    destruct (N.eqb_spec off 0) as [E|_]; [contradiction|].
    rewrite (Hp _ _ _ Hs). cbn [rbind].
    rewrite (IH fuel) by (cbn [length] in Hf; lia). cbn [rbind].
    unfold tag_slots. cbn [map]. rewrite (slot_at_eq _ _ _ Hs). reflexivity.
Qed.

Lemma flist_next_ok {P} (f : pfile P) h l :
  flist f h l -> forall x sz nxt, x ∈ l -> slots f !! x = Some (Free sz nxt) ->
  nxt = 0 \/ is_Some (slots f !! nxt).
Proof.
  induction 1 as [|off sz nxt l Hnz Hs Hl IH]; intros x sz' nxt' Hx Hsx.
  - apply elem_of_nil in Hx. destruct Hx.
  - apply elem_of_cons in Hx as [-> | Hx]; [|exact (IH _ _ _ Hx Hsx)].
    rewrite Hs in Hsx. injection Hsx as <- <-.
    destruct (flist_inv _ _ _ Hl) as [[-> _] | (sz2 & nxt2 & l' & _ & _ & Hs2 & _)]; [left; reflexivity|].
    right. eauto.
Qed.

Lemma concat_res_map {A B} (g : A -> res (list B)) (g' : A -> list B) l :
  (forall x, x ∈ l -> g x = Ok (g' x)) -> concat_res (map g l) = Ok (concat (map g' l)).
Proof.
  induction l as [|a l IH]; intros H; [reflexivity|].
  cbn [map concat_res concat]. rewrite (H a) by left. cbn [rbind].
  rewrite IH by (intros x Hx; apply H; right; exact Hx). reflexivity.
Qed.

Lemma list_to_map_eq {A} (L : list (N * A)) (m : gmap N A) :
  (forall o a, (o, a) ∈ L <-> m !! o = Some a) -> list_to_map L = m.
Proof.
  intros H. apply map_eq. intros o. destruct (m !! o) as [a|] eqn:E.
  - apply elem_of_list_to_map_1'; [|apply H; exact E].
    intros y Hy. apply H in Hy. congruence.
  - apply not_elem_of_list_to_map_1. intros Hin.
    apply elem_of_list_fmap in Hin as ([o' a] & -> & Hin). cbn [fst] in E.
    apply H in Hin. congruence.
Qed.

Lemma elem_of_seqN' i n : i ∈ seqN' 0 n <-> i < N.of_nat n.
Proof.
  unfold seqN'. rewrite elem_of_map. split.
  - intros (x & -> & Hx). apply elem_of_list_In, in_seq in Hx. lia.
  - intros Hi. exists (N.to_nat i). split; [lia|]. apply elem_of_list_In, in_seq. lia.
Qed.

Lemma pow31_lt_pow64 : 2 ^ 31 < 2 ^ 64.
Proof. reflexivity. Qed.

(** a free slot always fits *)
Lemma free_fits sz : 16 <= sz -> enc_len (sz / 8) + blen (free_body 0) <= sz.
Proof.
  intros H. change (blen (free_body 0)) with 9.
  pose proof (Vu64_proofs.enc_len_cases (sz / 8)) as Hc.
  pose proof (N.div_mod sz 8). pose proof (N.mod_lt sz 8). lia.
Qed.

(** *** a rendered piece file: the header fields and the free lists read back *)
Section piece.
Context {P : Type} (c : pcfg) (Hc : cfg_ok c) (sb : slot P -> bytes) (f : pfile P)
  (frees : nat -> list N) (Hi : alloc_inv c f frees)
  (sig2 : bytes) (Hs : length sig2 = 8%nat) (img : bytes)
  (Hr : render_pfile c sb sig2 f = Ok img) (Hfe : fend f < 2 ^ 64)
  (Hsb : forall o s, slots f !! o = Some s -> blen (sb s) = slot_size s)
  (Hfree : forall sz nxt, sb (Free sz nxt) = slot_bytes sz (free_body nxt)).

Let HA : AInv c f := ex_intro _ frees Hi.
Let Hat := render_pfile_at c Hc sb f Hsb sig2 img HA Hs Hr.

Lemma pc_blen : blen img = fend f.
Proof. exact (proj1 Hat). Qed.

Lemma pc_at o s : slots f !! o = Some s -> exists rest, at_off img o = sb s ++ rest.
Proof. destruct Hat as (_ & _ & H & _). apply H. Qed.

Lemma pc_fuel lo : NoDup lo -> (forall o, o ∈ lo -> is_Some (slots f !! o)) -> (length lo <= length img)%nat.
Proof. destruct Hat as (_ & _ & _ & H). apply H. Qed.

Lemma pc_slot o s : slots f !! o = Some s ->
  o mod 8 = 0 /\ o < 2 ^ 64 /\ 16 <= slot_size s /\ slot_size s mod 8 = 0 /\ slot_size s < 2 ^ 64.
Proof.
  intros Hs'. destruct (inv_slot c Hc _ _ _ _ Hi Hs') as (_ & Hm & Hv & Hle).
  destruct (valid_slot_size_facts c Hc _ Hv) as [H16 H8]. repeat split; try assumption; lia.
Qed.

Lemma pc_head_lt i : (i < 16)%nat -> head_of f i < 2 ^ 64.
Proof.
  intros Hlt. rewrite <- (nclasses_eq c Hc) in Hlt.
  pose proof (ai_lists _ _ _ Hi i Hlt) as Hl.
  destruct (flist_inv _ _ _ Hl) as [[-> _] | (sz & nxt & l' & _ & _ & Hs' & _)]; [reflexivity|].
  apply (pc_slot _ _ Hs').
Qed.

Lemma pc_heads_len : length (heads f) = 16%nat.
Proof. rewrite (ai_heads _ _ _ Hi). apply (nclasses_eq c Hc). Qed.

Lemma pc_heads : ld_heads c img = heads f.
Proof.
  destruct Hat as (_ & (bd & Hbd) & _). rewrite Hbd.
  apply ld_heads_render; [exact Hc | exact Hs | exact pc_heads_len |].
  apply (Forall_nth _ 0). intros i Hlt. rewrite pc_heads_len in Hlt.
  apply (pc_head_lt i Hlt).
Qed.

Lemma pc_free_listed off sz nxt : slots f !! off = Some (Free sz nxt) ->
  exists i, (i < 16)%nat /\ off ∈ frees i.
Proof.
  intros Hs'. destruct (ai_listed _ _ _ Hi _ _ _ Hs') as (i & Hlt & Hin).
  rewrite (nclasses_eq c Hc) in Hlt. eauto.
Qed.

Lemma pc_pfree off sz nxt : slots f !! off = Some (Free sz nxt) ->
  @p_free P (at_off img off) = Ok (Free sz nxt).
Proof.
  intros Hs'. destruct (pc_at _ _ Hs') as [rest ->]. rewrite Hfree.
  destruct (pc_slot _ _ Hs') as (_ & _ & _ & H8 & Hlt). cbn [slot_size] in H8, Hlt.
  apply p_free_image; [exact H8 | exact Hlt |].
  destruct (pc_free_listed _ _ _ Hs') as (i & Hlt' & Hin).
  rewrite <- (nclasses_eq c Hc) in Hlt'.
  destruct (flist_next_ok _ _ _ (ai_lists _ _ _ Hi i Hlt') _ _ _ Hin Hs') as [-> | [s' Hs2]];
    [reflexivity|].
  apply (pc_slot _ _ Hs2).
Qed.

Definition free_image : list (N * slot P) :=
  concat (map (fun i => tag_slots f (frees i)) (seq 0 16)).

Lemma pc_frees : ld_frees c img = Ok free_image.
Proof.
  unfold ld_frees. rewrite pc_heads.
  rewrite <- (map_seq_nth (heads f) 0) at 1. rewrite pc_heads_len, map_map.
  apply concat_res_map. intros i Hin. apply elem_of_list_In, in_seq in Hin.
  assert (Hlt : (i < nclasses c)%nat) by (rewrite (nclasses_eq c Hc); lia).
  apply (ld_free_flist f img pc_pfree _ _ (ai_lists _ _ _ Hi i Hlt)).
  apply pc_fuel.
  - pose proof (ai_nodup _ _ _ Hi) as Hnd. apply (inv_nodup_iff c Hc) in Hnd as [Hnd _].
    apply Hnd. lia.
  - intros o Ho. assert (Hlt16 : (i < 16)%nat) by lia.
    destruct (inv_free_elem c Hc _ _ _ _ Hi Hlt16 Ho) as (_ & sz & nxt & E & _).
    rewrite E. eauto.
Qed.

Lemma pc_free_mem o sl :
  (o, sl) ∈ free_image <-> slots f !! o = Some sl /\ exists sz nxt, sl = Free sz nxt.
Proof.
  unfold free_image. rewrite elem_of_concat. split.
  - intros (l & Hl & Hin). apply elem_of_map in Hl as (i & -> & Hi').
    apply elem_of_list_In, in_seq in Hi'. apply tag_slots_mem in Hin as [Hin ->].
    assert (Hlt16 : (i < 16)%nat) by lia.
    destruct (inv_free_elem c Hc _ _ _ _ Hi Hlt16 Hin) as (_ & sz & nxt & E & _).
    rewrite (slot_at_eq _ _ _ E). eauto.
  - intros (Hs' & sz & nxt & ->). destruct (pc_free_listed _ _ _ Hs') as (i & Hlt & Hin).
    exists (tag_slots f (frees i)). split.
    + apply elem_of_map. exists i. split; [reflexivity|]. apply elem_of_list_In, in_seq. lia.
    + apply tag_slots_mem. split; [exact Hin|]. symmetry. apply slot_at_eq. exact Hs'.
Qed.

End piece.

(** ** 5. the three files of a store *)

(** every record fits the slot it lives in.  NOT part of [Inv] (which says nothing on the
    relation of a slot's size to its payload); established by [create] and kept by [put] / [del]
    (section 7).  Without it [slot_bytes] produces an image longer than the slot and the
    addresses of all later slots shift. *)
Definition fits_ok (s : store) : Prop :=
  (forall off sz r, slots (keyf s) !! off = Some (Used sz r) ->
     key_real_len sz (blen (k_key r)) (k_voff r) (k_next r) <= sz) /\
  (forall off sz v, slots (valf s) !! off = Some (Used sz v) -> val_real_len sz (blen v) <= sz).

Lemma blen_key_body k voff noff :
  blen (key_body k voff noff) = enc_len (blen k) + blen k + enc_len (voff / 8) + enc_len (noff / 8).
Proof. unfold key_body. rewrite !blen_app, !blen_encode. lia. Qed.

Lemma blen_val_body v : blen (val_body v) = enc_len (blen v) + blen v.
Proof. unfold val_body. rewrite !blen_app, !blen_encode. lia. Qed.

Lemma free_slot_len sz nxt : 16 <= sz -> blen (slot_bytes sz (free_body nxt)) = sz.
Proof. intros H. apply slot_bytes_length_gen. apply (free_fits sz H). Qed.

(** every record of a chain links to 0 or to another record *)
Lemma seg_next_ok kh h l x : seg kh h l x -> forall o r, o ∈ l -> kh !! o = Some r ->
  k_next r = x \/ is_Some (kh !! k_next r).
Proof.
  induction 1 as [h0|off r l x Hnz Hr Hs IH]; intros o r' Ho Hr'.
  - apply elem_of_nil in Ho. destruct Ho.
  - apply elem_of_cons in Ho as [-> | Ho]; [|exact (IH _ _ Ho Hr')].
    rewrite Hr in Hr'. injection Hr' as <-. destruct l as [|o' l].
    + apply seg_nil_inv in Hs. left. congruence.
    + apply seg_cons_inv in Hs as (-> & _ & r2 & Hr2 & _). right. eauto.
Qed.

Fixpoint vals_of (vf : pfile bytes) (ks : list (N * slot krec)) : list (N * slot bytes) :=
  match ks with
  | [] => []
  | (_, Used _ r) :: ks' => (k_voff r, slot_at vf (k_voff r)) :: vals_of vf ks'
  | (_, Free _ _) :: ks' => vals_of vf ks'
  end.

Lemma vals_of_mem vf ks vo sl :
  (vo, sl) ∈ vals_of vf ks <->
  exists o sz r, (o, Used sz r) ∈ ks /\ vo = k_voff r /\ sl = slot_at vf vo.
Proof.
  induction ks as [|[o [sz r|sz nxt]] ks IH]; cbn [vals_of].
  - split; [intros H; apply elem_of_nil in H; destruct H|].
    intros (o & sz & r & H & _). apply elem_of_nil in H. destruct H.
  - rewrite elem_of_cons, IH. split.
    + intros [Heq | (o' & sz' & r' & Hin & Hv & Hs)].
      * injection Heq as -> ->. exists o, sz, r. split; [left|]; auto.
      * exists o', sz', r'. split; [right; exact Hin|]. auto.
    + intros (o' & sz' & r' & Hin & Hv & Hs). apply elem_of_cons in Hin as [Heq | Hin].
      * injection Heq as -> -> ->. left. congruence.
      * right. exists o', sz', r'. auto.
  - rewrite IH. split.
    + intros (o' & sz' & r' & Hin & Hv & Hs). exists o', sz', r'. split; [right; exact Hin|]. auto.
    + intros (o' & sz' & r' & Hin & Hv & Hs). apply elem_of_cons in Hin as [Heq | Hin];
        [discriminate Heq|]. exists o', sz', r'. auto.
Qed.

Lemma ld_vals_ok (vf : pfile bytes) img ks :
  (forall o sz r, (o, Used sz r) ∈ ks -> exists szv v, slots vf !! k_voff r = Some (Used szv v)) ->
  (forall off sz v, slots vf !! off = Some (Used sz v) -> p_vslot (at_off img off) = Ok (Used sz v)) ->
  ld_vals img ks = Ok (vals_of vf ks).
Proof.
  intros Hk Hp. induction ks as [|[o [sz r|sz nxt]] ks IH]; cbn [ld_vals vals_of].
  - reflexivity.
  - destruct (Hk o sz r) as (szv & v & Hv); [left|].
    rewrite (Hp _ _ _ Hv). cbn [rbind].
    rewrite IH by (intros o' sz' r' Hin; apply (Hk o'  sz' r'); right; exact Hin). cbn [rbind].
    rewrite (slot_at_eq _ _ _ Hv). reflexivity.
  - apply IH. intros o' sz' r' Hin. apply (Hk o' sz' r'). right. exact Hin.
Qed.

Section store.
Context (s : store) (ch : N -> list N) (Hinv : sinv s ch) (Hfit : fits_ok s) (H64 : fits64 s).
Context (kfr vfr : nat -> list N)
  (Hki : alloc_inv key_cfg (keyf s) kfr) (Hvi : alloc_inv val_cfg (valf s) vfr).
Context (kimg vimg : bytes).
Hypothesis Hrk : render_pfile key_cfg kslot_bytes (sig_of (kt s)) (keyf s) = Ok kimg.
Hypothesis Hrv : render_pfile val_cfg vslot_bytes (sig_of (kt s)) (valf s) = Ok vimg.

Let Hcore : core s ch None := proj1 Hinv.
Let HKA : AInv key_cfg (keyf s) := ex_intro _ kfr Hki.
Let HVA : AInv val_cfg (valf s) := ex_intro _ vfr Hvi.
Let Hsg : length (sig_of (kt s)) = 8%nat := sig_of_length (kt s).

Lemma st_kfe : fend (keyf s) < 2 ^ 64.
Proof. apply H64. Qed.
Lemma st_vfe : fend (valf s) < 2 ^ 64.
Proof. apply H64. Qed.

Lemma kslot_len_ok o sl : slots (keyf s) !! o = Some sl -> blen (kslot_bytes sl) = slot_size sl.
Proof.
  intros Hs. destruct (inv_slot key_cfg key_cfg_ok _ _ _ _ Hki Hs) as (_ & _ & Hv & _).
  destruct (valid_slot_size_facts key_cfg key_cfg_ok _ Hv) as [H16 _].
  destruct sl as [sz r|sz nxt]; cbn [kslot_bytes slot_size] in *.
  - apply slot_bytes_length_gen. rewrite blen_key_body.
    pose proof (proj1 Hfit _ _ _ Hs) as F. unfold key_real_len in F. lia.
  - apply free_slot_len. exact H16.
Qed.

Lemma vslot_len_ok o sl : slots (valf s) !! o = Some sl -> blen (vslot_bytes sl) = slot_size sl.
Proof.
  intros Hs. destruct (inv_slot val_cfg val_cfg_ok _ _ _ _ Hvi Hs) as (_ & _ & Hv & _).
  destruct (valid_slot_size_facts val_cfg val_cfg_ok _ Hv) as [H16 _].
  destruct sl as [sz v|sz nxt]; cbn [vslot_bytes slot_size] in *.
  - apply slot_bytes_length_gen. rewrite blen_val_body.
    pose proof (proj2 Hfit _ _ _ Hs) as F. unfold val_real_len in F. lia.
  - apply free_slot_len. exact H16.
Qed.

Lemma kfree_eq sz nxt : kslot_bytes (Free sz nxt) = slot_bytes sz (free_body nxt).
Proof. reflexivity. Qed.
Lemma vfree_eq sz nxt : vslot_bytes (Free sz nxt) = slot_bytes sz (free_body nxt).
Proof. reflexivity. Qed.

Local Notation KP1 L :=
  (L krec key_cfg key_cfg_ok kslot_bytes (keyf s) kfr Hki (sig_of (kt s)) Hsg kimg Hrk kslot_len_ok).
Local Notation KP2 L :=
  (L krec key_cfg key_cfg_ok kslot_bytes (keyf s) kfr Hki (sig_of (kt s)) Hsg kimg Hrk st_kfe
     kslot_len_ok kfree_eq).
Local Notation VP1 L :=
  (L bytes val_cfg val_cfg_ok vslot_bytes (valf s) vfr Hvi (sig_of (kt s)) Hsg vimg Hrv vslot_len_ok).
Local Notation VP2 L :=
  (L bytes val_cfg val_cfg_ok vslot_bytes (valf s) vfr Hvi (sig_of (kt s)) Hsg vimg Hrv st_vfe
     vslot_len_ok vfree_eq).

(** facts about offsets stored in key records *)
Lemma st_kheap off r : kheap s !! off = Some r -> exists sz, slots (keyf s) !! off = Some (Used sz r).
Proof. intros H. apply Refine_relink.used_lookup in H. exact H. Qed.

Lemma st_next_ok off r : kheap s !! off = Some r ->
  k_next r mod 8 = 0 /\ k_next r < 2 ^ 64.
Proof.
  intros Hr.
  destruct (co_reach _ _ _ Hcore _ _ Hr) as [Hin | Ho]; [|discriminate Ho].
  pose proof (home_lt s (k_key r) (co_n _ _ _ Hcore)) as Hb.
  pose proof (proj2 Hinv _ Hb) as Hl. unfold links_ok, chain in Hl.
  destruct (seg_next_ok _ _ _ _ Hl _ _ Hin Hr) as [-> | [r2 Hr2]]; [split; reflexivity|].
  destruct (st_kheap _ _ Hr2) as [sz2 Hs2].
  destruct (KP2 (@pc_slot) _ _ Hs2) as (H8 & Hlt & _). auto.
Qed.

Lemma st_voff_ok off r : kheap s !! off = Some r ->
  k_voff r mod 8 = 0 /\ k_voff r < 2 ^ 64 /\
  exists szv v, slots (valf s) !! k_voff r = Some (Used szv v).
Proof.
  intros Hr. destruct (co_val _ _ _ Hcore _ _ Hr) as [v Hv].
  apply Refine_relink.used_lookup in Hv as [szv Hv].
  destruct (VP2 (@pc_slot) _ _ Hv) as (H8 & Hlt & _). eauto 6.
Qed.

Lemma st_kparse off sz r : slots (keyf s) !! off = Some (Used sz r) ->
  p_kslot (at_off kimg off) = Ok (Used sz r).
Proof.
  intros Hs. destruct (KP1 (@pc_at) _ _ Hs) as [rest ->].
  destruct (KP2 (@pc_slot) _ _ Hs) as (_ & _ & _ & H8 & Hlt). cbn [slot_size] in H8, Hlt.
  assert (Hr : kheap s !! off = Some r) by (apply Refine_relink.used_lookup; eauto).
  destruct (st_next_ok _ _ Hr) as [Hn8 Hn]. destruct (st_voff_ok _ _ Hr) as (Hv8 & Hv & _).
  destruct (co_kwf _ _ _ Hcore _ _ Hr) as (_ & Hk & _).
  destruct r as [k voff noff]. cbn [kslot_bytes k_key k_voff k_next] in *.
  apply p_kslot_image; try assumption. pose proof pow31_lt_pow64. lia.
Qed.

Lemma st_vparse off sz v : slots (valf s) !! off = Some (Used sz v) ->
  p_vslot (at_off vimg off) = Ok (Used sz v).
Proof.
  intros Hs. destruct (VP1 (@pc_at) _ _ Hs) as [rest ->].
  destruct (VP2 (@pc_slot) _ _ Hs) as (_ & _ & _ & H8 & Hlt). cbn [slot_size] in H8, Hlt.
  assert (Hv : vheap s !! off = Some v) by (apply Refine_relink.used_lookup; eauto).
  destruct (co_vwf _ _ _ Hcore _ _ Hv) as (_ & Hk).
  cbn [vslot_bytes]. apply p_vslot_image; try assumption. pose proof pow31_lt_pow64. lia.
Qed.

(** the chains *)
Definition key_image : list (N * slot krec) :=
  concat (map (fun b => tag_slots (keyf s) (ch b)) (seqN' 0 (N.to_nat (nb (hx s))))).

Lemma st_chains :
  concat_res (map (fun i => ld_chain (length kimg) kimg (head_at (hx s) i))
                  (seqN' 0 (N.to_nat (nb (hx s))))) = Ok key_image.
Proof.
  apply concat_res_map. intros b Hb. apply elem_of_seqN' in Hb. rewrite N2Nat.id in Hb.
  apply (ld_chain_seg (keyf s) kimg st_kparse _ _ (proj2 Hinv _ Hb)).
  apply (KP1 (@pc_fuel)).
  - exact (co_nodup _ _ _ Hcore _ Hb).
  - intros o Ho. destruct (co_in _ _ _ Hcore _ _ Hb Ho) as [r Hr].
    destruct (st_kheap _ _ Hr) as [sz Hs]. rewrite Hs. eauto.
Qed.

Lemma key_image_mem o sl :
  (o, sl) ∈ key_image <-> slots (keyf s) !! o = Some sl /\ exists sz r, sl = Used sz r.
Proof.
  unfold key_image. rewrite elem_of_concat. split.
  - intros (l & Hl & Hin). apply elem_of_map in Hl as (b & -> & Hb).
    apply elem_of_seqN' in Hb. rewrite N2Nat.id in Hb.
    apply tag_slots_mem in Hin as [Hin ->].
    destruct (co_in _ _ _ Hcore _ _ Hb Hin) as [r Hr]. destruct (st_kheap _ _ Hr) as [sz Hs].
    rewrite (slot_at_eq _ _ _ Hs). eauto.
  - intros (Hs & sz & r & ->).
    assert (Hr : kheap s !! o = Some r) by (apply Refine_relink.used_lookup; eauto).
    destruct (co_reach _ _ _ Hcore _ _ Hr) as [Hin | Ho]; [|discriminate Ho].
    pose proof (home_lt s (k_key r) (co_n _ _ _ Hcore)) as Hb.
    exists (tag_slots (keyf s) (ch (home s (k_key r)))). split.
    + apply elem_of_map. exists (home s (k_key r)). split; [reflexivity|].
      apply elem_of_seqN'. rewrite N2Nat.id. exact Hb.
    + apply tag_slots_mem. split; [exact Hin|]. symmetry. apply slot_at_eq. exact Hs.
Qed.

Lemma pfile_ext {P} (f : pfile P) m : m = slots f -> PFile m (heads f) (fend f) = f.
Proof. intros ->. destruct f; reflexivity. Qed.

Lemma st_ld_keyf : ld_keyf (hx s) kimg = Ok (keyf s).
Proof.
  unfold ld_keyf. rewrite st_chains. cbn [rbind].
  rewrite (KP2 (@pc_frees)). cbn [rbind].
  rewrite (KP2 (@pc_heads)), (KP1 (@pc_blen)).
  f_equal. apply pfile_ext.
  apply list_to_map_eq. intros o sl.
  rewrite elem_of_app, key_image_mem, (KP2 (@pc_free_mem)). split.
  - intros [[H _] | [H _]]; exact H.
  - intros H. destruct sl as [sz r|sz nxt]; [left | right]; eauto.
Qed.

Lemma val_image_mem vo sl :
  (vo, sl) ∈ vals_of (valf s) key_image <->
  slots (valf s) !! vo = Some sl /\ exists sz v, sl = Used sz v.
Proof.
  rewrite vals_of_mem. split.
  - intros (o & sz & r & Hin & -> & ->). apply key_image_mem in Hin as [Hs _].
    assert (Hr : kheap s !! o = Some r) by (apply Refine_relink.used_lookup; eauto).
    destruct (st_voff_ok _ _ Hr) as (_ & _ & szv & v & Hv).
    rewrite (slot_at_eq _ _ _ Hv). eauto.
  - intros (Hs & sz & v & ->).
    assert (Hv : vheap s !! vo = Some v) by (apply Refine_relink.used_lookup; eauto).
    destruct (co_vown _ _ _ Hcore _ _ Hv) as (off & r & Hr & <-).
    destruct (st_kheap _ _ Hr) as [szk Hk].
    exists off, szk, r. split; [apply key_image_mem; eauto|].
    split; [reflexivity|]. symmetry. apply slot_at_eq. exact Hs.
Qed.

Lemma st_ld_valf : ld_valf (hx s) kimg vimg = Ok (valf s).
Proof.
  unfold ld_valf. rewrite st_chains. cbn [rbind].
  rewrite (ld_vals_ok (valf s) vimg key_image).
  2:{ intros o sz r Hin. apply key_image_mem in Hin as [Hs _].
      assert (Hr : kheap s !! o = Some r) by (apply Refine_relink.used_lookup; eauto).
      apply (st_voff_ok _ _ Hr). }
  2:{ exact st_vparse. }
  cbn [rbind]. rewrite (VP2 (@pc_frees)). cbn [rbind].
  rewrite (VP2 (@pc_heads)), (VP1 (@pc_blen)).
  f_equal. apply pfile_ext.
  apply list_to_map_eq. intros o sl.
  rewrite elem_of_app, val_image_mem, (VP2 (@pc_free_mem)). split.
  - intros [[H _] | [H _]]; exact H.
  - intros H. destruct sl as [sz r|sz nxt]; [left | right]; eauto.
Qed.

(** every bucket head fits 64 bits *)
Lemma st_buckets_lt i v : htx_wf (hx s) -> buckets (hx s) !! i = Some v -> v < 2 ^ 64.
Proof.
  intros Hwf Hb. destruct (proj1 Hwf _ _ Hb) as [Hnz Hi].
  pose proof (proj2 Hinv _ Hi) as Hl. unfold links_ok, chain, head_at in Hl.
  rewrite Hb in Hl. change (default 0 (Some v)) with v in Hl.
  destruct (ch i) as [|o l].
  { apply seg_nil_inv in Hl. congruence. }
  apply seg_cons_inv in Hl as (-> & _ & r & Hr & _).
  destruct (st_kheap _ _ Hr) as [sz Hs2].
  apply (KP2 (@pc_slot) _ _ Hs2).
Qed.

End store.

(** ** the round trip *)

(** the table file: proved separately, taken as an explicit hypothesis here *)
Definition ld_htx_stmt : Prop :=
  forall sig2 h, length sig2 = 8%nat -> htx_wf h -> bitmap_ok h -> 1 <= nb h ->
    nb h < 2 ^ 64 -> count h < 2 ^ 64 -> hend h < 2 ^ 64 ->
    (forall i v, buckets h !! i = Some v -> v < 2 ^ 64) -> ld_htx (render_htx sig2 h) = h.

Theorem render_total s : Inv s -> exists imgs, render s = Ok imgs.
Proof.
  intros (ch & Hcore & _). unfold render. cbv zeta.
  destruct (render_pfile_total key_cfg key_cfg_ok kslot_bytes (keyf s) (sig_of (kt s))
              (co_k _ _ _ Hcore)) as [k Hk].
  destruct (render_pfile_total val_cfg val_cfg_ok vslot_bytes (valf s) (sig_of (kt s))
              (co_v _ _ _ Hcore)) as [v Hv].
  rewrite Hk. cbn [rbind]. rewrite Hv. cbn [rbind]. eexists. reflexivity.
Qed.

Theorem load_render (Hhtx : ld_htx_stmt) s imgs :
  Inv s -> fits_ok s -> htx_wf (hx s) -> fits64 s -> render s = Ok imgs ->
  exists s', load (kt s) imgs = Ok s' /\
     kt s' = kt s /\ hx s' = hx s /\ keyf s' = keyf s /\ valf s' = valf s.
Proof.
  intros (ch & Hinv) Hfit Hwf H64 Hr. pose proof Hinv as [Hcore Hlinks].
  destruct (co_k _ _ _ Hcore) as [kfr Hki]. destruct (co_v _ _ _ Hcore) as [vfr Hvi].
  unfold render in Hr. cbv zeta in Hr.
  destruct (render_pfile key_cfg kslot_bytes (sig_of (kt s)) (keyf s)) as [kimg| | |] eqn:Hrk;
    cbn [rbind] in Hr; try discriminate Hr.
  destruct (render_pfile val_cfg vslot_bytes (sig_of (kt s)) (valf s)) as [vimg| | |] eqn:Hrv;
    cbn [rbind] in Hr; try discriminate Hr.
  injection Hr as <-.
  assert (Hh : ld_htx (render_htx (sig_of (kt s)) (hx s)) = hx s).
  { pose proof H64 as (A & B & C & _).
    apply Hhtx; try assumption.
    - apply sig_of_length.
    - exact (co_bm _ _ _ Hcore).
    - exact (co_n _ _ _ Hcore).
    - intros i v Hb. exact (st_buckets_lt s ch Hinv Hfit H64 kfr Hki kimg Hrk i v Hwf Hb). }
  unfold load. cbv beta iota zeta. rewrite Hh.
  rewrite (st_ld_keyf s ch Hinv Hfit H64 kfr vfr Hki Hvi kimg vimg Hrk Hrv). cbn [rbind].
  rewrite (st_ld_valf s ch Hinv Hfit H64 kfr vfr Hki Hvi kimg vimg Hrk Hrv). cbn [rbind].
  eexists. split; [reflexivity|]. cbn [kt hx keyf valf]. auto.
Qed.

(** *** the contents an independent reader recovers are the contents of the map *)

Lemma map_to_list_omap {A B} (g : A -> option B) (m : gmap N A) :
  map_to_list (omap g m) ≡ₚ omap (fun oa : N * A => (fun b => (oa.1, b)) <$> g oa.2) (map_to_list m).
Proof.
  induction m as [|i x m Hnone IH] using map_ind.
  - rewrite omap_empty, !map_to_list_empty. reflexivity.
  - rewrite (map_to_list_insert m i x Hnone). cbn [omap list_omap fst snd].
    destruct (g x) as [b|] eqn:E; cbn [fmap option_fmap option_map].
    + rewrite (omap_insert_Some g m i x b E).
      rewrite map_to_list_insert by (rewrite lookup_omap, Hnone; reflexivity).
      rewrite IH. reflexivity.
    + rewrite (omap_insert_None g m i x E).
      rewrite delete_notin by (rewrite lookup_omap, Hnone; reflexivity).
      exact IH.
Qed.

Lemma omap_map_ext {A B C} (F : A -> option C) (h : A -> option B) (G : B -> C) l :
  (forall x, x ∈ l -> F x = G <$> h x) -> omap F l = map G (omap h l).
Proof.
  induction l as [|a l IH]; intros H; [reflexivity|].
  cbn [omap list_omap]. rewrite (H a) by left.
  rewrite IH by (intros x Hx; apply H; right; exact Hx).
  destruct (h a); reflexivity.
Qed.

Lemma contents_perm s m : Inv s -> represents s m ->
  exists l, contents s = Ok l /\ l ≡ₚ map_to_list m.
Proof.
  intros (ch & Hcore & _) Hrep. unfold contents. cbn [rbind]. eexists. split; [reflexivity|].
  rewrite (map_kheap_perm s ch None m Hcore Hrep).
  unfold kheap. rewrite used_omap, map_to_list_omap.
  erewrite omap_map_ext; [reflexivity|].
  intros [o [sz r|sz nxt]] Hin; cbn [fst snd payload fmap option_fmap option_map]; [|reflexivity].
  apply elem_of_map_to_list in Hin.
  assert (Hr : kheap s !! o = Some r) by (apply Refine_relink.used_lookup; eauto).
  pose proof (v_of_lookup s ch None Hcore o r Hr) as Hv.
  apply Refine_relink.used_lookup in Hv as [szv Hv]. rewrite Hv. reflexivity.
Qed.

Corollary load_contents (Hhtx : ld_htx_stmt) s m imgs :
  Inv s -> fits_ok s -> htx_wf (hx s) -> fits64 s -> represents s m -> render s = Ok imgs ->
  exists s' l, load (kt s) imgs = Ok s' /\ contents s' = Ok l /\ l ≡ₚ map_to_list m.
Proof.
  intros HI Hfit Hwf H64 Hrep Hr.
  destruct (load_render Hhtx s imgs HI Hfit Hwf H64 Hr) as (s' & Hl & _ & _ & Hk & Hv).
  destruct (contents_perm s m HI Hrep) as (l & Hc & Hp).
  exists s', l. split; [exact Hl|]. split; [|exact Hp].
  unfold contents in *. rewrite Hk, Hv. exact Hc.
Qed.

(** ** 7. [fits_ok] is an invariant of the store operations

    Every record is written by [write_piece] into a slot of a valid size that is at least the
    rounded need of the record ([write_new_spec] / [write_old_spec]); such a slot holds the
    record ([Sizing_proofs.key_fits_gen] / [val_fits_gen] + [fits_mono]).  All other slots keep
    size and payload.  The lemmas are conditional on the operation returning [Ok]: they need the
    allocator invariant of the two files but neither the chains nor well-formed keys. *)

(** the two C09 corollaries without their (unused) bounds *)
Lemma key_fits_any klen voff noff S' :
  valid_slot_size key_cfg S' -> roundup key_cfg (key_need klen voff noff) <= S' ->
  key_real_len S' klen voff noff <= S'.
Proof.
  intros V' Hle.
  pose proof (key_fits_gen klen voff noff) as H.
  assert (V : valid_slot_size key_cfg (roundup key_cfg (key_need klen voff noff)))
    by (apply roundup_valid; [now left | apply Sizing_proofs.key_need_pos]).
  revert H V Hle. generalize (roundup key_cfg (key_need klen voff noff)). intros S0 H V Hle.
  unfold key_real_len in *.
  pose proof (fits_mono key_cfg S0 S'
                (enc_len klen + klen + enc_len (voff / 8) + enc_len (noff / 8))
                (or_introl eq_refl) V V' Hle) as F.
  clear V V' Hle. revert H F.
  generalize (enc_len (S0 / 8)) (enc_len (S' / 8)) (enc_len klen)
             (enc_len (voff / 8)) (enc_len (noff / 8)).
  intros e0 e' ek ev en H F. lia.
Qed.

Lemma val_fits_any len S' :
  valid_slot_size val_cfg S' -> roundup val_cfg (val_need len) <= S' -> val_real_len S' len <= S'.
Proof.
  intros V' Hle.
  pose proof (val_fits_gen len) as H.
  assert (V : valid_slot_size val_cfg (roundup val_cfg (val_need len)))
    by (apply roundup_valid; [now right | apply Sizing_proofs.val_need_pos]).
  revert H V Hle. generalize (roundup val_cfg (val_need len)). intros S0 H V Hle.
  unfold val_real_len in *.
  pose proof (fits_mono val_cfg S0 S' (enc_len len + len) (or_intror eq_refl) V V' Hle) as F.
  clear V V' Hle. revert H F.
  generalize (enc_len (S0 / 8)) (enc_len (S' / 8)) (enc_len len). intros e0 e' el H F. lia.
Qed.

Section piece_fits.
Context {P : Type} (c : pcfg) (Hc : cfg_ok c) (fit : N -> P -> Prop).

Definition slot_fits (f : pfile P) : Prop :=
  forall off sz p, slots f !! off = Some (Used sz p) -> fit sz p.

Lemma wp_new_fits f need p f' off sz :
  AInv c f -> 0 < need -> slot_fits f -> write_piece c need f None p = Ok (f', off, sz) ->
  (forall sz', valid_slot_size c sz' -> roundup c need <= sz' -> fit sz' p) ->
  AInv c f' /\ slot_fits f'.
Proof.
  intros HA Hn Hf Hw Hp.
  destruct (@write_new_ok P c Hc f need p HA Hn)
    as (f1 & off1 & sz1 & Hw1 & HA1 & Hu & _ & _ & _ & _ & Hs & Hle & Hv & _ & _ & Hfr).
  rewrite Hw in Hw1. injection Hw1 as <- <- <-. split; [exact HA1|].
  intros o sz0 q Hq. destruct (N.eq_dec o off) as [-> | Hne].
  - rewrite Hs in Hq. injection Hq as <- <-. apply Hp; assumption.
  - assert (Hu0 : used f' !! o = Some q) by (apply Refine_relink.used_lookup; eauto).
    rewrite Hu, lookup_insert_ne in Hu0 by congruence.
    apply Refine_relink.used_lookup in Hu0 as [sz2 Hs2].
    pose proof (Hfr _ _ _ Hne Hs2) as H2. rewrite Hq in H2. injection H2 as ->.
    exact (Hf _ _ _ Hs2).
Qed.

Lemma wp_old_fits f need old p0 p f' off sz :
  AInv c f -> 0 < need -> slot_fits f -> used f !! old = Some p0 ->
  write_piece c need f (Some old) p = Ok (f', off, sz) ->
  (forall sz', valid_slot_size c sz' -> roundup c need <= sz' -> fit sz' p) ->
  AInv c f' /\ slot_fits f'.
Proof.
  intros HA Hn Hf Hold Hw Hp.
  destruct (@write_old_ok P c Hc f need old p0 p HA Hn Hold)
    as (f1 & off1 & sz1 & Hw1 & HA1 & Hu & _ & _ & _ & _ & Hs & Hle & Hv & _ & Hfr).
  rewrite Hw in Hw1. injection Hw1 as <- <- <-. split; [exact HA1|].
  intros o sz0 q Hq. destruct (N.eq_dec o off) as [-> | Hne].
  - rewrite Hs in Hq. injection Hq as <- <-. apply Hp; assumption.
  - assert (Hu0 : used f' !! o = Some q) by (apply Refine_relink.used_lookup; eauto).
    rewrite Hu, lookup_insert_ne in Hu0 by congruence.
    apply lookup_delete_Some in Hu0 as [Hne' Hu0].
    apply Refine_relink.used_lookup in Hu0 as [sz2 Hs2].
    assert (Hne2 : o <> old) by congruence.
    pose proof (Hfr _ _ _ Hne2 Hne Hs2) as H2. rewrite Hq in H2. injection H2 as ->.
    exact (Hf _ _ _ Hs2).
Qed.

(** deleting keeps every used slot of the result as it was (by definition, no invariant needed) *)
Lemma delete_piece_fits f off f' : slot_fits f -> delete_piece c f off = Ok f' -> slot_fits f'.
Proof.
  intros Hf Hd. unfold delete_piece, read_size in Hd.
  destruct (slots f !! off) as [s0|]; cbn [rbind] in Hd; [|discriminate Hd].
  unfold push_free in Hd. destruct (off =? 0); [injection Hd as <-; exact Hf|].
  destruct (class_idx c (slot_size s0)) as [i| | |]; cbn [rbind] in Hd; try discriminate Hd.
  injection Hd as <-. intros o sz p. cbn [slots]. rewrite lookup_insert_Some.
  intros [[_ Heq] | [_ H]]; [discriminate Heq | exact (Hf _ _ _ H)].
Qed.

End piece_fits.

Definition kfit (sz : N) (r : krec) : Prop :=
  key_real_len sz (blen (k_key r)) (k_voff r) (k_next r) <= sz.
Definition vfit (sz : N) (v : bytes) : Prop := val_real_len sz (blen v) <= sz.

Lemma fits_ok_iff s : fits_ok s <-> slot_fits kfit (keyf s) /\ slot_fits vfit (valf s).
Proof. reflexivity. Qed.

Lemma kfit_new r sz : valid_slot_size key_cfg sz -> roundup key_cfg (krec_need r) <= sz -> kfit sz r.
Proof. intros V H. unfold kfit. apply key_fits_any; assumption. Qed.

Lemma vfit_new v sz : valid_slot_size val_cfg sz -> roundup val_cfg (val_need (blen v)) <= sz -> vfit sz v.
Proof. intros V H. unfold vfit. apply val_fits_any; assumption. Qed.

Lemma read_krec_inv s off r : read_krec s off = Ok r -> used (keyf s) !! off = Some r.
Proof.
  unfold read_krec. intros H. apply Refine_relink.used_lookup.
  destruct (slots (keyf s) !! off) as [[sz r0|sz nxt]|]; try discriminate H.
  injection H as ->. eauto.
Qed.

Lemma read_val_inv s off v : read_val s off = Ok v -> used (valf s) !! off = Some v.
Proof.
  unfold read_val. intros H. apply Refine_relink.used_lookup.
  destruct (slots (valf s) !! off) as [[sz r0|sz nxt]|]; try discriminate H.
  injection H as ->. eauto.
Qed.

Lemma fits_ok_create t n : fits_ok (create t n).
Proof. split; intros off sz r H; cbn in H; rewrite lookup_empty in H; discriminate H. Qed.

Lemma relink_fits fuel : forall s b prev newoff s',
  AInv key_cfg (keyf s) -> slot_fits kfit (keyf s) -> relink fuel s b prev newoff = Ok s' ->
  AInv key_cfg (keyf s') /\ slot_fits kfit (keyf s') /\ valf s' = valf s.
Proof.
  induction fuel as [|fuel IH]; intros s b prev newoff s' HK Fk Hr; cbn [relink] in Hr;
    [discriminate Hr|].
  destruct (prev =? 0).
  { injection Hr as <-. cbn [set_hx keyf valf]. auto. }
  destruct (read_krec s prev) as [r| | |] eqn:Hrd; cbn [rbind] in Hr; try discriminate Hr.
  apply read_krec_inv in Hrd.
  destruct (write_piece key_cfg (krec_need (KRec (k_key r) (k_voff r) newoff)) (keyf s) (Some prev)
              (KRec (k_key r) (k_voff r) newoff)) as [[[kf poff] ksz]| | |] eqn:Hw;
    cbn [rbind] in Hr; try discriminate Hr.
  destruct (wp_old_fits key_cfg key_cfg_ok kfit _ _ _ _ _ _ _ _ HK (Refine_relink.krec_need_pos _)
              Fk Hrd Hw (kfit_new _)) as [HK1 Fk1].
  destruct (poff =? prev).
  { injection Hr as <-. cbn [set_keyf keyf valf]. auto. }
  destruct (find_prev (chain_fuel (set_keyf s kf)) (set_keyf s kf) prev 0
              (head_at (hx (set_keyf s kf)) b)) as [pp| | |]; cbn [rbind] in Hr; try discriminate Hr.
  apply IH in Hr; [exact Hr | exact HK1 | exact Fk1].
Qed.

Theorem fits_ok_put s k v s' :
  AInv key_cfg (keyf s) -> AInv val_cfg (valf s) -> fits_ok s -> put s k v = Ok s' -> fits_ok s'.
Proof.
  intros HK HV [Fk Fv] Hput.
  change (keyf s) with (keyf (touch s)) in HK, Fk. change (valf s) with (valf (touch s)) in HV, Fv.
  unfold put in Hput. cbv zeta in Hput.
  revert HK HV Fk Fv Hput. generalize (touch s). clear s. intros s HK HV Fk Fv Hput.
  destruct (find s k) as [[[koff prev]|]| | |]; cbn [rbind] in Hput; try discriminate Hput.
  - destruct (read_krec s koff) as [r| | |] eqn:Hr; cbn [rbind] in Hput; try discriminate Hput.
    apply read_krec_inv in Hr.
    destruct (read_val s (k_voff r)) as [v0| | |] eqn:Hv0; cbn [rbind] in Hput; try discriminate Hput.
    apply read_val_inv in Hv0.
    destruct (write_piece val_cfg (val_need (blen v)) (valf s) (Some (k_voff r)) v)
      as [[[vf voff] vsz]| | |] eqn:Hwv; cbn [rbind] in Hput; try discriminate Hput.
    destruct (wp_old_fits val_cfg val_cfg_ok vfit _ _ _ _ _ _ _ _ HV (Sizing_proofs.val_need_pos _)
                Fv Hv0 Hwv (vfit_new _)) as [HV1 Fv1].
    destruct (voff =? k_voff r).
    { injection Hput as <-. split; [exact Fk | exact Fv1]. }
    cbn [set_valf keyf] in Hput.
    destruct (write_piece key_cfg (krec_need (KRec (k_key r) voff (k_next r))) (keyf s) (Some koff)
                (KRec (k_key r) voff (k_next r))) as [[[kf koff'] ksz]| | |] eqn:Hwk;
      cbn [rbind] in Hput; try discriminate Hput.
    destruct (wp_old_fits key_cfg key_cfg_ok kfit _ _ _ _ _ _ _ _ HK (Refine_relink.krec_need_pos _)
                Fk Hr Hwk (kfit_new _)) as [HK1 Fk1].
    destruct (koff' =? koff).
    { injection Hput as <-. split; [exact Fk1 | exact Fv1]. }
    apply relink_fits in Hput as (_ & Fk2 & Hvf); [|exact HK1 | exact Fk1].
    split; [exact Fk2 | rewrite Hvf; exact Fv1].
  - destruct (write_piece val_cfg (val_need (blen v)) (valf s) None v)
      as [[[vf voff] vsz]| | |] eqn:Hwv; cbn [rbind] in Hput; try discriminate Hput.
    destruct (wp_new_fits val_cfg val_cfg_ok vfit _ _ _ _ _ _ HV (Sizing_proofs.val_need_pos _)
                Fv Hwv (vfit_new _)) as [HV1 Fv1].
    destruct (write_piece key_cfg (krec_need (KRec k voff (head_at (hx s) (bucket s k)))) (keyf s) None
                (KRec k voff (head_at (hx s) (bucket s k)))) as [[[kf koff] ksz]| | |] eqn:Hwk;
      cbn [rbind] in Hput; try discriminate Hput.
    destruct (wp_new_fits key_cfg key_cfg_ok kfit _ _ _ _ _ _ HK (Refine_relink.krec_need_pos _)
                Fk Hwk (kfit_new _)) as [HK1 Fk1].
    injection Hput as <-. split; [exact Fk1 | exact Fv1].
Qed.

Theorem fits_ok_del s k s' r :
  AInv key_cfg (keyf s) -> AInv val_cfg (valf s) -> fits_ok s -> del s k = Ok (s', r) -> fits_ok s'.
Proof.
  intros HK HV [Fk Fv] Hdel.
  change (keyf s) with (keyf (touch s)) in HK, Fk. change (valf s) with (valf (touch s)) in HV, Fv.
  unfold del in Hdel. cbv zeta in Hdel.
  revert HK HV Fk Fv Hdel. generalize (touch s). clear s. intros s HK HV Fk Fv Hdel.
  destruct (find s k) as [[[koff prev]|]| | |]; cbn [rbind] in Hdel; try discriminate Hdel.
  2:{ injection Hdel as <- <-. split; assumption. }
  destruct (read_krec s koff) as [rk| | |] eqn:Hr; cbn [rbind] in Hdel; try discriminate Hdel.
  destruct (read_val s (k_voff rk)) as [v0| | |] eqn:Hv0; cbn [rbind] in Hdel; try discriminate Hdel.
  match type of Hdel with (rbind ?X _ = _) => destruct X as [s1| | |] eqn:Hs1 end;
    cbn [rbind] in Hdel; try discriminate Hdel.
  assert (H1 : slot_fits kfit (keyf s1) /\ valf s1 = valf s).
  { destruct (prev =? 0).
    { injection Hs1 as <-. cbn [set_hx keyf valf]. auto. }
    destruct (read_krec s prev) as [pr| | |] eqn:Hpr; cbn [rbind] in Hs1; try discriminate Hs1.
    apply read_krec_inv in Hpr.
    destruct (write_piece key_cfg (krec_need (KRec (k_key pr) (k_voff pr) (k_next rk))) (keyf s)
                (Some prev) (KRec (k_key pr) (k_voff pr) (k_next rk)))
      as [[[kf poff] ksz]| | |] eqn:Hw; cbn [rbind] in Hs1; try discriminate Hs1.
    destruct (wp_old_fits key_cfg key_cfg_ok kfit _ _ _ _ _ _ _ _ HK (Refine_relink.krec_need_pos _)
                Fk Hpr Hw (kfit_new _)) as [HK1 Fk1].
    destruct (poff =? prev).
    { injection Hs1 as <-. cbn [set_keyf keyf valf]. auto. }
    destruct (find_prev (chain_fuel (set_keyf s kf)) (set_keyf s kf) prev 0
                (head_at (hx (set_keyf s kf)) (bucket s k))) as [pp| | |];
      cbn [rbind] in Hs1; try discriminate Hs1.
    apply relink_fits in Hs1 as (_ & Fk2 & Hvf); [|exact HK1 | exact Fk1]. auto. }
  destruct H1 as [Fk1 Hvf].
  destruct (delete_piece val_cfg (valf s1) (k_voff rk)) as [vf| | |] eqn:Hdv;
    cbn [rbind] in Hdel; try discriminate Hdel.
  destruct (delete_piece key_cfg (keyf s1) koff) as [kf| | |] eqn:Hdk;
    cbn [rbind] in Hdel; try discriminate Hdel.
  injection Hdel as <- <-. split; cbn [keyf valf].
  - exact (delete_piece_fits key_cfg kfit _ _ _ Fk1 Hdk).
  - rewrite Hvf in Hdv. exact (delete_piece_fits val_cfg vfit _ _ _ Fv Hdv).
Qed.

Lemma fits_ok_step s o s' r : Inv s -> fits_ok s -> store_step s o = Ok (s', r) -> fits_ok s'.
Proof.
  intros (ch & Hcore & _) Hf Hs.
  pose proof (co_k _ _ _ Hcore) as HK. pose proof (co_v _ _ _ Hcore) as HV.
  destruct o as [k v | k | k | k | |]; cbn [store_step] in Hs.
  - destruct (put s k v) as [s1| | |] eqn:E; cbn [rbind] in Hs; try discriminate Hs.
    injection Hs as <- _. exact (fits_ok_put s k v s1 HK HV Hf E).
  - destruct (get s k); cbn [rbind] in Hs; try discriminate Hs. injection Hs as <- _. exact Hf.
  - destruct (del s k) as [[s1 r1]| | |] eqn:E; cbn [rbind] in Hs; try discriminate Hs.
    injection Hs as <- _. exact (fits_ok_del s k s1 r1 HK HV Hf E).
  - destruct (has s k); cbn [rbind] in Hs; try discriminate Hs. injection Hs as <- _. exact Hf.
  - injection Hs as <- _. exact Hf.
  - injection Hs as <- _. exact Hf.
Qed.

Theorem fits_ok_run ops : forall s m s' outs,
  Inv s -> represents s m -> Forall (op_wf (kt s)) ops -> fits_ok s ->
  store_run s ops = Ok (s', outs) -> fits_ok s'.
Proof.
  induction ops as [|o ops IH]; intros s m s' outs HI HR Hw Hf Hrun.
  - cbn [store_run] in Hrun. injection Hrun as <- _. exact Hf.
  - inversion Hw as [|? ? Ho Hops]; subst.
    destruct (step_refines s m o HI HR Ho) as (s1 & Hs & HI1 & HR1 & Ht1 & _).
    cbn [store_run] in Hrun. rewrite Hs in Hrun. cbn [rbind] in Hrun.
    destruct (store_run s1 ops) as [[s2 rs]| | |] eqn:E; cbn [rbind] in Hrun; try discriminate Hrun.
    injection Hrun as <- _.
    apply (IH s1 _ s2 rs HI1 HR1); [rewrite Ht1; exact Hops | | exact E].
    exact (fits_ok_step s o s1 _ HI Hf Hs).
Qed.

(** every state reachable from a freshly created map has the extra invariant ... *)
Theorem fits_ok_reachable t n ops s' outs :
  1 <= n -> Forall (op_wf t) ops -> store_run (create t n) ops = Ok (s', outs) -> fits_ok s'.
Proof.
  intros Hn Hw Hrun. destruct (create_closed t n Hn) as [HI HR].
  exact (fits_ok_run ops (create t n) ∅ s' outs HI HR Hw (fits_ok_create t n) Hrun).
Qed.

(** ... so the round trip holds for it without that hypothesis *)
Corollary load_render_reachable (Hhtx : ld_htx_stmt) t n ops s outs imgs :
  1 <= n -> Forall (op_wf t) ops -> store_run (create t n) ops = Ok (s, outs) ->
  htx_wf (hx s) -> fits64 s -> render s = Ok imgs ->
  exists s', load (kt s) imgs = Ok s' /\
     kt s' = kt s /\ hx s' = hx s /\ keyf s' = keyf s /\ valf s' = valf s.
Proof.
  intros Hn Hw Hrun Hwf H64 Hr.
  destruct (run_from_create t n ops Hn Hw) as (s1 & Hrun1 & HI & _).
  rewrite Hrun in Hrun1. injection Hrun1 as <- _.
  apply (load_render Hhtx s imgs HI (fits_ok_reachable t n ops s outs Hn Hw Hrun) Hwf H64 Hr).
Qed.

(** ** 6. Non-vacuity: a computed round trip on a concrete store

    One bucket (every record on one chain of length three, after a delete in the middle of the
    chain and a value that moved to a bigger slot); the key file ends with one free slot, the
    value file with two free slots on one list.  The expected results are stated relative to the
    store itself and by key lookups, never by literal offsets (the layout constants are
    regenerated). *)

Definition ld_ex_ops : list dop :=
  [Put [1;2] [10;11;12]; Put [3] []; Put [7;7;7] (repeat 5 40); Put [] [1]; Del [3];
   Put [1;2] (repeat 9 200)].

Lemma ld_ex_ops_wf : Forall (op_wf KBytes) ld_ex_ops.
Proof.
  assert (Hb : forall bs : bytes, bytes_okb bs = true -> bytes_ok bs).
  { intros bs. unfold bytes_okb, bytes_ok. rewrite forallb_forall, Forall_forall.
    intros Hall b Hin. apply elem_of_list_In in Hin. specialize (Hall b Hin).
    unfold byte_ok. lia. }
  assert (Hk : forall k : bytes, bytes_okb k = true -> blen k < 2 ^ 31 -> key_wf KBytes k).
  { intros k Hk1 Hk2. split; [apply Hb; exact Hk1|]. split; [exact Hk2 | discriminate]. }
  assert (Hv : forall v : bytes, bytes_okb v = true -> blen v < 2 ^ 31 -> val_wf v).
  { intros v Hv1 Hv2. split; [apply Hb; exact Hv1 | exact Hv2]. }
  unfold ld_ex_ops. repeat apply Forall_cons_2; try apply Forall_nil_2; cbn [op_wf];
    repeat split; (apply Hk || apply Hv); reflexivity.
Qed.

Definition ld_ex_store : store :=
  match store_run (create KBytes 1) ld_ex_ops with Ok (s, _) => s | _ => create KBytes 1 end.

Definition assoc (k : bytes) (l : list (bytes * bytes)) : option bytes :=
  snd <$> List.find (fun kv => bytes_eqb (fst kv) k) l.

Definition is_free_slot {P} (os : N * slot P) : bool :=
  match snd os with Free _ _ => true | Used _ _ => false end.

Definition pfile_obs {P} (f : pfile P) := (map_to_list (slots f), heads f, fend f).
Definition htx_obs (h : htx) := (nb h, map_to_list (buckets h), elements (bitmap h), count h, hend h).

Example load_example :
  match render ld_ex_store with
  | Ok imgs =>
    match load KBytes imgs with
    | Ok s' =>
      htx_obs (hx s') = htx_obs (hx ld_ex_store) /\
      pfile_obs (keyf s') = pfile_obs (keyf ld_ex_store) /\
      pfile_obs (valf s') = pfile_obs (valf ld_ex_store) /\
      match contents s' with
      | Ok l => length l = 3%nat /\ assoc [1;2] l = Some (repeat 9 200) /\
                assoc [7;7;7] l = Some (repeat 5 40) /\ assoc [] l = Some [1] /\ assoc [3] l = None
      | _ => False
      end
    | _ => False
    end
  | _ => False
  end /\
  length (map_to_list (slots (keyf ld_ex_store))) = 4%nat /\
  length (filter (fun os => is_free_slot os) (map_to_list (slots (keyf ld_ex_store)))) = 1%nat /\
  length (map_to_list (slots (valf ld_ex_store))) = 5%nat /\
  length (filter (fun os => is_free_slot os) (map_to_list (slots (valf ld_ex_store)))) = 2%nat.
Proof. vm_compute. repeat split; reflexivity. Qed.

(** the hypotheses of [load_render] hold for this store: the theorem is not vacuous *)
Example load_example_hyps :
  Inv ld_ex_store /\ fits_ok ld_ex_store /\ htx_wf (hx ld_ex_store) /\ fits64 ld_ex_store.
Proof.
  assert (H1 : 1 <= 1) by lia.
  destruct (run_from_create KBytes 1 ld_ex_ops H1 ld_ex_ops_wf) as (s & Hrun & HI & _).
  assert (E : ld_ex_store = s) by (unfold ld_ex_store; rewrite Hrun; reflexivity).
  split; [rewrite E; exact HI|].
  split; [rewrite E; exact (fits_ok_reachable KBytes 1 ld_ex_ops s _ H1 ld_ex_ops_wf Hrun)|].
  clear E Hrun HI s. split.
  - set (h := hx ld_ex_store). split; [|split].
    + assert (Hall : forallb (fun iv : N * N => negb (iv.2 =? 0) && (iv.1 <? nb h))
                       (map_to_list (buckets h)) = true) by (vm_compute; reflexivity).
      rewrite forallb_forall in Hall. intros i v Hb.
      apply elem_of_map_to_list, elem_of_list_In in Hb. specialize (Hall _ Hb). cbn [fst snd] in Hall.
      lia.
    + apply N.leb_le. vm_compute. reflexivity.
    + assert (Hall : forallb (fun i : N => htx_header_size + 8 * nb h + i / 8 <? hend h)
                       (elements (bitmap h)) = true) by (vm_compute; reflexivity).
      rewrite forallb_forall in Hall. intros i Hi.
      apply elem_of_elements, elem_of_list_In in Hi. specialize (Hall _ Hi). lia.
  - vm_compute. repeat split.
Qed.

(** why [fits_ok] is a hypothesis: a store that satisfies the structural part of the invariant
    (one valid 16-byte slot per file, one chain) but whose key record (20 key bytes) is longer
    than its slot.  [slot_bytes] pads nothing, the image of the slot is longer than the slot, and
    the reader sees a longer file. *)
Definition ld_bad_store : store :=
  let ko := hdr_size key_cfg in
  let vo := hdr_size val_cfg in
  Store KBytes (Htx 1 {[0 := ko]} {[0]} 1 (htx_header_size + 8 + 1))
        (PFile {[ko := Used 16 (KRec (repeat 1 20) vo 0)]} (repeat 0 16) (ko + 16))
        (PFile {[vo := Used 16 [5]]} (repeat 0 16) (vo + 16)) false true.

Example load_needs_fits :
  match render ld_bad_store with
  | Ok imgs => match load KBytes imgs with
               | Ok s' => fend (keyf s') <> fend (keyf ld_bad_store)
               | _ => False
               end
  | _ => False
  end.
Proof. vm_compute. intros H. discriminate H. Qed.

Print Assumptions load_render.
Print Assumptions load_contents.
Print Assumptions render_total.
Print Assumptions fits_ok_put.
Print Assumptions fits_ok_del.
Print Assumptions fits_ok_run.
Print Assumptions load_render_reachable.
Print Assumptions load_example.
Print Assumptions load_example_hyps.
