(** * Structure: what the store invariant [Inv] says in plain terms (the clauses of properties
    C05, C06 and C12), and the fact that every history preserves it. *)
From Coq Require Import Lia ZifyN ZifyNat ZifyBool.
From Aby Require Import Base Vu64 Vu64_proofs Hash KeyTypes KeyTypes_proofs Consts Sizing Alloc AllocInv
  AllocInv_proofs Htx Htx_proofs Store Spec Refine Refine_relink Refine_ops Refine_all.

(** the chain of bucket [b]: a list of key-record offsets linked by their [next] fields from the
    bucket head to the null link, without repetition (acyclic), every record of it holding a key
    that hashes to [b] *)
Definition bucket_chain_ok (s : store) (b : N) (l : list N) : Prop :=
  chain (kheap s) (head_at (hx s) b) l /\ NoDup l /\
  forall off r, off ∈ l -> kheap s !! off = Some r ->
    hash_value (k_key r) mod nb (hx s) = b.

Record structure_ok (s : store) : Prop := {
  (* the table *)
  so_n : 1 <= nb (hx s);
  so_bitmap : forall i, i ∈ bitmap (hx s) <-> (i < nb (hx s) /\ head_at (hx s) i <> 0);
  (* chains: acyclic, keys in their bucket; every key record is reachable from its bucket *)
  so_chains : exists ch, (forall b, b < nb (hx s) -> bucket_chain_ok s b (ch b)) /\
      (forall off r, kheap s !! off = Some r -> off ∈ ch (hash_value (k_key r) mod nb (hx s)));
  (* no key twice *)
  so_uniq : forall o1 o2 r1 r2, kheap s !! o1 = Some r1 -> kheap s !! o2 = Some r2 ->
      k_key r1 = k_key r2 -> o1 = o2;
  (* the stored item count *)
  so_count : count (hx s) = N.of_nat (size (kheap s));
  (* every key record owns one in-bounds value record, and every value record is owned *)
  so_value : forall off r, kheap s !! off = Some r ->
      exists v, vheap s !! k_voff r = Some v /\ k_voff r <> 0 /\ k_voff r mod 8 = 0 /\
                hdr_size val_cfg <= k_voff r < fend (valf s);
  so_vinj : forall o1 o2 r1 r2, kheap s !! o1 = Some r1 -> kheap s !! o2 = Some r2 ->
      k_voff r1 = k_voff r2 -> o1 = o2;
  so_vown : forall vo v, vheap s !! vo = Some v -> exists off r, kheap s !! off = Some r /\ k_voff r = vo;
  (* key records lie inside the key file *)
  so_kbounds : forall off r, kheap s !! off = Some r ->
      off <> 0 /\ off mod 8 = 0 /\ hdr_size key_cfg <= off < fend (keyf s);
  (* both piece files satisfy the allocator invariant (tiling, free lists) *)
  so_kalloc : AInv key_cfg (keyf s);
  so_valloc : AInv val_cfg (valf s) }.

Theorem Inv_structure s : Inv s -> structure_ok s.
Proof.
  intros [ch [Hc Hl]].
  pose proof (@used_facts_ok krec key_cfg key_cfg_ok (keyf s) (co_k _ _ _ Hc)) as (_ & Kb & _ & _).
  pose proof (@used_facts_ok bytes val_cfg val_cfg_ok (valf s) (co_v _ _ _ Hc)) as (_ & Vb & _ & _).
  constructor.
  - exact (co_n _ _ _ Hc).
  - exact (co_bm _ _ _ Hc).
  - exists ch. split.
    + intros b Hb. split; [exact (Hl b Hb)|]. split; [exact (co_nodup _ _ _ Hc b Hb)|].
      intros off r Hin Hr. exact (co_home _ _ _ Hc b off r Hb Hin Hr).
    + intros off r Hr. destruct (co_reach _ _ _ Hc off r Hr) as [H|H]; [exact H|discriminate].
  - exact (co_uniq _ _ _ Hc).
  - exact (co_count _ _ _ Hc).
  - intros off r Hr. destruct (co_val _ _ _ Hc off r Hr) as [v Hv].
    exists v. split; [exact Hv|]. destruct (Vb _ _ Hv) as (H1 & H2 & H3 & H4). auto.
  - exact (co_vinj _ _ _ Hc).
  - exact (co_vown _ _ _ Hc).
  - intros off r Hr. destruct (Kb _ _ Hr) as (H1 & H2 & H3 & H4). auto.
  - exact (co_k _ _ _ Hc).
  - exact (co_v _ _ _ Hc).
Qed.

(** every history keeps the structure (from any state with the invariant; in particular from a
    freshly created map of any type and table size) *)
Theorem structure_after_history s m ops :
  Inv s -> represents s m -> Forall (op_wf (kt s)) ops ->
  exists s', store_run s ops = Ok (s', snd (spec_run m ops)) /\ structure_ok s' /\
             represents s' (fst (spec_run m ops)).
Proof.
  intros HI HR Hw. destruct (run_refines s m ops HI HR Hw) as (s' & Hr & HI' & HR' & _).
  exists s'. split; [exact Hr|]. split; [apply Inv_structure; exact HI'|exact HR'].
Qed.

Theorem structure_after_create t n ops : 1 <= n -> Forall (op_wf t) ops ->
  exists s', store_run (create t n) ops = Ok (s', snd (spec_run ∅ ops)) /\ structure_ok s' /\
             represents s' (fst (spec_run ∅ ops)).
Proof.
  intros Hn Hw. destruct (run_from_create t n ops Hn Hw) as (s' & Hr & HI' & HR').
  exists s'. split; [exact Hr|]. split; [apply Inv_structure; exact HI'|exact HR'].
Qed.

(** the contents are determined by the files: two ideal maps represented by the same files are equal *)
Theorem represents_functional s m1 m2 : Inv s -> represents s m1 -> represents s m2 -> m1 = m2.
Proof.
  intros _ H1 H2. apply map_eq. intros k. apply option_eq. intros v.
  split; intros E.
  - apply (proj2 (H2 k v)). apply (proj1 (H1 k v)). exact E.
  - apply (proj2 (H1 k v)). apply (proj1 (H2 k v)). exact E.
Qed.

(** placement depends only on the key bytes and the table size ([hash_value] and [bucket_of] are
    closed functions of their arguments) - stated for the record found by a lookup *)
Theorem placement s k : Inv s -> key_wf (kt s) k ->
  forall off prev, find s k = Ok (Some (off, prev)) ->
  exists ch r, kheap s !! off = Some r /\ k_key r = k /\
    off ∈ ch (hash_value k mod nb (hx s)) /\ bucket_chain_ok s (hash_value k mod nb (hx s)) (ch (hash_value k mod nb (hx s))).
Proof.
  intros HI Hk off prev Hf. destruct HI as [ch Hs]. pose proof Hs as [Hc Hl].
  destruct (find_closed s ch None k Hs Hk) as [[Hn _] | (off' & r & l1 & l2 & Hf' & Hr & Hkr & Hch)].
  - intros ? ?; discriminate.
  - congruence.
  - rewrite Hf in Hf'. injection Hf' as -> _.
    exists ch, r. split; [exact Hr|]. split; [exact Hkr|].
    assert (Hb : home s k < nb (hx s)) by (apply home_lt; exact (co_n _ _ _ Hc)).
    unfold home, bucket_of in *. split.
    + rewrite Hch. apply elem_of_app. right. apply elem_of_cons. left. reflexivity.
    + split; [exact (Hl _ Hb)|]. split; [exact (co_nodup _ _ _ Hc _ Hb)|].
      intros o r0 Hin Hr0. exact (co_home _ _ _ Hc _ o r0 Hb Hin Hr0).
Qed.
