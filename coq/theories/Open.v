(** * Open: the header checks of [open_with_params] on the byte images of the three files.

    [check_keyrecf_header] (key.rs), [check_valrecf_header] (val.rs) and [check_htxf_header]
    (htx.rs) read 8 + 8 + 8 bytes from offset 0 of a file that is not empty and [assert!] on
    each field.  A file of length zero was just created by [OpenOptions::create(true)]: its
    header gets written instead of checked ([Fresh]).  [read_exact] on a file shorter than the
    header is an I/O error ([ShortRead]); a failed [assert!] is [Rejected].

    [open_files] is a pure function from the three images to a verdict.  It returns no new
    images: in the model the reject path (and every other path) performs no write, by
    construction.  (The crate writes a header only into a file of length zero.) *)
From Aby Require Import Base Consts Sizing KeyTypes.

Inductive open_result := Accepted | Rejected | ShortRead | Fresh.

(** [check_keyrecf_header] / [check_valrecf_header]: zero-length file = freshly created (the
    header gets written); else read 8+8+8 bytes: signature1, signature2 (type signature),
    reserve0 which must be 0 *)
Definition check_pheader (c : pcfg) (sig2 img : bytes) : open_result :=
  if (length img =? 0)%nat then Fresh else
  if (length img <? 24)%nat then ShortRead else
  if negb (bytes_eqb (take 8 img) (sig1 c)) then Rejected else
  if negb (bytes_eqb (take 8 (drop 8 img)) sig2) then Rejected else
  if negb (le_decode (take 8 (drop 16 img)) =? 0) then Rejected else Accepted.

(** [check_htxf_header]: signature1, signature2, then the bucket count which must be <> 0 *)
Definition check_hheader (sig2 img : bytes) : open_result :=
  if (length img =? 0)%nat then Fresh else
  if (length img <? 24)%nat then ShortRead else
  if negb (bytes_eqb (take 8 img) htx_signature) then Rejected else
  if negb (bytes_eqb (take 8 (drop 8 img)) sig2) then Rejected else
  if le_decode (take 8 (drop 16 img)) =? 0 then Rejected else Accepted.

(** [FileDbXxxInner::open_with_params]: key file, value file, table file, in this order; the
    first check that does not pass ends the open.  [imgs] = (htx, key, val) as [render]
    returns them. *)
Definition open_files (t : ktype) (imgs : bytes * bytes * bytes) : open_result :=
  let '(h, k, v) := imgs in
  match check_pheader key_cfg (sig_of t) k with
  | Accepted => match check_pheader val_cfg (sig_of t) v with
                | Accepted => check_hheader (sig_of t) h
                | r => r end
  | r => r end.

Inductive fileid := FHtxF | FKeyF | FValF.

Definition get_file (f : fileid) (imgs : bytes * bytes * bytes) : bytes :=
  let '(h, k, v) := imgs in
  match f with FHtxF => h | FKeyF => k | FValF => v end.

Definition set_file (f : fileid) (b : bytes) (imgs : bytes * bytes * bytes) : bytes * bytes * bytes :=
  let '(h, k, v) := imgs in
  match f with FHtxF => (b, k, v) | FKeyF => (h, b, v) | FValF => (h, k, b) end.

(** byte [i] of file [f] overwritten with [b] *)
Definition mutate (f : fileid) (i : nat) (b : N) (imgs : bytes * bytes * bytes) : bytes * bytes * bytes :=
  set_file f (<[i := b]> (get_file f imgs)) imgs.

(** the one pair of distinct key types with the same type signature (finding D6) *)
Definition Known13 (a b : ktype) : Prop := (a = KU64 /\ b = KVu64) \/ (a = KVu64 /\ b = KU64).
