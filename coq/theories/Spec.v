(** * Spec: the ideal in-memory byte-string map. *)
From Aby Require Import Base.

Definition spec := gmap bytes bytes.

Inductive dop :=
| Put (k v : bytes) | Get (k : bytes) | Del (k : bytes) | Has (k : bytes) | Len | IsEmpty.

Inductive dout :=
| DUnit | DOpt (o : option bytes) | DBool (b : bool) | DNum (n : N).

Definition spec_step (m : spec) (o : dop) : spec * dout :=
  match o with
  | Put k v => (<[k := v]> m, DUnit)
  | Get k => (m, DOpt (m !! k))
  | Del k => (delete k m, DOpt (m !! k))
  | Has k => (m, DBool (bool_decide (is_Some (m !! k))))
  | Len => (m, DNum (N.of_nat (size m)))
  | IsEmpty => (m, DBool (bool_decide (size m = 0%nat)))
  end.

Fixpoint spec_run (m : spec) (ops : list dop) : spec * list dout :=
  match ops with
  | [] => (m, [])
  | o :: ops' =>
    let '(m1, r) := spec_step m o in
    let '(m2, rs) := spec_run m1 ops' in
    (m2, r :: rs)
  end.
