(** * Io_sync: sync_all / sync_data make the current state durable AND ask the OS, at byte level,
    over ANY buffer setting (C03).

    [Io_durable.flush_durable_over_any_buffer] is the flush.  A sync of the map is a sync of each
    of its three buffered files ([Rabuf.sync]: the flush, then the OS request).  Composed with
    [Cache_sync.sync_durable_and_requested]: after creation and any history - every read and write
    of the map layer issued against ANY cache in front of each file - syncing the three buffers
    leaves exactly [render] of the current record-level state on the disk, the independent reader
    [Load.load] reads the ideal map's contents back, and for each file the OS sync request is the
    NEWEST event of that file: every write the OS has seen for it comes before the request. *)
From Coq Require Import Lia ZifyN ZifyNat ZifyBool.
From Aby Require Import Base Vu64 Hash KeyTypes Consts Sizing Alloc Htx Store Iter Stats Layout Load Spec Refine Refine_all
  Load_all Cache Cache_proofs Flatx Cache_x Cache_sync Io Io_base Io_htx Io_run Io_create Io_proofs Io_flat Io_flat_ro Io_cache Io_flat_upd
  Io_durable.
Import Io Rabuf.
#[local] Open Scope N_scope.

(** running the calls of file [f] through a cache and syncing it: the disk, and the events the OS saw (newest first) *)
Definition synced_disk (fuel : nat) (c : cache) (calls : list call) (all : bool) : res (bytes * list event) :=
  let* (c1, _) := crun fuel c (map call_op calls) in
  let* c2 := sync c1 all in
  Ok (k_disk c2, k_events c2).

Lemma served_synced s s' f calls c fuel all :
  served_by_cache s s' f calls -> backs c (get_file s f) ->
  (xrun_fuel (k_cs c) (flat_of (get_file s f)) (map call_op calls) <= fuel)%nat ->
  exists older, synced_disk fuel c calls all = Ok (fb (get_file s' f), EvSync all :: older).
Proof.
  intros Hs Hb Hf. destruct (Hs c fuel Hb Hf) as (c' & Ec & (I' & R' & _) & _).
  destruct (sync_durable_and_requested c' (flat_of (get_file s' f)) all I' R') as (c2 & older & E2 & Hd & _ & _ & Hev & _).
  exists older. unfold synced_disk. rewrite Ec. cbn [rbind]. rewrite E2. cbn [rbind]. rewrite Hd, Hev. reflexivity.
Qed.

Theorem sync_durable_over_any_buffer t n bk bv bh ops all :
  1 <= n -> pow2 n -> Forall (op_wf t) ops -> sized (Store.create t n) ops ->
  exists s' (cf : fid -> list call),
    store_run (Store.create t n) ops = Ok (s', snd (spec_run ∅ ops)) /\
    forall ck cv ch fuel,
      backs ck (get_file (empty_st bk bv bh) FKey) ->
      backs cv (get_file (empty_st bk bv bh) FVal) ->
      backs ch (get_file (empty_st bk bv bh) FHtx) ->
      (forall f c, In (f, c) [(FKey, ck); (FVal, cv); (FHtx, ch)] ->
         (xrun_fuel (k_cs c) (flat_of (get_file (empty_st bk bv bh) f)) (map call_op (cf f)) <= fuel)%nat) ->
      exists dk dv dh ek ev eh,
        synced_disk fuel ck (cf FKey) all = Ok (dk, EvSync all :: ek) /\
        synced_disk fuel cv (cf FVal) all = Ok (dv, EvSync all :: ev) /\
        synced_disk fuel ch (cf FHtx) all = Ok (dh, EvSync all :: eh) /\
        render s' = Ok (dh, dk, dv) /\
        exists s'' l, load t (dh, dk, dv) = Ok s'' /\ contents s'' = Ok l /\
                      l ≡ₚ map_to_list (fst (spec_run ∅ ops)).
Proof.
  intros Hn Hp Hops Hsz.
  destruct (history_over_any_cache t n bk bv bh ops Hn Hp Hops Hsz) as (m0 & m' & s' & Hc & Hrun & Hio & Hr & cf & Hs).
  destruct (Io_history_from_create t n bk bv bh ops Hn Hops Hsz) as (m0' & m'' & s2 & Hc' & Hrun' & Hio' & Hr' & Hwf & Hrep).
  rewrite Hc in Hc'. injection Hc' as <-. rewrite Hrun in Hrun'. injection Hrun' as <-.
  rewrite Hio in Hio'. injection Hio' as <-.
  exists s', cf. split; [exact Hrun|].
  intros ck cv ch fuel Bk Bv Bh Hfuel.
  destruct (served_synced _ _ _ _ ck fuel all (Hs FKey) Bk ltac:(apply (Hfuel FKey ck); cbn; auto)) as (ek & Ek).
  destruct (served_synced _ _ _ _ cv fuel all (Hs FVal) Bv ltac:(apply (Hfuel FVal cv); cbn; auto)) as (ev & Ev).
  destruct (served_synced _ _ _ _ ch fuel all (Hs FHtx) Bh ltac:(apply (Hfuel FHtx ch); cbn; auto)) as (eh & Eh).
  exists (fb (get_file (m_st m') FKey)), (fb (get_file (m_st m') FVal)), (fb (get_file (m_st m') FHtx)), ek, ev, eh.
  split; [exact Ek|]. split; [exact Ev|]. split; [exact Eh|].
  assert (Him : Io.images m' = (fb (get_file (m_st m') FHtx), fb (get_file (m_st m') FKey), fb (get_file (m_st m') FVal))) by reflexivity.
  rewrite Him in Hr. split; [exact Hr|].
  pose proof (sized_final _ _ _ _ Hsz Hrun) as H64.
  assert (Hkt : kt s' = t).
  { destruct (create_closed t n Hn) as [HI0 HR0].
    destruct (run_refines (Store.create t n) ∅ ops HI0 HR0 Hops) as (s3 & Hr3 & _ & _ & K & _).
    rewrite Hrun in Hr3. injection Hr3 as <-. exact K. }
  destruct (load_contents_closed s' _ _ Hwf H64 Hrep Hr) as (s'' & l & Hl & Hcn & Hperm).
  rewrite Hkt in Hl. exists s'', l. split; [exact Hl|]. split; [exact Hcn|exact Hperm].
Qed.

Print Assumptions sync_durable_over_any_buffer.
