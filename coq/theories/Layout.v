(** * Layout: the byte images of the three files of a map ([render]). *)
From Aby Require Import Base Vu64 KeyTypes Consts Sizing Alloc Htx Store.

(** header of a piece file: signature1, type signature, zeros, 16 free-list heads, zeros *)
Definition render_pheader (c : pcfg) (sig2 : bytes) (hd : list N) : bytes :=
  let free0 := List.hd 0 (free_off c) in
  sig1 c ++ sig2 ++ zeros (free0 - 16) ++ concat (map (le_bytes 8) hd)
       ++ zeros (hdr_size c - (free0 + 8 * N.of_nat (length hd))).

Definition kslot_bytes (s : slot krec) : bytes :=
  match s with
  | Used sz r => slot_bytes sz (key_body (k_key r) (k_voff r) (k_next r))
  | Free sz nxt => slot_bytes sz (free_body nxt)
  end.
Definition vslot_bytes (s : slot bytes) : bytes :=
  match s with
  | Used sz v => slot_bytes sz (val_body v)
  | Free sz nxt => slot_bytes sz (free_body nxt)
  end.

Definition render_pfile {P} (c : pcfg) (sb : slot P -> bytes) (sig2 : bytes) (f : pfile P) : res bytes :=
  let* l := all_slots c f in
  Ok (render_pheader c sig2 (heads f) ++ concat (map (fun os => sb (snd os)) l)).

Definition bitmap_byte (h : htx) (j : N) : N :=
  fold_right (fun t acc => (if bool_decide (8 * j + t ∈ bitmap h) then 2 ^ t else 0) + acc) 0 (seqN' 0 8).

Definition render_htx (sig2 : bytes) (h : htx) : bytes :=
  htx_signature ++ sig2 ++ le_bytes 8 (nb h) ++ le_bytes 8 (count h) ++ zeros (htx_header_size - 32)
    ++ concat (map (fun i => le_bytes 8 (head_at h i)) (seqN' 0 (N.to_nat (nb h))))
    ++ map (bitmap_byte h) (seqN' 0 (N.to_nat (hend h - (htx_header_size + 8 * nb h)))).

(** (.htx, .key, .val) *)
Definition render (s : store) : res (bytes * bytes * bytes) :=
  let sg := sig_of (kt s) in
  let* k := render_pfile key_cfg kslot_bytes sg (keyf s) in
  let* v := render_pfile val_cfg vslot_bytes sg (valf s) in
  Ok (render_htx sg (hx s), k, v).
