#!/usr/bin/env python3
"""Seeded generators of operation files (DESIGN.md 5.3). Every random choice derives from one
PRNG state per history: (VERIF_SEED, scenario, index)."""
import random, sys, os
sys.path.insert(0, os.path.dirname(__file__))
from decoder import hash_key

KTS = ['string', 'bytes', 'i64', 'u64', 'vu64']

VAL_EDGES = [0, 1, 2, 5, 13, 14, 15, 16, 21, 22, 23, 29, 30, 31, 45, 46, 47, 61, 62, 63, 77, 78, 79, 93, 94, 95,
             109, 110, 111, 125, 126, 127, 128, 253, 254, 255, 381, 382, 383, 509, 510, 511, 637, 638, 639,
             765, 766, 767, 893, 894, 895, 1014, 1015, 1016, 1019, 1020, 1021, 1147, 1148, 1149, 1275, 1276,
             2043, 2044, 2045, 3000, 4090, 4093, 4094, 4095, 4096, 4097, 4100, 8190, 8200]
VAL_BIG = [16380, 16384, 16390, 20000, 40000, 65536, 131070, 131072, 131080, 200000]
KEY_EDGES = [0, 1, 2, 3, 5, 8, 9, 10, 11, 12, 13, 17, 18, 19, 20, 21, 25, 26, 27, 28, 29, 41, 42, 43, 44, 45,
             57, 58, 59, 60, 73, 74, 75, 76, 89, 90, 105, 106, 107, 108, 121, 122, 123, 124, 125, 126, 127, 128, 129,
             249, 250, 251, 252, 376, 377, 378, 379, 380, 1000, 1015, 1016, 1017]

# keys whose record needs a LARGE slot (>= 1024 bytes: the shared first-fit free list of the key file)
KEY_BIG = [1005, 1006, 1100, 1150, 1500, 2000, 3000, 4090]


def vu64(v):
    if v < 0x80: return bytes([v])
    for L in range(2, 8):
        if v < (1 << (7 * L)):
            b0 = (256 - (1 << (9 - L))) + (v % (1 << (8 - L)))
            return bytes([b0]) + (v >> (8 - L)).to_bytes(L - 1, 'little')
    if v < (1 << 56): return b'\xfe' + v.to_bytes(7, 'little')
    return b'\xff' + v.to_bytes(8, 'little')


INT_EDGES = sorted(set([0, 1, 2] + [2 ** k + d for k in range(1, 64) for d in (-1, 0, 1)] + [2 ** 64 - 1, 2 ** 64 - 2]))


def hx(b):
    return b.hex() if b else '-'


class G:
    def __init__(self, seed, scenario, index):
        self.rng = random.Random('%s/%s/%s' % (seed, scenario, index))
        self.stats = {'ops': {}, 'vlen': {}, 'klen': {}}

    # ---- payloads
    def value_token(self, big=0.0, maxlen=None):
        r = self.rng
        c = r.random()
        if c < big:
            ln = r.choice(VAL_BIG) + r.choice([-1, 0, 0, 1])
        elif c < 0.75:
            ln = r.choice(VAL_EDGES)
        else:
            ln = r.randrange(0, 300)
        if maxlen is not None:
            ln = min(ln, maxlen)
        b = self.stats['vlen']
        bucket = '0' if ln == 0 else '1-15' if ln < 16 else '16-127' if ln < 128 else '128-1023' if ln < 1024 else '1024-4096' if ln <= 4096 else '>4096'
        b[bucket] = b.get(bucket, 0) + 1
        if ln <= 40:
            return hx(bytes(r.randrange(256) for _ in range(ln)))
        return 'z%dx%d' % (ln, r.randrange(251))

    def key_universe(self, kt, size, long_keys=False):
        """a small universe of keys of type kt (so that overwrite/delete/re-insert dominate)"""
        r = self.rng
        keys = set()
        while len(keys) < size:
            if kt in ('string', 'bytes'):
                ln = r.choice((KEY_EDGES + KEY_BIG + KEY_BIG) if long_keys else KEY_EDGES[:40]) if r.random() < 0.8 else r.randrange(0, 64)
                if kt == 'string' and r.random() < 0.7:
                    k = bytes(r.choice(b'abcdefghijklmnopqrstuvwxyzABC0123456789_-') for _ in range(ln))
                elif kt == 'string':
                    # a string-keyed map accepts ANY byte string (From<&[u8]>): keys that are not valid UTF-8, multi-byte sequences
                    k = bytes(r.choice([0x63, 0xe9, 0xc3, 0xa9, 0xff, 0x80, 0xe3, 0x81, 0x82, 0xf0, 0x9f, 0x00, 0x41]) for _ in range(ln))
                else:
                    k = bytes(r.randrange(256) for _ in range(ln))
            elif kt == 'u64':
                k = (r.choice(INT_EDGES) if r.random() < 0.7 else r.randrange(2 ** 64)).to_bytes(8, 'little')
            elif kt == 'i64':
                x = r.choice(INT_EDGES) if r.random() < 0.7 else r.randrange(2 ** 64)
                k = (x % 2 ** 64).to_bytes(8, 'little')
            else:
                k = vu64(r.choice(INT_EDGES) if r.random() < 0.7 else r.randrange(2 ** 64))
            keys.add(k)
        ks = sorted(keys)
        r.shuffle(ks)
        for k in ks:
            b = self.stats['klen']
            b[len(k)] = b.get(len(k), 0) + 1
        return ks

    def colliding_keys(self, n, bucket, count, lens):
        """byte keys that all fall into `bucket` of an n-bucket table, with the given lengths"""
        out = []
        i = 0
        r = self.rng
        while len(out) < count:
            ln = lens[len(out) % len(lens)]
            k = bytes(r.randrange(256) for _ in range(ln))
            i += 1
            if hash_key(k) % n == bucket and k not in out:
                out.append(k)
            if i > 2000000:
                raise RuntimeError('cannot find colliding keys')
        return out

    def count(self, op):
        self.stats['ops'][op] = self.stats['ops'].get(op, 0) + 1

    # ---- parameters
    def params(self, n=None, bufs=True, allow_default=False):
        r = self.rng
        if n is None:
            n = r.choice([1, 1, 2, 4, 8, 8, 16, 64, 128, 256, 1024, 4096])
        c = r.random()
        if c < 0.7:
            b = 'B%d' % n
        elif c < 0.8 and n > 1:
            b = 'B%d' % (n - r.randrange(0, n // 2))    # rounds up to n
        else:
            b = 'B%d' % n
        parts = [b]
        if bufs:
            # PerMille below 1000 is the known finding D8 (dependency), never generated here
            for f in 'VKH':
                parts.append(f + r.choice(['A', 'P1000', 'S262144', 'S524288', 'S1048576', 'S131072', 'S0', 'P1000', 'A']))
        return ','.join(parts)

    # ---- scenarios
    def hist(self, kt, nops, universe=12, mid='m0', big=0.02, reads=0.35, maxlen=None, keys=None):
        """mostly valid random update/read history on one handle"""
        r = self.rng
        ks = keys if keys is not None else self.key_universe(kt, universe)
        lines = []
        for _ in range(nops):
            k = r.choice(ks)
            c = r.random()
            if c < reads:
                op = r.choice(['get', 'get', 'has', 'len', 'empty', 'get'])
                if op in ('len', 'empty'):
                    lines.append('%s %s' % (op, mid))
                else:
                    lines.append('%s %s %s' % (op, mid, hx(k)))
            elif c < reads + (1 - reads) * 0.62:
                op = 'put'
                lines.append('put %s %s %s' % (mid, hx(k), self.value_token(big, maxlen)))
            else:
                op = 'del'
                lines.append('del %s %s' % (mid, hx(k)))
            self.count(op)
        return lines

    def read_only_session(self, kt, ks, mid='m0', n=20, stats=True, iters=True):
        r = self.rng
        lines = []
        absent = self.key_universe(kt, 4)
        for _ in range(n):
            c = r.random()
            if c < 0.35:
                lines.append('get %s %s' % (mid, hx(r.choice(ks + absent))))
            elif c < 0.45:
                lines.append('has %s %s' % (mid, hx(r.choice(ks + absent))))
            elif c < 0.55:
                lines.append(r.choice(['len', 'empty']) + ' ' + mid)
            elif c < 0.65:
                sel = [r.choice(ks + absent) for _ in range(r.randrange(0, 6))]
                lines.append('bulkget %s %s' % (mid, ','.join(hx(k) for k in sel)) if sel else 'bulkget %s' % mid)
            elif c < 0.8 and iters:
                lines.append('iter %s %s' % (mid, r.choice(['iter', 'iter_mut', 'keys', 'values', 'into_iter', 'ref_into_iter', 'mut_into_iter'])))
            elif c < 0.9 and stats:
                lines.append('stats ' + mid)
            elif c < 0.95:
                lines.append('fill ' + mid)
            else:
                lines.append(r.choice(['flush', 'syncall', 'syncdata']) + ' ' + mid)
            self.count(lines[-1].split()[0])
        return lines
