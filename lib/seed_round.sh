#!/bin/bash
# confirm and try a batch of seeded changes made by sub-agents in scratch worktrees <prefix><id> (each with out/patch.diff and
# tests/demo_<id>.rs): lib/seed_confirm.sh, then lib/seed_trial_iso.sh against the check of the property; in parallel.
# usage: lib/seed_round.sh <worktree-prefix> <trial-outdir> id1 id2 ...
PFX=$1; OUT=$2; shift 2
mkdir -p $OUT
for id in "$@"; do
  (
    /verif/lib/seed_confirm.sh $PFX$id $id > $OUT/confirm_$id.log 2>&1
    TRIAL_TAG=_$id /verif/lib/seed_trial_iso.sh $PFX$id/out/patch.diff $OUT/$id ${id:0:3} > $OUT/$id.log 2>&1
  ) &
done
wait
for id in "$@"; do
  echo "$id: $(tail -1 $PFX$id/out/confirm.txt 2>/dev/null) | $(cat $OUT/$id/summary.txt 2>/dev/null | cut -c1-140)"
done
