#!/usr/bin/env python3
"""generates coq/theories/Golden_hash.v from golden/hash_vectors.txt (run once; the result is committed)."""
import os
V = os.path.dirname(os.path.dirname(os.path.abspath(__file__)))
lines = ["(** Frozen placement-hash vectors computed by the pinned release abyssiniandb 0.1.4 @ 4b82afd",
         "    (golden/hash_vectors.txt, committed; this file is generated ONCE from it by lib/mkgolden_hash.py and committed).",
         "    The model's [hash_value] reproduces every one of them: a map written by the pinned release places",
         "    its keys where the model - and, by the regenerated gen/Hash_vectors.v, the current crate - looks for them. *)",
         "From Aby Require Import Base Hash.", "",
         "Definition frozen_vectors : list (bytes * N) := ["]
rows = []
for l in open(os.path.join(V, 'golden/hash_vectors.txt')):
    k, h = l.split()
    kb = b'' if k == '-' else bytes.fromhex(k)
    rows.append("  ([%s], %d)" % ('; '.join(str(b) for b in kb), int(h, 16)))
lines.append(';\n'.join(rows) + '].')
lines += ["", "Theorem frozen_vectors_hold : forallb (fun kh => hash_value (fst kh) =? snd kh) frozen_vectors = true.",
          "Proof. vm_compute. reflexivity. Qed.", "",
          "Theorem frozen_vectors_spec : forall k h, In (k, h) frozen_vectors -> hash_value k = h.",
          "Proof.", "  intros k h Hin. pose proof frozen_vectors_hold as H. rewrite forallb_forall in H.",
          "  specialize (H (k, h) Hin). cbn [fst snd] in H. apply N.eqb_eq. exact H.", "Qed.", "",
          "Example frozen_vectors_count : length frozen_vectors = 256%nat.", "Proof. reflexivity. Qed."]
open(os.path.join(V, 'coq/theories/Golden_hash.v'), 'w').write('\n'.join(lines) + '\n')
