#!/usr/bin/env python3
"""Direct oracles: executable statements of the properties themselves, evaluated on the
implementation's outputs without going through the Coq model's dynamics (DESIGN.md section 6).
The ideal map is a Python dict per (directory, map name)."""
import os, sys
sys.path.insert(0, os.path.dirname(__file__))
from decoder import check_map


def gen_payload(ln, seed):
    out = bytearray()
    x = seed % 251
    for _ in range(ln):
        out.append(x)
        x = (x * 109 + 89) % 251
    return bytes(out)


def unhex(s):
    if s == '-':
        return b''
    if s[0] == 'z':
        ln, sd = s[1:].split('x')
        return gen_payload(int(ln), int(sd))
    return bytes.fromhex(s)


def csum(b):
    a, c = 1, 0
    for x in b:
        a = (a + x) % 16777213
        c = (c + a) % 16777213
    return (c << 24) | a


def show(b):
    if len(b) <= 40:
        return b.hex() if b else '-'
    return '#%d:%x' % (len(b), csum(b))


def vu64_dec(b):
    b0 = b[0]
    L = 1
    while L < 9 and (b0 >> (8 - L)) & 1:
        L += 1
    if L == 1: return b0
    if L <= 7: return (int.from_bytes(b[1:L], 'little') << (8 - L)) | (b0 & ((1 << (8 - L)) - 1))
    if L == 8: return int.from_bytes(b[1:8], 'little')
    return int.from_bytes(b[1:9], 'little')


def int_key(kt, x):
    from gen import vu64
    x = int(x)
    if kt == 'u64': return x.to_bytes(8, 'little')
    if kt == 'i64': return (x % 2 ** 64).to_bytes(8, 'little')
    if kt == 'vu64': return vu64(x)
    return x.to_bytes(8, 'big')


def opt(v):
    return 'none' if v is None else 'some:' + show(v)


def lossy(v):
    return v.decode('utf-8', errors='replace').encode('utf-8')


class Ideal:
    """replays an op list against ideal maps and checks the implementation's lines.
    returns list of (index, op, impl_line, expected) for every line that violates the spec."""

    def __init__(self):
        self.files = {}      # (dir, name) -> dict
        self.dbs = {}        # dbid -> dir
        self.mids = {}       # mid -> ((dir,name), kt)
        self.limited = False # RLIMIT_FSIZE lowered: a flush/sync may legitimately report an error
        self.last_dirty = None   # (map, answer) when the previous op was `dirty` (is_dirty through some handle)

    def check(self, ops, lines, stop_at_first=True):
        bad = []
        for i, op in enumerate(ops):
            if i >= len(lines):
                break
            try:
                exp = self.expect(op, lines[i])
            except KeyError:
                exp = None          # an op through a handle that does not exist (e.g. after shrinking): nothing to require
            if exp is not None:
                bad.append((i, op, lines[i], exp))
                if stop_at_first:
                    break
        return bad

    def expect(self, op, got):
        """None if `got` is acceptable, else a description of what the ideal map requires"""
        t = op.split()
        k = t[0]
        prev, self.last_dirty = self.last_dirty, None
        if k == 'dirty' and t[1] in self.mids and got in ('true', 'false'):
            # handles of one map alias ONE state: two is_dirty() calls back to back through two of them give one answer
            self.last_dirty = (self.mids[t[1]][0], got)
            if prev and prev[0] == self.last_dirty[0] and prev[1] != got:
                return '%s (is_dirty through another handle of the same map, asked just before, answered %s)' % (prev[1], prev[1])
        if k == 'db':
            self.dbs[t[1]] = t[2]; return None if got == 'ok' else 'ok'
        if k == 'dbclone':
            self.dbs[t[1]] = self.dbs[t[2]]; return None if got == 'ok' else 'ok'
        if k == 'map':
            mk = (self.dbs[t[2]], t[4])
            if got != 'ok':
                return 'ok (open/create of a map of its own type)' if self.files.get(mk, {'kt': t[3]})['kt'] == t[3] else None
            if mk not in self.files:
                self.files[mk] = {'kt': t[3], 'm': {}}
            self.mids[t[1]] = (mk, t[3])
            return None
        if k == 'mapclone':
            self.mids[t[1]] = self.mids[t[2]]; return None
        if k in ('drop', 'dropdb', 'closeall', 'fill', 'flush', 'syncall', 'syncdata', 'dbsyncall', 'dbsyncdata'):
            if k == 'drop': self.mids.pop(t[1], None)
            if k == 'dropdb': self.dbs.pop(t[1], None)
            if k == 'closeall': self.mids.clear(); self.dbs.clear()
            if self.limited and k in ('flush', 'syncall', 'syncdata', 'dbsyncall', 'dbsyncdata') and got.startswith('err'):
                return None     # the OS refused a write: reporting the error is what the property asks for
            return None if got == 'ok' else 'ok'
        if k == 'limit': self.limited = True
        if k == 'unlimit': self.limited = False
        if k == 'cpdir':
            # a copy of the directory taken right after a successful flush/sync: it must open to the current contents
            import copy
            for (d, name), st in list(self.files.items()):
                if d == t[1]:
                    self.files[(t[2], name)] = copy.deepcopy(st)
        if k in ('limit', 'unlimit', 'kill9', 'trace', 'mutate', 'cpfile', 'cpdir', 'snap', 'stats', 'dirty'):
            if got in ('panic', 'hang') or got.startswith('err'):
                return 'no panic / error'
            return None
        mk, kt = self.mids[t[1]]
        m = self.files[mk]['m']
        if k in ('put', 'putstr'):
            m[unhex(t[2])] = unhex(t[3]); return None if got == 'ok' else 'ok'
        if k == 'put@':
            m[int_key(kt, t[2])] = unhex(t[3]); return None if got == 'ok' else 'ok'
        if k in ('get', 'get@', 'getstr'):
            key = int_key(kt, t[2]) if k == 'get@' else unhex(t[2])
            v = m.get(key)
            if k == 'getstr' and v is not None: v = lossy(v)
            return None if got == opt(v) else opt(v)
        if k in ('del', 'del@', 'delstr'):
            key = int_key(kt, t[2]) if k == 'del@' else unhex(t[2])
            v = m.pop(key, None)
            if k == 'delstr' and v is not None: v = lossy(v)
            return None if got == opt(v) else opt(v)
        if k in ('has', 'has@'):
            key = int_key(kt, t[2]) if k == 'has@' else unhex(t[2])
            e = 'true' if key in m else 'false'
            return None if got == e else e
        if k == 'len':
            return None if got == str(len(m)) else str(len(m))
        if k == 'empty':
            e = 'true' if not m else 'false'
            return None if got == e else e
        if k == 'iter':
            return self.check_iter(m, t[2], got)
        if k in ('bulkget', 'bulkgetstr'):
            ks = [unhex(x) for x in t[2].split(',')] if len(t) > 2 else []
            vs = [m.get(x) for x in ks]
            if k == 'bulkgetstr': vs = [None if v is None else lossy(v) for v in vs]
            e = ' '.join(['vec'] + [opt(v) for v in vs])
            return None if got == e else e
        if k in ('bulkdel', 'bulkdelstr'):
            ks = [unhex(x) for x in t[2].split(',')] if len(t) > 2 else []
            vs = [m.get(x) for x in ks]        # batches without repeated keys
            for x in ks: m.pop(x, None)
            if k == 'bulkdelstr': vs = [None if v is None else lossy(v) for v in vs]
            e = ' '.join(['vec'] + [opt(v) for v in vs])
            return None if got == e else e
        if k in ('bulkput', 'bulkputstr', 'putiter'):
            kvs = [x.split(':') for x in t[2].split(',')] if len(t) > 2 else []
            for a, b in kvs: m[unhex(a)] = unhex(b)
            return None if got == 'ok' else 'ok'
        return None

    def check_iter(self, m, flavour, got):
        t = got.split()
        if t[0] != 'iter':
            return 'a complete traversal (got %s)' % got
        body = t[1:]
        items = []
        hints = []
        i = 0
        ended = False
        while i < len(body):
            if body[i] == 'badhint': return 'size_hint lower == upper'
            hints.append(body[i]); i += 1
            if i >= len(body): break
            if body[i] == '.':
                ended = True; i += 1; break
            items.append(body[i]); i += 1
        extras = body[i:]
        if not ended: return 'traversal that ends'
        if extras != ['.', '.']: return 'None after the end (got %s)' % extras
        n = len(m)
        want_hints = [str(n - j) for j in range(n + 1)]
        if hints != want_hints: return 'size hints %s' % want_hints[:6]
        if flavour == 'keys':
            want = sorted(show(k) + '=' for k in m)
        elif flavour == 'values':
            want = sorted('=' + show(v) for v in m.values())
        else:
            want = sorted(show(k) + '=' + show(v) for k, v in m.items())
        if sorted(items) != want:
            return 'each live entry exactly once (%d entries)' % n
        return None


def coq_reader(dirpath, name):
    import subprocess
    drv = os.path.join(os.path.dirname(os.path.dirname(os.path.abspath(__file__))), 'build', 'ocaml', 'driver')
    if not os.path.exists(drv):
        return None
    try:
        if os.path.getsize(os.path.join(dirpath, name + '.val')) > 4 << 20:
            return None      # list-of-N images of many megabytes are too slow for the extracted reader
        hp = os.path.join(dirpath, name + '.htx')
        hb = open(hp, 'rb').read(24)
        if len(hb) < 24 or 128 + 8 * int.from_bytes(hb[16:24], 'little') > os.path.getsize(hp):
            return None      # a bucket count that does not fit the file (stale / garbage image): the reader would enumerate it; the Python decoder reports it
        # the extracted list functions are not tail recursive: give the reader an unlimited stack
        r = subprocess.run(['bash', '-c', 'ulimit -s unlimited 2>/dev/null; exec "$0" load "$1" "$2"', drv, dirpath, name],
                           capture_output=True, text=True, timeout=90)
        out = r.stdout.strip()
        if r.returncode != 0 or not out.startswith('load '):
            return None      # the reader itself failed to run (stack, time): no verdict - never a verdict on the code
        return out
    except Exception as e:
        return None


def files_ok(dirpath, ideal_contents=None):
    """independent decoder on every map of a directory; returns list of problems"""
    probs = []
    names = sorted(set(f[:-4] for f in os.listdir(dirpath) if f.endswith('.htx')))
    reports = {}
    for nm in names:
        try:
            c, r, p = check_map(dirpath, nm)
        except Exception as e:
            probs.append('%s: decoder failed: %r' % (nm, e))
            continue
        reports[nm] = (c, r)
        probs += ['%s: %s' % (nm, x) for x in p]
        if any(v is None for v in c.values()) and not p:
            probs.append('%s: a reachable key has no decodable value' % nm)
        # second, independent reader: the extracted Coq reader Load.load (proved: load (render s) = s) on the real bytes
        cr = coq_reader(dirpath, nm)
        if cr is not None:
            if not cr.startswith('load ok'):
                probs.append('%s: the Coq reader (Load.load) rejects the files: %s' % (nm, cr[:80]))
            else:
                t = cr.split()
                cnt, ents = int(t[3].split('=')[1]), int(t[4].split('=')[1])
                want = sorted(show(k) + '=' + (show(v) if v is not None else '?') for k, v in c.items())
                if cnt != ents:
                    probs.append('%s: Coq reader: stored item count %d but %d reachable entries' % (nm, cnt, ents))
                elif t[5:] != want:
                    probs.append('%s: Coq reader and Python decoder recover different contents (%d vs %d entries)' % (nm, ents, len(c)))
        if ideal_contents is not None and nm in ideal_contents and c != ideal_contents[nm]:
            probs.append('%s: decoded contents differ from the ideal map (%d vs %d entries)' % (nm, len(c), len(ideal_contents[nm])))
    return probs, reports
