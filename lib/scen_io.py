#!/usr/bin/env python3
"""Correspondence of the byte-level I/O model (coq/theories/Io.v, extracted, `driver iorun`) with the
real crate at the level of single VarFile primitives: `harness run` with the fine io-trace of the
second hook (`iotrace on`, `iodrain` after every call) against the Io model's event log.

Per history (seeded; small key universes, tables of 1..64 buckets, values on slot-class edges,
colliding keys, deletes, traversals, statistics, a few maps past 16 KiB):
  (i)   the API result of every call is the same,
  (ii)  the I/O event list of every call is the same, event by event
        (`<file>:s:<target>` seek, `<file>:r:<pos>:<len>` read, `<file>:w:<pos>:<len>` write, `<file>:l:<len>` set_len),
  (iii) the three files left behind by the crate are byte-identical to the Io model's flat files,
  (iv)  the Io model's files equal Layout.render of the record-level model's state, and the API results
        of the two models agree (both run inside the driver; reported through $VERIF_IO_XCHECK).
Direct oracles on the REAL trace (they do not go through the model): a read-only call (get, includes_key,
len, is_empty, a traversal, the statistics) emits no write and no set_len event and no seek beyond the
current end of the file; no call at all seeks beyond the end of a file (the append position is the end).
Scenario class `reopen`: histories of 2-3 sessions separated by `closeall`, the files re-opened with OTHER creation parameters
(bucket count, buffers); between the sessions attempts to open the files as another key type and with one byte of a header
mutated (`mutate`, then restored): expected `panic`; every open - accepted or rejected - is compared event by event with
Io.open_existing.  Direct oracles on the REAL trace: a rejected open logs no write and no set_len event for any of the three
files and no seek beyond the end; an open expected to be rejected must be rejected, one expected to succeed must succeed.
A hit is a violation with a failing input."""
import os, sys, random, shutil, subprocess
sys.path.insert(0, os.path.dirname(__file__))
import common as C
import gen as G

FEATURES = {}       # which paths of the record-level model (run alongside) the histories exercised
READ_ONLY = {'get', 'has', 'len', 'empty', 'iter', 'stats'}
TRACED = READ_ONLY | {'put', 'del', 'map'}
FLAVOURS = ['iter', 'iter_mut', 'keys', 'values', 'into_iter', 'ref_into_iter', 'mut_into_iter']
# values biased to the edges of the slot classes (16..1024, then multiples of 128) and to the 4 KiB chunk of an Auto buffer
VAL_EDGES = [0, 1, 5, 13, 14, 15, 21, 22, 23, 29, 30, 31, 45, 46, 47, 61, 62, 63, 77, 78, 79, 93, 94, 95, 109, 110, 111,
             125, 126, 127, 128, 252, 253, 254, 380, 381, 382, 508, 509, 510, 636, 637, 638, 764, 765, 766, 892, 893, 894,
             1019, 1020, 1021, 1147, 1148, 1149, 1275, 1276, 2043, 2044, 2045]
VAL_CHUNK = [3000, 3880, 3890, 4090, 4093, 4094, 4095, 4096, 4097, 4100, 5000, 8190, 8200]


def run_model_io(opsfile, dump=None, timeout=900):
    xf = opsfile + '.xcheck'
    cmd = ['bash', '-c', 'ulimit -s unlimited 2>/dev/null; exec "$0" "$@"', C.DRIVER, 'iorun', opsfile]
    if dump:
        cmd += ['--dump', dump]
    ff = opsfile + '.features'
    r = subprocess.run(cmd, capture_output=True, text=True, timeout=timeout, env=dict(os.environ, VERIF_IO_XCHECK=xf, VERIF_FEATURES=ff))
    try:
        for l in open(ff):
            k, v = l.split()
            FEATURES[k] = FEATURES.get(k, 0) + int(v)
    except OSError:
        pass
    lines = r.stdout.split('\n')
    if lines and lines[-1] == '':
        lines.pop()
    xc = open(xf).read().split('\n') if os.path.exists(xf) else []
    return lines, ('ok' if r.returncode == 0 else 'crash:%d %s' % (r.returncode, r.stderr[-300:])), [l for l in xc if l]


def value_token(r, big):
    c = r.random()
    if c < big:
        ln = r.choice(VAL_CHUNK)
    elif c < 0.75:
        ln = r.choice(VAL_EDGES)
    else:
        ln = r.randrange(0, 300)
    if ln <= 40:
        return G.hx(bytes(r.randrange(256) for _ in range(ln)))
    return 'z%dx%d' % (ln, r.randrange(251))


def gen_history(seed, idx, nops, big_files=False):
    """returns (lines, info)"""
    g = G.G(seed, 'io', idx)
    r = g.rng
    nreq = r.choice([1, 1, 2, 2, 3, 4, 4, 5, 8, 8, 12, 16, 16, 17, 32, 32, 33, 64])
    n = 1
    while n < nreq:
        n *= 2
    kt = r.choice(['bytes', 'bytes', 'string', 'string', 'u64', 'i64', 'vu64'])
    bufs = [r.choice(['A', 'A', 'P1000', 'S262144', 'S0']) for _ in range(3)]
    if big_files:
        bufs[0] = r.choice(['A', 'A', 'P1000'])
    params = 'B%d,V%s,K%s,H%s' % (nreq, bufs[0], bufs[1], bufs[2])
    usize = r.choice([2, 4, 6, 10, 16]) if not big_files else r.choice([24, 40])
    if kt in ('bytes', 'string') and n >= 2 and r.random() < 0.4:
        # colliding keys: all in one or two buckets, lengths on key-slot boundaries
        lens = [r.choice([3, 5, 8, 9, 10, 11, 17, 18, 19, 25, 26, 27, 41, 42, 43]) for _ in range(4)]
        ks = g.colliding_keys(n, r.randrange(n), max(2, usize // 2), lens)
        if kt == 'string':
            ks = [bytes(0x61 + b % 26 for b in k) for k in ks]     # letters; collisions no longer guaranteed, n is small
        ks += g.key_universe(kt, max(1, usize - len(ks)))
    else:
        ks = g.key_universe(kt, usize, long_keys=big_files)
    absent = g.key_universe(kt, 2)
    big = 0.25 if big_files else 0.04
    lines = ['db d0 db', 'iotrace on', 'map m0 d0 %s m %s' % (kt, params), 'iodrain']
    for _ in range(nops):
        c = r.random()
        if c < 0.42:
            l = 'put m0 %s %s' % (G.hx(r.choice(ks)), value_token(r, big))
        elif c < 0.60:
            l = 'del m0 %s' % G.hx(r.choice(ks + absent[:1]))
        elif c < 0.75:
            l = 'get m0 %s' % G.hx(r.choice(ks + absent))
        elif c < 0.82:
            l = 'has m0 %s' % G.hx(r.choice(ks + absent))
        elif c < 0.87:
            l = r.choice(['len m0', 'empty m0'])
        elif c < 0.95:
            l = 'iter m0 %s' % r.choice(FLAVOURS)
        else:
            l = 'stats m0'
        lines += [l, 'iodrain']
    lines += ['iter m0 iter', 'iodrain', 'stats m0', 'iodrain', 'iotrace off', 'closeall', 'snap db']
    return lines, {'n': n, 'kt': kt, 'params': params, 'keys': len(ks)}


def traced(kt, params, ops):
    """the op list with the fine trace on around every call"""
    lines = ['db d0 db', 'iotrace on', 'map m0 d0 %s m %s' % (kt, params), 'iodrain']
    for l in ops:
        lines += [l, 'iodrain']
    return lines + ['iotrace off', 'closeall', 'snap db']


def gen_cascade(seed, idx):
    """one or two buckets; a chain of keys that each fill their key slot exactly; then both files are pushed past the 16 KiB
    offset-width boundary, so that moving one record makes its predecessor's link grow and move in turn (re-link cascades,
    find_prev_key_offset), started by overwrites and by deletes (same construction as scenarios.cascade_case)"""
    g = G.G(seed, 'io-casc', idx)
    r = g.rng
    first = [11, 19, 27, 43, 59]       # 1(size)+1(len)+klen+2(voff)+1(next=0)   = class
    later = [10, 18, 26, 42, 58]       # ... +2(next)                            = class
    params = 'B1,V%s,K%s,H%s' % (r.choice(['A', 'P1000']), r.choice(['A', 'P1000']), r.choice(['A', 'P1000']))
    if idx % 4 == 3:
        X, K, P, Q = b'X' * r.choice(first), b'K' * (r.choice(later) - 1), b'P' * r.choice(later), b'Q' * r.choice(later)
        keys = [X, K, P, Q]
        ops = ['put m0 %s z%dx%d' % (k.hex(), 3, j) for j, k in enumerate(keys)]
        ops += ['put m0 z17000x7 z17000x9', 'put m0 %s z600x1' % X.hex()] + ['get m0 %s' % k.hex() for k in keys]
        ops += ['del m0 %s' % K.hex()] + ['get m0 %s' % k.hex() for k in keys] + ['len m0', 'iter m0 iter']
        ops += ['del m0 %s' % P.hex(), 'put m0 %s z9x9' % K.hex()] + ['get m0 %s' % k.hex() for k in keys]
        ops += ['iter m0 keys', 'stats m0', 'len m0']
        return traced('bytes', params, ops), {'n': 1, 'kt': 'bytes', 'params': params, 'keys': 4}
    nk = r.randrange(2, 6)
    keys = [bytes([65 + j]) * (r.choice(first) if j == 0 else r.choice(later)) for j in range(nk)]
    ops = []
    for j, k in enumerate(keys):
        ops.append('put m0 %s z%dx%d' % (k.hex(), r.choice([1, 5, 13]), j))
    big = 17000
    if r.random() < 0.5:
        ops.append('put m0 z%dx7 z%dx9' % (big, big))
    else:
        ops += ['put m0 z%dx7 01' % big, 'put m0 %s z%dx9' % (b'fill'.hex(), big)]
    order = list(range(nk))
    r.shuffle(order)
    for j in order:
        if r.random() < 0.7:
            ops.append('put m0 %s z%dx%d' % (keys[j].hex(), r.choice([100, 300, 600]), j))
        else:
            ops.append('del m0 %s' % keys[j].hex())
        ops += ['get m0 %s' % k.hex() for k in keys] + ['len m0']
    for j, k in enumerate(keys):
        ops.append('put m0 %s z%dx%d' % (k.hex(), r.choice([2, 700]), j + 3))
    ops += ['get m0 %s' % k.hex() for k in keys] + ['iter m0 iter', 'stats m0', 'len m0']
    return traced('bytes', params, ops), {'n': 1, 'kt': 'bytes', 'params': params, 'keys': nk}


def gen_sparse(seed, idx):
    """larger tables with few occupied buckets at the places the three-stage bitmap scan is sensitive to
    (bucket 0, 7, 8, 63, 64, n-9, n-8, n-1), traversals between the updates; large freed slots re-used first-fit"""
    from decoder import hash_key
    g = G.G(seed, 'io-sparse', idx)
    r = g.rng
    n = r.choice([8, 16, 32, 64, 64, 128, 128, 256, 512, 1024])
    want = set(b for b in [0, 7, 8, 9, 63, 64, 65, n - 9, n - 8, n - 7, n - 1, n // 2] if 0 <= b < n)
    want = r.sample(sorted(want), min(len(want), r.randrange(1, 6)))
    keys = []
    tries = 0
    while len(keys) < len(want) and tries < 2000000:
        tries += 1
        k = bytes(r.randrange(97, 123) for _ in range(r.choice([3, 5, 8])))
        if hash_key(k) % n in want and all(hash_key(k) % n != hash_key(x) % n for x in keys):
            keys.append(k)
    params = 'B%d,V%s,K%s,H%s' % (n, r.choice(['A', 'P1000']), r.choice(['A', 'P1000']), r.choice(['A', 'P1000', 'S0']))
    ops = ['iter m0 iter', 'len m0']
    live = []
    for k in keys:
        ops += ['put m0 %s %s' % (k.hex(), value_token(r, 0.1)), 'iter m0 %s' % r.choice(FLAVOURS)]
        live.append(k)
    # large slots: freed and re-used first-fit (pop_free_piece_list_large with a predecessor)
    bigs = [1100, 1300, 1500, 2100]
    r.shuffle(bigs)
    for j, k in enumerate(keys[:3]):
        ops.append('put m0 %s z%dx%d' % (k.hex(), bigs[j], j))
    for k in keys[:3]:
        ops.append('put m0 %s 01' % k.hex())
    ops += ['stats m0'] if n <= 256 else []
    for j, k in enumerate(keys[:3]):
        ops.append('put m0 %s z%dx%d' % (k.hex(), r.choice([1050, 1200, 1400, 2000]), j))
    r.shuffle(live)
    for k in live:
        ops += ['del m0 %s' % k.hex(), 'iter m0 %s' % r.choice(FLAVOURS), 'has m0 %s' % k.hex()]
    ops += ['len m0', 'iter m0 keys'] + (['stats m0'] if n <= 256 else [])
    kt = r.choice(['bytes', 'string'])
    return traced(kt, params, ops), {'n': n, 'kt': kt, 'params': params, 'keys': len(keys)}


SIG1 = {'key': b'abysdbK\0', 'val': b'abysdbV\0', 'htx': b'abysdbH\0'}
SIG2 = {'string': b'string\0\0', 'bytes': b'bytes\0\0\0', 'i64': b'i64_le\0\0', 'u64': b'u64_le\0\0', 'vu64': b'u64_le\0\0'}


def gen_reopen(seed, idx):
    """2-3 sessions on the same three files, separated by `closeall`; every re-open with OTHER creation parameters (bucket
    count / capacity / default, buffer kinds); between the sessions: an attempt to open as another key type (panic), a header
    byte mutated (panic) and restored; the fine trace is on throughout, drained after every call (also after `closeall`)"""
    g = G.G(seed, 'io-reopen', idx)
    r = g.rng
    nreq = r.choice([1, 2, 3, 4, 5, 8, 8, 12, 16, 17, 32, 33, 64, 100, 128])
    n = 1
    while n < nreq:
        n *= 2
    kt = G.KTS[idx % 5] if idx < 10 else r.choice(['bytes', 'bytes', 'string', 'string', 'u64', 'i64', 'vu64'])

    def bufs():
        return 'V%s,K%s,H%s' % tuple(r.choice(['A', 'A', 'P1000', 'S262144', 'S0']) for _ in range(3))

    def other_params():
        """creation parameters that differ from the ones the files were created with: all of them must be ignored"""
        c = r.random()
        if c < 0.5:
            b = 'B%d' % r.choice([v for v in [1, 2, 4, 7, 8, 16, 31, 64, 256, 1000] if v != nreq])
        elif c < 0.8:
            b = 'C%d' % r.choice([1, 5, 7, 8, 9, 30, 100, 1000])
        elif c < 0.9:
            b = 'D'
        else:
            return 'default'
        return b + ',' + bufs()
    params = 'B%d,%s' % (nreq, bufs())
    ks = g.key_universe(kt, r.choice([3, 6, 10, 16]))
    absent = g.key_universe(kt, 2)
    present = set()

    def session_ops(nops):
        out = []
        for _ in range(nops):
            c = r.random()
            if c < 0.45:
                k = r.choice(ks)
                out.append('put m0 %s %s' % (G.hx(k), value_token(r, 0.08)))
                present.add(k)
            elif c < 0.60:
                k = r.choice(ks + absent[:1])
                out.append('del m0 %s' % G.hx(k))
                present.discard(k)
            elif c < 0.78:
                out.append('get m0 %s' % G.hx(r.choice(ks + absent)))
            elif c < 0.84:
                out.append('has m0 %s' % G.hx(r.choice(ks + absent)))
            elif c < 0.89:
                out.append(r.choice(['len m0', 'empty m0']))
            elif c < 0.96:
                out.append('iter m0 %s' % r.choice(FLAVOURS))
            else:
                out.append('stats m0')
        return out
    lines = ['db d0 db', 'iotrace on']
    expect = {}          # line index -> 'panic' | 'ok'
    counts = {'sessions': 0, 'wrong_type': 0, 'mutated': 0, 'known_pair': 0, 'reopens': 0}

    def call(l):
        lines.extend([l, 'iodrain'])

    def close():
        lines.extend(['closeall', 'iodrain', 'snap db'])

    def wrong_type():
        others = [t for t in G.KTS if SIG2[t] != SIG2[kt]]
        lines.append('db d0 db')
        expect[len(lines)] = 'panic'
        call('map mx d0 %s m %s' % (r.choice(others), r.choice(['default', other_params()])))
        counts['wrong_type'] += 1
        close()
        if kt in ('u64', 'vu64') and r.random() < 0.5:
            # the known finding D6: the two types share one signature, the open is accepted (model and crate agree)
            lines.append('db d0 db')
            expect[len(lines)] = 'ok'
            call('map mx d0 %s m %s' % ('vu64' if kt == 'u64' else 'u64', other_params()))
            call('len mx')
            counts['known_pair'] += 1
            close()

    def mutated():
        c = r.random()
        if c < 0.70:
            ext, pos = r.choice(['key', 'val', 'htx']), r.randrange(16)
            orig = (SIG1[ext] + SIG2[kt])[pos]
        elif c < 0.88 or n >= 256:
            ext, pos, orig = r.choice(['key', 'val']), r.randrange(16, 24), 0       # reserve0 must be 0
        else:
            ext, pos, orig = 'htx', 16, n                                             # the stored bucket count -> 0: refused
        if ext == 'htx' and pos == 16:
            v = 0
        else:
            v = r.choice([x for x in [(orig + 1) % 256, (orig - 1) % 256, 0, 255, orig ^ 1, orig ^ 0x20, orig ^ 0x80, r.randrange(256)] if x != orig])
        lines.extend(['mutate db m.%s %d %d' % (ext, pos, v), 'snap db', 'db d0 db'])
        expect[len(lines)] = 'panic'
        call('map mx d0 %s m %s' % (kt, r.choice([params, other_params()])))
        counts['mutated'] += 1
        close()
        lines.append('mutate db m.%s %d %d' % (ext, pos, orig))
    # session 1: creation
    expect[len(lines)] = 'ok'
    call('map m0 d0 %s m %s' % (kt, params))
    for l in session_ops(r.choice([8, 20, 40])):
        call(l)
    if r.random() < 0.5:
        call('put m0 %s z%dx5' % (G.hx(ks[0]), r.choice([4090, 5000, 8200])))
        present.add(ks[0])
    close()
    counts['sessions'] = 1
    nsess = r.choice([2, 2, 3])
    for sno in range(2, nsess + 1):
        what = [wrong_type, mutated] if (idx + sno) % 2 == 0 else [mutated, wrong_type]
        for f in what:
            if r.random() < 0.75:
                f()
        lines.append('db d0 db')
        expect[len(lines)] = 'ok'
        call('map m0 d0 %s m %s' % (kt, other_params()))
        counts['reopens'] += 1
        call('len m0')
        for k in ks[:8] + absent[:1]:
            call('get m0 %s' % G.hx(k))
        for l in session_ops(r.choice([6, 15, 30])):
            call(l)
        if r.random() < 0.6:
            # a value across the chunk edge: the split of the write follows the buffer of THIS session
            call('put m0 %s z%dx7' % (G.hx(r.choice(ks)), r.choice([3890, 4097, 5000, 8200])))
        if sno == nsess:
            call('iter m0 iter')
            call('stats m0')
        close()
        counts['sessions'] += 1
    if r.random() < 0.5:
        r.choice([wrong_type, mutated])()

    def short_foreign():
        # at the very end (nothing is restored): one file cut to L bytes AND one of the signature bytes still present changed;
        # the open must be refused at that file, reading zeros beyond the end, without a write (Io_open_any.open_any_foreign_rejected)
        ext = r.choice(['key', 'val', 'htx'])
        L = r.choice([7, 8, 9, 12, 15, 16, 17, 20, 23, 24, 25, 40, 64, 100, 127, 128, 129, 200])
        pos = r.randrange(min(L, 16))
        if pos == 7:
            pos = 6
        orig = (SIG1[ext] + SIG2[kt])[pos]
        v = r.choice([x for x in [(orig + 1) % 256, 0, 255, orig ^ 1, orig ^ 0x20, r.randrange(256)] if x != orig])
        lines.extend(['truncfile db m.%s %d' % (ext, L), 'mutate db m.%s %d %d' % (ext, pos, v), 'snap db', 'db d0 db'])
        expect[len(lines)] = 'panic'
        call('map mx d0 %s m %s' % (kt, r.choice([params, other_params()])))
        counts['short_foreign'] = counts.get('short_foreign', 0) + 1
        close()
    if r.random() < 0.6:
        short_foreign()
    lines += ['iotrace off', 'snap db']
    return lines, {'n': n, 'kt': kt, 'params': params, 'keys': len(ks), 'expect': expect, 'counts': counts}


# census of the REAL trace against the domain of the cache transparency theorem (Cache_proofs.cache_refines_flat): the flat
# domain excludes reads that end beyond the end of the file and a shrinking set_len (seeks beyond the end are reported as
# violations by the oracle below)
CACHE_DOMAIN = {'events': 0, 'reads_ending_beyond_eof': 0, 'max_bytes_beyond_eof': 0, 'set_len_shrinking': 0, 'files_with_reads_beyond_eof': {}}


def trace_oracle(lines, impl_lines):
    """direct oracles on the real trace. returns (problem text, index of the op) or None"""
    end = {'key': 0, 'val': 0, 'htx': 0}
    cur = None
    for i, l in enumerate(lines):
        if i >= len(impl_lines):
            break
        k = l.split()[0]
        if k != 'iodrain':
            cur = (i, l)
            continue
        out = impl_lines[i]
        if not out.startswith('io'):
            continue
        opi, op = cur if cur else (i, '')
        kind = op.split()[0] if op else ''
        # a rejected open (the runner reports `panic`) must leave the three files untouched: it is held to the read-only rule
        rejected = kind == 'map' and opi < len(impl_lines) and impl_lines[opi].startswith('panic')
        ro = kind in READ_ONLY or rejected
        what_call = 'the rejected open' if rejected else 'the read-only call'
        for e in out.split()[1:]:
            t = e.split(':')
            f, what = t[0], t[1]
            if f not in end:
                continue
            CACHE_DOMAIN['events'] += 1
            if what == 'r' and len(t) >= 4 and t[2].isdigit() and int(t[2]) + int(t[3]) > end[f]:
                CACHE_DOMAIN['reads_ending_beyond_eof'] += 1
                CACHE_DOMAIN['max_bytes_beyond_eof'] = max(CACHE_DOMAIN['max_bytes_beyond_eof'], int(t[2]) + int(t[3]) - end[f])
                CACHE_DOMAIN['files_with_reads_beyond_eof'][f] = CACHE_DOMAIN['files_with_reads_beyond_eof'].get(f, 0) + 1
            if what == 'l' and t[2].isdigit() and int(t[2]) < end[f]:
                CACHE_DOMAIN['set_len_shrinking'] += 1
            if what == 's':
                if t[2] == '!':
                    continue
                tgt = int(t[2])
                if tgt > end[f]:
                    return ('`%s` seeks the .%s file to %d, beyond its end %d (the buffered file then EXTENDS it): event `%s`' % (op[:80], f, tgt, end[f], e), opi)
            elif what == 'w':
                if ro:
                    return ('%s `%s` writes to the .%s file: event `%s`' % (what_call, op[:80], f, e), opi)
                if t[2] != '?':
                    end[f] = max(end[f], int(t[2]) + int(t[3]))
            elif what == 'l':
                if ro:
                    return ('%s `%s` changes the length of the .%s file: event `%s`' % (what_call, op[:80], f, e), opi)
                end[f] = int(t[2])
    return None


# which method of the buffered file served each read / write of the REAL trace (fifth field of an event, fine io-trace hook):
# the model logs position and length only; Cache_x.cache_refines_xflat_variants covers every way of making a call whose guard
# holds (a `*_small` call no longer than a chunk, read_max_8_bytes of at most 8 bytes, a partial read/write inside its chunk)
METHODS = {}
METHOD_GUARD_FAILS = []


def strip_methods(line):
    """the real iodrain line without the method fields; counts the methods and checks their guards on the way"""
    if not line.startswith('io'):
        return line
    out = []
    for e in line.split():
        t = e.split(':')
        if len(t) == 5 and t[1] in ('r', 'w'):
            m = t[4]
            METHODS[m] = METHODS.get(m, 0) + 1
            n = int(t[3])
            if (m.endswith('_small') and n > 4096) or (m == 'read_max_8_bytes' and n > 8) or \
               (m in ('read_u8', 'write_u8') and n != 1) or (m in ('read_u16_le', 'write_u16_le') and n != 2) or \
               (m in ('read_u32_le', 'write_u32_le') and n != 4) or (m in ('read_u64_le', 'write_u64_le') and n != 8):
                METHOD_GUARD_FAILS.append(e)
            out.append(':'.join(t[:4]))
        else:
            out.append(e)
    return ' '.join(out)


def first_event_diff(a, b):
    ea, eb = a.split(), b.split()
    for j in range(max(len(ea), len(eb))):
        x = ea[j] if j < len(ea) else '<end>'
        y = eb[j] if j < len(eb) else '<end>'
        if x != y:
            return j, x, y, ' '.join(ea[max(0, j - 6):j])
    return None


def check_history(ctx, scen, idx, lines, info=None):
    """runs one history on both sides; returns dict(ok, ops, events)"""
    d = os.path.join(ctx.root, '%s_%d' % (scen, idx))
    shutil.rmtree(d, ignore_errors=True)
    os.makedirs(d, exist_ok=True)
    f = os.path.join(d, 'ops')
    C.write_ops(f, lines)
    il, ist = C.run_impl(f, os.path.join(d, 'impl'), dump=os.path.join(d, 'impl_dump'), timeout=600)
    os.makedirs(os.path.join(d, 'model_dump'), exist_ok=True)
    ml, mst, xc = run_model_io(f, dump=os.path.join(d, 'model_dump'))
    ctx.scen_counts[scen] = ctx.scen_counts.get(scen, 0) + 1
    ctx.distinct.add('\n'.join(lines))
    res = {'ok': True, 'ops': 0, 'events': 0}
    name = '%s_%d' % (scen, idx)
    head = 'Io correspondence, scenario %s #%d, seed %s %s' % (scen, idx, ctx.seed, {k: v for k, v in (info or {}).items() if k != 'expect'} or '')
    # 1. direct oracles on the real trace: a failing input of the implementation itself
    hit = trace_oracle(lines, il)
    if hit:
        text, opi = hit
        ctx.violation(name + '_oracle', head + '\ntrace oracle on the REAL io-trace: ' + text + '\nreplay: harness run <this file> <dir> and read the `io` line after that call',
                      lines[:opi + 2] + ['iotrace off', 'closeall', 'snap db'], found=True)
        res['ok'] = False
    if ist != 'ok':
        # the real crate hangs / crashes on this history: the history IS the failing input (cut after the call that did not return)
        concrete = ist.split(':')[0] in ('hang', 'crash', 'panic', 'timeout')
        ctx.violation(name + '_impl', head + '\nthe runner ended with %s after %d lines%s' % (ist, len(il), ': the call `%s` of the implementation does not return normally'
                      % lines[min(len(il), len(lines) - 1)][:100] if concrete else ''), lines[:len(il) + 1] if concrete else lines, found=concrete)
        res['ok'] = False
        return res
    if mst != 'ok':
        ctx.disagreements += 1
        ctx.violation(name + '_model', head + '\nthe Io model run failed: %s' % mst, lines, found=False)
        res['ok'] = False
        return res
    # 1b. the opens of a reopen history: rejected where it must be, accepted where it must be (real crate, directly)
    for i, want in sorted(((info or {}).get('expect') or {}).items()):
        got = il[i] if i < len(il) else 'MISSING'
        if (want == 'panic') != got.startswith('panic') or (want == 'ok' and got != 'ok'):
            why = ('was NOT rejected (key type of another signature / mutated header byte)' if want == 'panic' else 'did not succeed')
            ctx.violation(name + '_open', head + '\nthe open `%s` %s: the runner reports `%s`' % (lines[i][:100], why, got[:100]),
                          lines[:i + 2] + ['iotrace off', 'closeall', 'snap db'], found=True)
            res['ok'] = False
            break
    rejected_at = set(i for i, want in ((info or {}).get('expect') or {}).items() if want == 'panic')
    accepted_at = set(sorted(i for i, want in ((info or {}).get('expect') or {}).items() if want == 'ok')[1:])     # the first one is the creation
    # 2. results and event lists, line by line
    for i, l in enumerate(lines):
        a = il[i] if i < len(il) else 'MISSING'
        b = ml[i] if i < len(ml) else 'MISSING'
        k = l.split()[0]
        if k == 'iodrain':
            a = strip_methods(a)
            res['events'] += max(0, len(a.split()) - 1)
            if (i - 1) in rejected_at:
                res['rejected_open_events'] = res.get('rejected_open_events', 0) + max(0, len(a.split()) - 1)
            elif (i - 1) in accepted_at:
                res['accepted_reopen_events'] = res.get('accepted_reopen_events', 0) + max(0, len(a.split()) - 1)
            if a != b:
                ctx.disagreements += 1
                j, x, y, before = first_event_diff(a, b)
                if res['ok']:
                    ctx.violation(name, head + '\nI/O event lists differ for op %d `%s`: event #%d real `%s` / model `%s` (after: %s)\n  real : %s\n  model: %s'
                                  % (i - 1, lines[i - 1][:100], j, x, y, before, a[:1500], b[:1500]), lines[:i + 1], found=False)
                res['ok'] = False
                return res
        else:
            if k in TRACED:
                res['ops'] += 1
            if not C.same(l, a, b):
                ctx.disagreements += 1
                if res['ok']:
                    ctx.violation(name, head + '\nAPI results differ at op %d `%s`: real `%s` / Io model `%s`' % (i, l[:100], a[:300], b[:300]), lines[:i + 1], found=False)
                res['ok'] = False
                return res
    ctx.evaluations += res['ops']
    # sizes reached (for the evidence): from the final snap line `m.htx=<len>:<sum> m.key=... m.val=...`
    try:
        for tok in il[len(lines) - 1].split()[1:]:
            nm, v = tok.split('=')
            res['size_' + nm.split('.')[-1]] = int(v.split(':')[0])
    except Exception:
        pass
    res['split_writes'] = sum(1 for i, l in enumerate(lines) if l == 'iodrain' and i < len(il) for e in il[i].split()[1:] if e.startswith('val:w:') and (int(e.split(':')[2]) + int(e.split(':')[3])) % 4096 == 0 and int(e.split(':')[3]) > 8)
    # 3. the files, byte for byte
    for ext in ('htx', 'key', 'val'):
        pa = os.path.join(d, 'impl', 'db', 'm.' + ext)
        pb = os.path.join(d, 'model_dump', 'snap%d' % max(1, sum(1 for l in lines if l.split()[0] == 'snap')), 'm.' + ext)
        try:
            same = open(pa, 'rb').read() == open(pb, 'rb').read()
        except OSError as e:
            same = False
        if not same:
            ctx.disagreements += 1
            if res['ok']:
                ctx.violation(name + '_files', head + '\nthe .%s file of the crate differs from the Io model\'s flat file at the end' % ext, lines, found=False)
            res['ok'] = False
    # 4. the record-level model alongside
    summ = xc[0] if xc else ''
    for tok in summ.split()[1:]:
        kk, _, vv = tok.partition('=')
        if vv.isdigit():
            res['xc_' + kk] = int(vv)
    if not summ.startswith('summary') or ' api_differ=0 ' not in summ + ' ' or ' open_differ=0 ' not in summ + ' ' or not summ.rstrip().endswith('render_differ=0') or 'render_checks=0' in summ:
        ctx.disagreements += 1
        if res['ok']:
            ctx.violation(name + '_xcheck', head + '\nIo model vs record-level model (same driver run): %s' % ' | '.join(xc[:4]), lines, found=False)
        res['ok'] = False
    if res['ok']:
        shutil.rmtree(d, ignore_errors=True)
    return res


def _publish_domain(ctx):
    ctx.distribution['io_real_trace_vs_cache_theorem_domain'] = {k: (dict(v) if isinstance(v, dict) else v) for k, v in CACHE_DOMAIN.items()}
    # the hypothesis of Io_cache.checked_step_in_domain, decided by the EXTRACTED Io_flat.evs_ok on the events of every call
    # (per call and file; the event lists are the ones compared with the real trace): calls inside / outside the domain in which
    # the cache theorem (Cache_x.cache_refines_xflat) applies
    ctx.distribution['real_calls_by_method_of_the_buffered_file'] = dict(sorted(METHODS.items()), guard_failures=len(METHOD_GUARD_FAILS))
    if METHOD_GUARD_FAILS:
        ctx.violation('io_method_guard', 'a call into the buffered file is outside the guard of its method (e.g. a *_small call longer than a chunk): %s'
                      % ' '.join(METHOD_GUARD_FAILS[:5]), None, found=False)
    dom = {k[len('cache_domain:'):]: v for k, v in FEATURES.items() if k.startswith('cache_domain:')}
    ctx.distribution['calls_in_the_domain_of_the_cache_theorem'] = {
        'call_file_pairs_inside': sum(v for k, v in dom.items() if k.endswith(':in')),
        'call_file_pairs_outside': sum(v for k, v in dom.items() if ':OUT' in k),
        'by_call': dict(sorted(dom.items()))}


def scen_io(ctx, n_hist=None, n_big=None, n_casc=None, n_sparse=None, n_reopen=0):
    ctx.rule = ('L_io: every VarFile primitive of every call (seek target / read / write / set_len with position and length), real crate vs the extracted '
                'byte-level model Io.v, event by event; API results; final files byte for byte; Io files = Layout.render of the record-level model; '
                'direct oracles on the real trace (no write/set_len/extending seek in a read-only call, no seek beyond the end at all); class reopen: sessions separated by closeall, '
                're-opened with other creation parameters (Io.open_existing), opens as a key type of another signature and with one header byte mutated: rejected, and a rejected open '
                'logs no write, no set_len, no seek beyond the end on any of the three files; distinct = distinct op files')
    n_hist = n_hist if n_hist is not None else ctx.scale(60, 400)
    n_big = n_big if n_big is not None else ctx.scale(4, 24)
    n_casc = n_casc if n_casc is not None else ctx.scale(12, 80)
    n_sparse = n_sparse if n_sparse is not None else ctx.scale(16, 100)
    n_reopen = n_reopen if n_reopen is not None else ctx.scale(40, 240)      # default 0: the callers in scenarios.py (C01/C04/C08/C15/C18) are unchanged; None = 40 / 240
    jobs = ([('hist', i, False) for i in range(n_hist)] + [('big', i, True) for i in range(n_big)] +
            [('cascade', i, False) for i in range(n_casc)] + [('sparse', i, False) for i in range(n_sparse)] +
            [('reopen', i, False) for i in range(n_reopen)])

    def one(job):
        scen, i, big = job
        r = random.Random('%s/io-len/%s/%d' % (ctx.seed, scen, i))
        nops = r.choice([40, 80, 120]) if not big else r.choice([120, 160])
        if scen == 'cascade':
            lines, info = gen_cascade(ctx.seed, i)
        elif scen == 'sparse':
            lines, info = gen_sparse(ctx.seed, i)
        elif scen == 'reopen':
            lines, info = gen_reopen(ctx.seed, i)
        else:
            lines, info = gen_history(ctx.seed, i if not big else 100000 + i, nops, big_files=big)
        out = check_history(ctx, scen, i, lines, info)
        out['info'] = info
        out['scen'] = scen
        return out
    from concurrent.futures import ThreadPoolExecutor
    with ThreadPoolExecutor(max_workers=8) as ex:
        res = list(ex.map(one, jobs))
    d = ctx.distribution.setdefault('io', {})
    d['histories'] = len(res)
    d['histories_agreeing'] = sum(1 for x in res if x['ok'])
    d['api_calls_compared'] = sum(x['ops'] for x in res)
    d['io_events_compared'] = sum(x['events'] for x in res)
    d['max_key_file'] = max([x.get('size_key', 0) for x in res] + [0])
    d['max_val_file'] = max([x.get('size_val', 0) for x in res] + [0])
    d['key_files_past_16KiB'] = sum(1 for x in res if x.get('size_key', 0) > 16384)
    d['val_files_past_16KiB'] = sum(1 for x in res if x.get('size_val', 0) > 16384)
    d['writes_ending_on_a_4KiB_chunk_boundary'] = sum(x.get('split_writes', 0) for x in res)
    ro = [x for x in res if x.get('scen') == 'reopen']
    d['reopen_histories'] = len(ro)
    d['reopen_histories_agreeing'] = sum(1 for x in ro if x['ok'])
    d['reopen_sessions'] = sum(x['info']['counts']['sessions'] for x in ro)
    d['reopens_with_other_parameters'] = sum(x['info']['counts']['reopens'] for x in ro)
    d['opens_as_wrong_key_type'] = sum(x['info']['counts']['wrong_type'] for x in ro)
    d['opens_with_mutated_header_byte'] = sum(x['info']['counts']['mutated'] for x in ro)
    d['opens_of_short_files_with_a_foreign_signature'] = sum(x['info']['counts'].get('short_foreign', 0) for x in ro)
    d['opens_as_known_pair_u64_vu64'] = sum(x['info']['counts']['known_pair'] for x in ro)
    d['io_events_of_rejected_opens_compared'] = sum(x.get('rejected_open_events', 0) for x in ro)
    d['io_events_of_accepted_reopens_compared'] = sum(x.get('accepted_reopen_events', 0) for x in ro)
    # from the model driver: Io.open_existing against the pure header check Open.open_files on the same images
    d['model_opens_of_existing_files'] = sum(x.get('xc_opens_of_existing', 0) for x in res)
    d['model_opens_rejected'] = sum(x.get('xc_opens_rejected', 0) for x in res)
    d['model_open_vs_Open_open_files_differ'] = sum(x.get('xc_open_differ', 0) for x in res)
    ctx.distribution['model_paths'] = dict(sorted(FEATURES.items()))
    bk = ctx.distribution.setdefault('io_buckets', {})
    for x in res:
        bk[str(x['info']['n'])] = bk.get(str(x['info']['n']), 0) + 1
    _publish_domain(ctx)
    return res
