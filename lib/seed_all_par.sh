#!/bin/bash
# lib/seed_all.sh in parallel: every seeded change of /verif/seeded re-run, isolated (seed_trial_iso.sh with its own TRIAL_TAG),
# against the quick check of its property.  usage: lib/seed_all_par.sh <outdir> <workers> [only-id ...]
OUT=${1:-/root/scratch/trials_all}; W=${2:-4}; shift 2
mkdir -p $OUT
ONLY="$*"
one() {
  id=$1; OUT=$2; d=/verif/seeded/$id
  case $id in
    A1_*) P="C06 C05 C17" ;;
    X1_*) P="C09 C12" ;;
    H1_*) P="C01 C04 C05 C06 C08 C09 C15 C17 C18" ;;      # the harmless rewrite: every one of these must stay quiet
    H*)   P=$(python3 -c "import json;print(' '.join(json.load(open('$d/meta.json')).get('quiet_on_quick', ['C01','C05','C15'])))" 2>/dev/null || echo "C01 C05 C15") ;;
    *)    P=${id:0:3} ;;
  esac
  r=$(TRIAL_TAG=_$id /verif/lib/seed_trial_iso.sh $d/patch.diff $OUT/$id $P | grep " rc=" | sed 's/ violation lines.*//' | tr '\n' ';')
  rm -rf /root/scratch/trial_verif_$id
  echo "$id -> $r" | tee -a $OUT/ALL.txt
}
export -f one
ls /verif/seeded | while read id; do
  [ -f /verif/seeded/$id/patch.diff ] || continue
  if [ -n "$ONLY" ] && ! echo " $ONLY " | grep -q " $id "; then continue; fi
  echo $id
done | xargs -P $W -I{} bash -c "one {} $OUT"
