#!/usr/bin/env python3
"""Shared machinery of the checks: builds (harness from /repo's working tree with the hooks on,
Coq development against the regenerated constants, extracted model), paired execution of
operation files on the implementation and on the model, comparison, shrinking, evidence."""
import hashlib, json, os, random, re, shutil, subprocess, sys, time

VERIF = os.path.dirname(os.path.dirname(os.path.abspath(__file__)))     # /verif, or a snapshot of it (vp run)
REPO = os.environ.get('VERIF_REPO', '/repo')      # the registered checks use /repo; seeded-change trials point this at a scratch worktree
BUILD = os.path.join(VERIF, 'build')
COQ = os.path.join(VERIF, 'coq')
HARNESS = os.path.join(BUILD, 'cargo-target', 'debug', 'harness')
HARNESS_REL = os.path.join(BUILD, 'cargo-target', 'release', 'harness')
DRIVER = os.path.join(BUILD, 'ocaml', 'driver')
WORK = os.path.join(BUILD, 'work')
REPLAYS = os.environ.get('VERIF_REPLAY_DIR', os.path.join(VERIF, 'replays'))
EVIDENCE = os.environ.get('VERIF_EVIDENCE_DIR', os.path.join(VERIF, 'evidence'))   # trials against seeded changes redirect these
GUARD = '--cfg abyssiniandb_verif'
ENV = dict(os.environ, CARGO_NET_OFFLINE='true', RUSTFLAGS=GUARD, CARGO_TARGET_DIR=os.path.join(BUILD, 'cargo-target'))

FORBIDDEN = re.compile(r'\b(Admitted|admit|Axiom|Axioms|Parameter|Parameters|Conjecture|Conjectures|Abort All|Unset Guard Checking|Unset Positivity Checking|Unset Universe Checking|bypass_check|type-in-type|impredicative-set|Admit Obligations)\b')


def log(*a):
    print(*a, file=sys.stderr, flush=True)


def sh(cmd, timeout=3600, cwd=None, env=None, check=False):
    r = subprocess.run(cmd, cwd=cwd, env=env or ENV, capture_output=True, text=True, timeout=timeout)
    if check and r.returncode != 0:
        raise RuntimeError('command failed: %s\n%s\n%s' % (cmd, r.stdout[-3000:], r.stderr[-3000:]))
    return r


def file_hash(paths):
    h = hashlib.sha256()
    for p in sorted(paths):
        h.update(p.encode())
        with open(p, 'rb') as f:
            h.update(f.read())
    return h.hexdigest()


# ---------------------------------------------------------------- builds
def build_harness(release=False):
    """cargo build of the runner against /repo's current working tree, hooks on. Returns (ok, log)."""
    os.makedirs(BUILD, exist_ok=True)
    cmd = ['cargo', 'build', '--offline'] + (['--release'] if release else [])
    hdir = os.path.join(VERIF, 'harness')
    if REPO != '/repo':
        # same runner, path dependency pointed at the other tree
        alt = os.path.join(BUILD, 'harness_alt')
        shutil.rmtree(alt, ignore_errors=True)
        shutil.copytree(hdir, alt)
        ct = os.path.join(alt, 'Cargo.toml')
        txt = open(ct).read().replace('path = "/repo"', 'path = "%s"' % REPO)
        open(ct, 'w').write(txt)
        hdir = alt
    r = sh(cmd, cwd=hdir, timeout=1800)
    return r.returncode == 0, r.stdout + r.stderr


def regen_consts():
    """writes coq/gen/Consts.v from the crate's probe; only touches the file when it changes."""
    r = sh([HARNESS, 'consts'], check=True)
    tmp = os.path.join(BUILD, 'consts.txt')
    open(tmp, 'w').write(r.stdout)
    dst = os.path.join(COQ, 'gen', 'Consts.v')
    new = os.path.join(BUILD, 'Consts.v.new')
    os.makedirs(os.path.dirname(dst), exist_ok=True)
    sh([sys.executable, os.path.join(VERIF, 'lib', 'gen_consts.py'), tmp, new], check=True)
    if not os.path.exists(dst) or open(dst).read() != open(new).read():
        shutil.copy(new, dst)
    return r.stdout


def use_pinned_consts():
    """coq/gen/Consts.v := the committed copy of the constants the proofs were made for (coq/gen/Consts.pinned).  Used only to
    search for a failing input after the model failed to build against the regenerated constants; the next run regenerates."""
    src = os.path.join(COQ, 'gen', 'Consts.pinned')
    dst = os.path.join(COQ, 'gen', 'Consts.v')
    if not os.path.exists(src) or open(src).read() == open(dst).read():
        return False
    shutil.copy(src, dst)
    return True


def regen_hash_vectors():
    """64 hash vectors computed by the crate on this run -> coq/gen/Hash_vectors.v (Examples by vm_compute)."""
    rng = random.Random(20260926)
    keys = [b'', b'a', b'ab', b'abcdefg', b'abcdefgh', b'abcdefghi', bytes(range(16)), bytes(range(17)), b'\x00', b'\x00' * 8, b'\xff' * 9]
    while len(keys) < 64:
        keys.append(bytes(rng.randrange(256) for _ in range(rng.choice([1, 2, 3, 7, 8, 9, 15, 16, 17, 24, 31, 33, 64, 100]))))
    f = os.path.join(BUILD, 'hashkeys.txt')
    open(f, 'w').write(''.join('h %s\n' % (k.hex() or '-') for k in keys))
    r = sh([HARNESS, 'conv', f], check=True)
    lines = ['(* GENERATED on every run: placement hashes computed by the crate itself. *)',
             'From Aby Require Import Base Hash.', '']
    hs = []
    for i, l in enumerate(r.stdout.strip().split('\n')):
        t = l.split()
        vals = set(t[2:])
        assert len(vals) == 1, 'key types disagree on hash: ' + l
        h = int(t[2], 16)
        k = keys[i]
        hs.append(h)
        lines.append('Example hv_%d : hash_value [%s] = %d.\nProof. vm_compute. reflexivity. Qed.' % (i, '; '.join(str(b) for b in k), h))
    dst = os.path.join(COQ, 'gen', 'Hash_vectors.v')
    txt = '\n'.join(lines) + '\n'
    if not os.path.exists(dst) or open(dst).read() != txt:
        open(dst, 'w').write(txt)
    return len(keys)


def coq_sources():
    out = []
    for d in ('gen', 'theories', 'Props'):
        dd = os.path.join(COQ, d)
        if os.path.isdir(dd):
            out += [os.path.join(dd, f) for f in sorted(os.listdir(dd)) if f.endswith('.v')]
    p = os.path.join(COQ, 'Pins.v')
    if os.path.exists(p):
        out.append(p)
    return out


def grep_forbidden():
    """no Admitted/Axiom/... anywhere in the development (comments are stripped first)."""
    bad = []
    for p in coq_sources():
        src = open(p).read()
        # strip comments (nested)
        out = []
        depth = 0
        i = 0
        while i < len(src):
            if src.startswith('(*', i):
                depth += 1; i += 2
            elif src.startswith('*)', i) and depth > 0:
                depth -= 1; i += 2
            else:
                if depth == 0:
                    out.append(src[i])
                i += 1
        code = ''.join(out)
        for m in FORBIDDEN.finditer(code):
            bad.append('%s: %s' % (os.path.relpath(p, VERIF), m.group(0)))
        # Variable/Hypothesis/Context outside a section
        sec = 0
        for line in code.split('\n'):
            s = line.strip()
            if re.match(r'Section\b', s): sec += 1
            elif re.match(r'End\b', s) and sec > 0: sec -= 1
            elif sec == 0 and re.match(r'(Variable|Variables|Hypothesis|Hypotheses|Context)\b', s):
                bad.append('%s: %s outside a section' % (os.path.relpath(p, VERIF), s.split()[0]))
    return bad


def coq_make(targets, timeout=3000, jobs=16):
    """full .vo build (never -vos) of the given targets. Returns (ok, log)."""
    mk = os.path.join(COQ, 'Makefile')
    cp = os.path.join(COQ, '_CoqProject')
    if not os.path.exists(mk) or os.path.getmtime(mk) < os.path.getmtime(cp):
        sh(['coq_makefile', '-f', '_CoqProject', '-o', 'Makefile'], cwd=COQ, check=True)
    r = sh(['timeout', str(timeout), 'make', '-j%d' % jobs] + targets, cwd=COQ, timeout=timeout + 60)
    return r.returncode == 0, r.stdout + r.stderr


def build_driver():
    """extract the model (ExtrOcamlBasic only) and compile the driver; cached by source hash."""
    od = os.path.join(BUILD, 'ocaml')
    os.makedirs(od, exist_ok=True)
    srcs = [p for p in coq_sources() if '/Props/' not in p and 'proofs' not in os.path.basename(p).lower()
            and not os.path.basename(p).startswith(('Hash_vectors', 'Pins', 'Golden', 'Regress'))]
    srcs.append(os.path.join(VERIF, 'ocaml', 'driver.ml'))
    hh = file_hash(srcs)
    stamp = os.path.join(od, 'stamp')
    if os.path.exists(stamp) and open(stamp).read() == hh and os.path.exists(DRIVER):
        return True, 'cached'
    # everything Extract.v imports
    ex = open(os.path.join(COQ, 'theories', 'Extract.v')).read()
    mods = re.findall(r'From Aby Require Import ([^.]*)\.', ex)
    targets = ['gen/Consts.vo' if m == 'Consts' else 'theories/%s.vo' % m for line in mods for m in line.split()]
    ok, lg = coq_make(targets)
    if not ok:
        return False, lg
    r = sh(['timeout', '600', 'coqc', '-Q', os.path.join(COQ, 'gen'), 'Aby', '-Q', os.path.join(COQ, 'theories'), 'Aby',
            os.path.join(COQ, 'theories', 'Extract.v')], cwd=od)
    for junk in ('Extract.vo', 'Extract.glob', '.Extract.aux', 'Extract.vok', 'Extract.vos'):
        try: os.remove(os.path.join(COQ, 'theories', junk))
        except OSError: pass
    if r.returncode != 0:
        return False, r.stdout + r.stderr
    shutil.copy(os.path.join(VERIF, 'ocaml', 'driver.ml'), os.path.join(od, 'driver.ml'))
    r = sh(['ocamlfind', 'ocamlopt', '-package', 'unix', '-linkpkg', '-O2', '-w', '-a', 'model.mli', 'model.ml', 'driver.ml', '-o', 'driver'], cwd=od)
    if r.returncode != 0:
        return False, r.stdout + r.stderr
    open(stamp, 'w').write(hh)
    return True, 'built'


# ---------------------------------------------------------------- paired execution
def run_impl(opsfile, workdir, timeout=300, op_timeout=20, dump=None, release=False, env=None):
    """returns (lines, status) ; status: 'ok' | 'crash:<rc>' | 'hang'"""
    cmd = [HARNESS_REL if release else HARNESS, 'run', opsfile, workdir, '--timeout', str(op_timeout)]
    if dump:
        cmd += ['--dump', dump]
    try:
        r = subprocess.run(cmd, capture_output=True, text=True, timeout=timeout, env=env or ENV)
    except subprocess.TimeoutExpired as e:
        out = (e.stdout or b'').decode() if isinstance(e.stdout, bytes) else (e.stdout or '')
        return out.split('\n')[:-1], 'hang'
    lines = r.stdout.split('\n')
    if lines and lines[-1] == '':
        lines.pop()
    if r.returncode == 0:
        return lines, 'ok'
    if r.returncode == 3:
        return lines, 'hang'
    return lines, 'crash:%d' % r.returncode


MODEL_FEATURES = {}      # which paths of the model the histories of this run exercised (driver side file)


def run_model(opsfile, timeout=600, dump=None):
    # the extracted list functions are not tail recursive: run the model with an unlimited stack
    cmd = ['bash', '-c', 'ulimit -s unlimited 2>/dev/null; exec "$0" "$@"', DRIVER, 'run', opsfile]
    if dump:
        cmd += ['--dump', dump]
    ff = opsfile + '.features'
    r = subprocess.run(cmd, capture_output=True, text=True, timeout=timeout, env=dict(os.environ, VERIF_FEATURES=ff))
    try:
        for l in open(ff):
            k, v = l.split()
            MODEL_FEATURES[k] = MODEL_FEATURES.get(k, 0) + int(v)
        os.remove(ff)
    except OSError:
        pass
    lines = r.stdout.split('\n')
    if lines and lines[-1] == '':
        lines.pop()
    return lines, ('ok' if r.returncode == 0 else 'crash:%d %s' % (r.returncode, r.stderr[-300:]))


def ops_of(opsfile):
    return [l.strip() for l in open(opsfile) if l.strip() and not l.startswith('#')]


def lossy(tok):
    """apply String::from_utf8_lossy to a 'some:<hex>' token of the model (string variants)."""
    if not tok.startswith('some:') or tok.startswith('some:#'):
        return tok
    h = tok[5:]
    b = b'' if h == '-' else bytes.fromhex(h)
    s = b.decode('utf-8', errors='replace').encode('utf-8')
    if len(s) <= 40:
        return 'some:' + (s.hex() or '-')
    a, c = 1, 0
    for x in s:
        a = (a + x) % 16777213
        c = (c + a) % 16777213
    return 'some:#%d:%x' % (len(s), (c << 24) | a)


def same(op, impl, model):
    """is the implementation's output line what the model predicts for this op?"""
    if model.startswith('skip:'):
        return True
    if impl == model:
        return True
    kind = op.split()[0]
    if model.startswith('panic:') and impl == 'panic':
        return True
    if model == 'err' and impl.startswith('err:'):
        return True
    if kind == 'snap':
        it, mt = impl.split()[1:], model.split()[1:]
        # maps the model knows; files of other names are ignored (e.g. foreign files in C13)
        md = dict(x.split('=', 1) for x in mt)
        idd = dict(x.split('=', 1) for x in it)
        for k, v in md.items():
            if v == '?':
                continue
            if idd.get(k) != v:
                return False
        return True
    # getstr / delstr / bulkgetstr / bulkdelstr: the model line comes from Strings.sstep, which has applied Utf8.lossy to every
    # value already - the crate's *_string calls are compared with the Coq function itself (plain equality, above)
    return False


def compare(opsfile, workdir, dump=False, release=False, op_timeout=20):
    """single process case: see compare_segments"""
    return compare_segments([ops_of(opsfile)], workdir, dump=dump, release=release, op_timeout=op_timeout)


def compare_segments(segments, workdir, dump=False, release=False, op_timeout=20):
    """runs the implementation (one process per segment, same directory) and the model (the
    concatenation). returns dict(ok, index, op, impl, model, n, impl_status, ...).
    index counts ops over the concatenation."""
    shutil.rmtree(workdir, ignore_errors=True)
    os.makedirs(workdir, exist_ok=True)
    allops = [l for seg in segments for l in seg if l.strip() and not l.startswith('#')]
    mf = os.path.join(workdir, 'model.ops')
    write_ops(mf, allops)
    ml, mst = run_model(mf, dump=os.path.join(workdir, 'model_dump') if dump else None)
    res = {'ok': True, 'n': len(allops), 'impl_status': 'ok', 'model_status': mst, 'impl_lines': [], 'model_lines': ml}
    if mst != 'ok':
        res.update(ok=False, index=len(ml), op=allops[len(ml)] if len(ml) < len(allops) else '', impl='', model='MODEL ' + mst)
        return res
    base = 0
    limited = False          # RLIMIT_FSIZE lowered: flush/sync may report an error
    fault_pending = False    # a flush failed: the disk is indeterminate until the next successful flush
    for si, seg in enumerate(segments):
        ops = [l for l in seg if l.strip() and not l.startswith('#')]
        f = os.path.join(workdir, 'seg%d.ops' % si)
        write_ops(f, ops)
        il, ist = run_impl(f, os.path.join(workdir, 'impl'), dump=os.path.join(workdir, 'impl_dump') if dump else None,
                           release=release, op_timeout=op_timeout)
        res['impl_lines'] += il
        res['impl_status'] = ist
        for i, op in enumerate(ops):
            gi = base + i
            m = ml[gi] if gi < len(ml) else 'MISSING'
            kind = op.split()[0]
            if i >= len(il):
                if kind == 'kill9':
                    break
                res.update(ok=False, index=gi, op=op, impl=ist, model=m)
                return res
            got = il[i]
            if got == 'hang' and i == len(il) - 1 and ist == 'hang':
                if m == 'hang':
                    break
                res.update(ok=False, index=gi, op=op, impl='hang', model=m)
                return res
            if kind == 'limit':
                limited = True
            elif kind == 'unlimit':
                limited = False
            if kind in ('flush', 'syncall', 'syncdata', 'dbsyncall', 'dbsyncdata'):
                if limited and got.startswith('err'):
                    fault_pending = True
                    continue
                if got == 'ok':
                    fault_pending = False
            if kind in ('snap', 'cpdir', 'dirty') and fault_pending:
                continue
            if not same(op, got, m):
                res.update(ok=False, index=gi, op=op, impl=got, model=m)
                return res
        base += len(ops)
    return res


UNDER_LIMIT = ('flush', 'syncall', 'syncdata', 'dbsyncall', 'dbsyncdata', 'dirty', 'snap', 'get', 'len', 'has', 'empty', 'iter', 'trace', 'unlimit', 'limit')


def well_formed_limits(ops):
    """the generators lower the file-size limit only around flush/sync calls and reads and always lift it again; a candidate of
    the shrinker that creates, opens, updates or closes a map under a limit (because its `unlimit` was cut out) is another
    experiment - the model does not describe it - and must not replace the history that failed."""
    on = False
    for l in ops:
        k = l.split()[0]
        if on and k not in UNDER_LIMIT:
            return False
        if k == 'limit': on = True
        if k == 'unlimit': on = False
    return not on


def shrink(ops, failing, budget=120):
    """delta debugging on the op list; `failing(ops) -> bool`. setup ops (db/map) are kept."""
    keep = lambda l: l.split()[0] in ('db', 'map', 'dbclone', 'mapclone')
    failing0 = failing
    failing = lambda cand: well_formed_limits(cand) and failing0(cand)
    cur = list(ops)
    n = 2
    tries = 0
    while len(cur) >= 2 and tries < budget:
        chunk = max(1, len(cur) // n)
        reduced = False
        for i in range(0, len(cur), chunk):
            cand = [l for j, l in enumerate(cur) if not (i <= j < i + chunk) or keep(l)]
            if len(cand) == len(cur):
                continue
            tries += 1
            if failing(cand):
                cur = cand
                n = max(n - 1, 2)
                reduced = True
                break
            if tries >= budget:
                break
        if not reduced:
            if chunk == 1:
                break
            n = min(len(cur), n * 2)
    return cur


def write_ops(path, lines, header=None):
    with open(path, 'w') as f:
        if header:
            for h in header.split('\n'):
                f.write('# ' + h + '\n')
        f.write('\n'.join(lines) + '\n')


# ---------------------------------------------------------------- evidence
def write_evidence(pid, tier, seed, level, coverage, assumptions, wall, violations):
    os.makedirs(EVIDENCE, exist_ok=True)
    ev = {'property_id': pid, 'tier': tier, 'seed': seed, 'level': level, 'coverage': coverage,
          'assumptions': assumptions, 'wall_s': round(wall, 2), 'violations': violations}
    with open(os.path.join(EVIDENCE, pid + '.json'), 'w') as f:
        json.dump(ev, f, indent=1)
    return ev


def known_findings():
    out = []
    p = os.path.join(VERIF, 'known_findings.txt')
    if os.path.exists(p):
        for l in open(p):
            l = l.strip()
            if l.startswith('finding:'):
                d = dict(x.split('=', 1) for x in l.split()[1:3])
                d['text'] = l
                out.append(d)
    return out
