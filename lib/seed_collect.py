#!/usr/bin/env python3
"""collects a confirmed seeded change into /verif/seeded/<id>/ : patch.diff, the demonstration, meta.json
(which property it breaks, what it needs to manifest, what was run: confirmation + trial of the checks)."""
import json, os, re, shutil, sys
V = '/verif'
def main(pid, trial_dir, note=''):
    src = os.environ.get('SEED_SRC', '/tmp/mut/%s/out') % pid
    dst = os.path.join(V, 'seeded', pid)
    os.makedirs(dst, exist_ok=True)
    shutil.copy(os.path.join(src, 'patch.diff'), os.path.join(dst, 'patch.diff'))
    demo = [f for f in os.listdir(src) if f.startswith('demo_') and f.endswith('.rs')]
    for f in demo:
        shutil.copy(os.path.join(src, f), os.path.join(dst, f))
    meta = {}
    try:
        meta = json.load(open(os.path.join(src, 'meta.json')))
    except Exception as e:
        meta = {'property': pid[:3], 'summary': 'see notes.md (written by the sub-agent that made the change) and patch.diff'}
    if os.path.exists(os.path.join(src, 'notes.md')):
        shutil.copy(os.path.join(src, 'notes.md'), os.path.join(dst, 'notes.md'))
    conf = open(os.path.join(src, 'confirm.txt')).read().strip().split('\n') if os.path.exists(os.path.join(src, 'confirm.txt')) else []
    meta['confirmed_by_me'] = {
        'how': 'lib/seed_confirm.sh in the scratch worktree: (1) cargo test --offline --test <demo> with the change, (2) cargo test --workspace --no-fail-fast --offline with the change and the demo moved aside, (3) the demo again with the change reverse-applied',
        'result': conf}
    summ = os.path.join(trial_dir, 'summary.txt')
    lines = open(summ).read().strip().split('\n') if os.path.exists(summ) else []
    viol = []
    for l in lines:
        m = re.match(r'(C\d+) rc=(\d+)', l)
        if m:
            log = os.path.join(trial_dir, m.group(1) + '.log')
            vl = [x.strip() for x in open(log) if x.startswith('VIOLATION')] if os.path.exists(log) else []
            scen = sorted(set(re.sub(r'_\d+\.ops.*$', '', os.path.basename(x.split('replay=')[1])) for x in vl))
            viol.append({'check': m.group(1), 'exit': int(m.group(2)), 'violation_lines': len(vl),
                         'with_failing_input': sum(1 for x in vl if 'no-failing-input-found' not in x), 'replay_prefixes': scen[:8]})
    meta['trial'] = {'how': os.environ.get('SEED_TRIAL_HOW', 'lib/seed_trial.sh: git -C /repo apply patch.diff; ./check <id> --tier quick (evidence/replays redirected); git -C /repo checkout -- .'),
                     'checks': viol, 'note': note}
    meta['demo_command'] = 'copy %s to tests/ of a worktree with patch.diff applied; CARGO_NET_OFFLINE=true cargo test --offline --test %s' % (demo[0] if demo else '?', demo[0][:-3] if demo else '?')
    json.dump(meta, open(os.path.join(dst, 'meta.json'), 'w'), indent=1)
    print(pid, [(v['check'], v['exit'], v['with_failing_input']) for v in viol])
if __name__ == '__main__':
    main(sys.argv[1], sys.argv[2], sys.argv[3] if len(sys.argv) > 3 else '')
