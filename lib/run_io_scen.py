#!/usr/bin/env python3
"""Builds the runner (with both hooks) and the extracted model, then runs lib/scen_io.py for N seeds.
usage: lib/run_io_scen.py [N seeds (default 1)] [--hist K] [--big K] [--casc K] [--sparse K] [--reopen K] [--tier quick|thorough] [--first-seed S]
Honours VERIF_REPO (the tree the runner is built from).  Exit 0 when nothing was reported."""
import os, sys, time
sys.path.insert(0, os.path.dirname(os.path.abspath(__file__)))
import common as C
import scenarios as S
import scen_io as SI


def main():
    args = sys.argv[1:]
    nseeds, hist, big, tier, first, casc, sparse, reopen = 1, None, None, 'quick', 1, None, None, None
    i = 0
    while i < len(args):
        if args[i] == '--hist': hist = int(args[i + 1]); i += 2
        elif args[i] == '--big': big = int(args[i + 1]); i += 2
        elif args[i] == '--casc': casc = int(args[i + 1]); i += 2
        elif args[i] == '--sparse': sparse = int(args[i + 1]); i += 2
        elif args[i] == '--reopen': reopen = int(args[i + 1]); i += 2
        elif args[i] == '--tier': tier = args[i + 1]; i += 2
        elif args[i] == '--first-seed': first = int(args[i + 1]); i += 2
        else: nseeds = int(args[i]); i += 1
    ok, lg = C.build_harness()
    if not ok:
        print(lg[-3000:]); return 2
    # Extract.v needs Cache.vo and Io.vo, which build_driver's own make target list covers through its imports
    ok, lg = C.coq_make(['theories/Cache.vo', 'theories/Io.vo', 'theories/Open.vo'])
    if not ok:
        print(lg[-3000:]); return 2
    ok, lg = C.build_driver()
    if not ok:
        print(lg[-3000:]); return 2
    rc = 0
    tot = {'histories': 0, 'histories_agreeing': 0, 'api_calls_compared': 0, 'io_events_compared': 0, 'reopen_histories': 0, 'reopen_histories_agreeing': 0,
           'reopens_with_other_parameters': 0, 'opens_as_wrong_key_type': 0, 'opens_with_mutated_header_byte': 0, 'io_events_of_rejected_opens_compared': 0}
    for seed in range(first, first + nseeds):
        t0 = time.time()
        ctx = S.Ctx('IO', tier, seed)
        SI.scen_io(ctx, hist, big, casc, sparse, reopen)     # reopen None = the class default (40 quick / 240 thorough)
        d = ctx.distribution.get('io', {})
        for k in tot:
            tot[k] += d.get(k, 0)
        print('seed %d: %s buckets=%s disagreements=%d %.1fs' % (seed, d, ctx.distribution.get('io_buckets'), ctx.disagreements, time.time() - t0))
        print('  model paths exercised (cumulative): %s' % ctx.distribution.get('model_paths'))
        for v in ctx.violations:
            print(v); rc = 1
    print('total: %s' % tot)
    return rc


if __name__ == '__main__':
    sys.exit(main())
