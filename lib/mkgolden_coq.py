#!/usr/bin/env python3
"""generates coq/theories/Golden.v ONCE from the committed golden directories (written by the pinned release
abyssiniandb 0.1.4 @ 4b82afd): for every image the committed history as a list of model operations, the three
files as hex strings, and the kernel-checked fact that the model, run on the history from an empty map, renders
exactly those bytes.  The result is committed; the check never regenerates it."""
import os, sys
V = os.path.dirname(os.path.dirname(os.path.abspath(__file__)))
G = os.path.join(V, 'golden')
KT = {'string': 'KString', 'bytes': 'KBytes', 'i64': 'KI64', 'u64': 'KU64', 'vu64': 'KVu64'}

def payload(tok):
    if tok == '-':
        return b''
    if tok[0] == 'z':
        l, sd = tok[1:].split('x')
        l, x = int(l), int(sd) % 251
        out = bytearray()
        for _ in range(l):
            out.append(x); x = (x * 109 + 89) % 251
        return bytes(out)
    return bytes.fromhex(tok)

def hx(b):
    h = b.hex()
    if len(h) <= 2000:
        return 'hexb "%s"' % h
    # long string literals overflow coqc's stack: chunk them
    return 'concat [%s]' % '; '.join('hexb "%s"' % h[i:i + 2000] for i in range(0, len(h), 2000))

out = ['(** GENERATED ONCE by lib/mkgolden_coq.py from /verif/golden (images written by the pinned release',
       '    abyssiniandb 0.1.4 @ 4b82afd before any fix: commit) and committed.  For each image: the history that',
       '    produced it, the bytes of the three files, and [golden_ok]: the model run on that history renders exactly',
       '    these bytes (kernel computation).  Golden_proofs.v turns this into: the golden bytes are the image of a state',
       '    with the invariant that represents the expected contents. *)',
       'From Coq Require Import String Ascii.', 'From Aby Require Import Base KeyTypes Spec Golden_lib.', 'Local Open Scope string_scope.', '']
names = sorted(n for n in os.listdir(G) if os.path.isdir(os.path.join(G, n)))
for name in names:
    d = os.path.join(G, name)
    ops = []
    n = None; kt = None
    for l in open(os.path.join(d, 'history.ops')):
        t = l.split()
        if not t or t[0].startswith('#'): continue
        if t[0] == 'map':
            kt = KT[t[3]]; p = t[5].split(',')[0]; assert p[0] == 'B'; n = int(p[1:])
        elif t[0] == 'put': ops.append('Put (%s) (%s)' % (hx(payload(t[2])), hx(payload(t[3]))))
        elif t[0] == 'del': ops.append('Del (%s)' % hx(payload(t[2])))
        elif t[0] == 'get': ops.append('Get (%s)' % hx(payload(t[2])))
        elif t[0] == 'len': ops.append('Len')
        elif t[0] in ('db', 'closeall'): pass
        else: raise SystemExit('unexpected op ' + l)
    exp = []
    for l in open(os.path.join(d, 'expected.txt')):
        k, v = l.split()
        exp.append('(%s, %s)' % (hx(payload(k)), hx(payload(v))))
    f = lambda e: open(os.path.join(d, 'db', 'gold.' + e), 'rb').read()
    out.append('Definition %s_ops : list dop := [\n  %s].' % (name, ';\n  '.join(ops)))
    out.append('Definition %s_expected : list (bytes * bytes) := [\n  %s].' % (name, ';\n  '.join(exp)))
    out.append('Definition %s_htx : bytes := %s.' % (name, hx(f('htx'))))
    out.append('Definition %s_key : bytes := %s.' % (name, hx(f('key'))))
    out.append('Definition %s_val : bytes := %s.' % (name, hx(f('val'))))
    out.append('Definition %s : golden := Golden %s %d %s_ops %s_expected (%s_htx, %s_key, %s_val).' % (name, kt, n, name, name, name, name, name))
    out.append('Example %s_ok : golden_ok %s = true.\nProof. vm_compute. reflexivity. Qed.\n' % (name, name))
out.append('Definition all_golden : list golden := [%s].' % '; '.join(names))
open(os.path.join(V, 'coq', 'theories', 'Golden.v'), 'w').write('\n'.join(out) + '\n')
print(len(names), 'images')
