#!/usr/bin/env python3
"""writes MANIFEST.json from the table below (kept in one place so it stays valid)."""
import json, os, subprocess

REPO_HOOKS = subprocess.run(['git', '-C', '/repo', 'log', '--format=%h %s'], capture_output=True, text=True).stdout.strip().split('\n')
HOOK_COMMITS = [l.split()[0] for l in REPO_HOOKS if 'verif hook' in l]

def _c(text, note, technique, ref, category='proof'):
    return dict(category=category, text=text, design_ref='DESIGN.md section 7, ' + ref, note=note, technique=technique)

BASE = ('Trusted: Coq 8.16.1 kernel + VM (vm_compute); the hand-written executable Gallina model (coq/theories: Store/Alloc/Htx/Iter/Stats/Layout/Db), tied to /repo on '
        'every run by regenerated constants (gen/Consts.v from the layout-probe hook, gen/Hash_vectors.v from the crate\'s hash) and by the differential runs of this check '
        '(Rust harness vs the model extracted with ExtrOcamlBasic); rabuf/vu64 (dependencies), the OS and Rc/RefCell glue are modelled or exercised, not verified. ')

CLAIMED = {
 'C01': _c('Machine-checked refinement theorem (C01_refines_ideal_map, closed under the global context): from every state satisfying the file invariant, every finite history of put/get/delete/includes_key/len/is_empty with keys and values of any length < 2^31 returns Ok and, call by call, exactly the ideal gmap\'s results; the invariant is re-established (induction over the history; per-operation lemmas for in-place overwrite, value relocation, key-record relocation with cascading re-link, chain unlink; allocator layer below). Termination of every loop over file contents is part of the statement (fuel shown sufficient). The model is run against the crate on seeded histories (all key types, 1..4096 buckets, sizes biased to slot-class and 4 KiB/16 KiB/128 KiB boundaries) and every call result compared.',
           BASE + 'Lengths >= 2^31 and files >= 16 EiB are outside the theorem. A hang outside the modelled loops would only be seen by the runner\'s watchdog.',
           'Coq refinement proof to an ideal gmap (induction over histories) + differential runs model vs crate', 'C01'),
 'C02': _c('Theorems: close+reopen keeps invariant, contents, length, table size and byte images (C02_reopen_preserves_contents); histories cut into any number of sessions refine the ideal map (C02_sessions_refine_ideal_map, induction over sessions); opening an existing map ignores the parameters. In the model the files are the state; that the real close/reopen round-trips through bytes is validated by the reopen scenario: sessions in the same and in freshly spawned processes with other parameters, every key/len/traversal compared (L_api) and the closed files compared byte for byte with Layout.render of the model state (L_img), plus the independent decoder.',
           BASE + 'Partial: the byte-level reader round trip (load (render s) = s) is not yet a theorem; that dropping the last Rc closes the files and that another process computes the same hash are runtime facts seen only by the child-process runs.',
           'Coq proof over the record-level model + byte-exact differential reopen runs', 'C02'),
 'C03': _c('Theorems over the buffered-file model Buf.v (chunks, dirty sets, arbitrary eviction, flush/sync with the dirty/unsynced flags of dbxxx.rs): the invariant "clear flag => nothing buffered" (the one defect D1 broke) holds at open and is kept by every step; whenever flush/sync returns Ok the disk images equal the memory view, after ANY history including failed flushes; a successful sync issues an OS sync request for each of the three files after that file\'s last buffered write, also when it follows a flush (D9). Tie: every flush/sync in random histories is a crash point - files checksummed while handles are alive and compared with the model image, directory copies re-opened, writer SIGKILLed and the directory opened by a new process; io-trace hook checked for the OS sync requests.',
           BASE + 'Partial: Buf.v models rabuf at chunk granularity (modelled dependency); fsync reaching stable storage and SIGKILL semantics are the kernel\'s; the link "logical image = render(store)" is by the byte-exact snapshots, not a theorem.',
           'Coq invariant proof over a buffered-file model with fault oracle + crash-point differential runs', 'C03'),
 'C04': _c('Machine-checked theorem C04_iteration: for every state with the invariant, hence every history and EVERY table size >= 1, a full traversal returns Ok, yields a permutation of the ideal map\'s entries (each live key once with its current value, nothing else), the size hint before item j is exactly len-j, 0 at the end, and further next calls return None; rests on the proved specification of the bitmap-accelerated bucket scan (least occupied bucket >= idx for every n and idx; defect D2 lived here). Tie: exact item and hint sequences of all seven iterator entry points vs the model on sparse tables of every power of two 1..65536 and random histories.',
           BASE + 'The five flavours are wrappers of one state machine in the crate; each is driven separately by the differential runs (test), the theorem is about the state machine.',
           'Coq proof (invariant + scan specification) + differential traversal runs', 'C04'),
 'C05': _c('Theorems: every history preserves the file invariant, and the invariant is exactly the property\'s structure (structure_ok: chains are NoDup linked lists ending in the null link whose keys hash to their bucket, every key record on its bucket\'s chain, no key twice, stored count = number of key records, bitmap bit <-> non-empty bucket, each key record owns one in-bounds value record, allocator invariant for both piece files); the contents are a function of the files. Tie: byte-exact comparison of all three files with Layout.render(model state) at every sync point and close, and an independent Python decoder of the documented layout checks the same clauses and contents = ideal map on the real files.',
           BASE + 'Partial: the model state is the decoded structure; "bytes decode to it" is established by the byte-exact image comparison and the independent decoder (lib/decoder.py), not yet by a Coq reader round-trip theorem.',
           'Coq invariant proof + byte-exact image comparison + independent decoder', 'C05'),
 'C06': _c('Theorems: after any history both piece files satisfy the allocator invariant (slots tile the file, valid sizes, free list i = exactly the free slots of class i, no slot on two lists or twice, every free slot listed); every slot is in use (then on no list, owned by exactly one entry) or on exactly one free list exactly once; a new piece extends the file iff no free slot is suitable (exact class / first fit on the large list) and then by exactly the rounded size; rewrite frees before it allocates; delete never grows; the slot walks terminate visiting each slot once. Tie: byte-exact images (free-list heads and every slot are in the image), independent decoder (orphans, double membership, gaps, overlaps), cyclic workloads with a bounded live set whose file lengths must stop growing, statistics calls under a watchdog.',
           BASE + 'Partial: "bounded by the peak live set over a whole history" is given as the one-step theorem (extend only if no suitable free slot) plus the cyclic-workload runs, not as a run-level peak theorem.',
           'Coq allocator-invariant proof + byte-exact images + growth test on cyclic workloads', 'C06'),
 'C07': _c('Theorems: the bucket count derived from BucketsSize/Capacity/Default is a power of two >= 1 (Capacity(0) is the only rejected value); for ANY two table sizes >= 1 every history gives identical results call by call (both equal the ideal map) and traversals agree up to order; opening an existing map ignores all parameters; the buffer-size parameters never enter the model\'s data path. Tie: each random history runs under 4 of 8 configurations (1..4096 buckets as BucketsSize or Capacity; Size(0)/Size(1 chunk)/Size(2 chunks)/Size(1 MiB)/PerMille(1000)/Auto per file; values up to 200 KB so the 4 KiB-chunk value buffer evicts), each compared with the model and with each other; reopen under other parameters; the crate\'s own bucket-count derivation checked for every request in 0..2^16.',
           BASE + 'Partial: rabuf\'s chunk cache (eviction, per-mille growth) is a dependency exercised by the runs, not yet modelled in Coq (Cache.v planned). Known finding D8 (PerMille(p<1000) on a file past one chunk: rabuf recursion) is listed in known_findings.txt and reported as KNOWN-FINDING.',
           'Coq proof (results independent of table size; parameter derivation) + multi-configuration differential runs', 'C07'),
 'C08': _c('Theorems C08_overwrite_invisible / C08_delete_invisible / C08_relink: from every consistent state, overwriting with a value of any length or deleting any key returns Ok, the affected key has exactly the new value (or is absent) and the ideal map changes nowhere else - through value relocation, key-record relocation and the cascading re-link of predecessors up to the bucket head, for every chain position (the proof is by the length of the intact prefix) and every offset; kernel-computed examples show the relocation really happens for a key that is last, first, in the middle of a chain and alone (value file crossing 16 KiB). Tie: collide scenario - breadth-first exploration of the one-bucket state graph (3 tight keys x 4 value sizes + deletes, from empty / 16 KiB / 2 MiB start images), every path compared op by op and byte for byte at the end.',
           BASE, 'Coq proof (relocation/re-link lemmas by induction on the chain prefix) + exhaustive small-alphabet state exploration vs the crate', 'C08'),
 'C09': _c('Machine-checked theorems (Coq 8.16.1, closed under the global context) that for every value length < 2^31 and every key length < 2^31 with every pair of 8-aligned offsets the slot chosen by the size estimate + class rounding is a legal slot size and holds the record really written, also when an old larger slot is kept; the statements are over the model functions Sizing.val_need/key_need/roundup whose constants are regenerated from the crate on every run, and which are compared with the crate\'s own sizing code (layout-probe hook) exhaustively over the quantified ranges (L_size) and end to end with sentinel entries (L_img).',
           'Trusted: Coq kernel + VM; the hand-written Sizing.v (tied by Consts.v regeneration and the exhaustive L_size diff: quick 0..2^18 value lengths / 0..1500 key lengths x 35^2 offset classes, thorough 0..2^24 / 0..65536); the probe hook; vu64::encoded_len as the oracle\'s length function. The "writing one entry never alters another" clause is carried by the sentinel sweep and the byte-exact image comparison, plus the allocator frame clauses (other used slots keep their content) of C06.',
           'Coq proof (lia over varint widths and size classes) + exhaustive differential sizing sweep', 'C09'),
 'C10': _c('Machine-checked round-trip and injectivity theorems for the u64, i64 and vu64 key conversions over all 2^64 integers, and "same entry iff equal" for all five key types stated on the comparison the lookup uses (cmp_eq), all closed under the global context; the model conversions are compared with the crate\'s From impls (by value and by reference), cmp_u8 and hash_value on every power of two +-1, extremes and seeded random values, and typed maps are driven by integer-addressed histories against the model.',
           'Trusted: Coq kernel + VM; hand-written KeyTypes.v/Vu64.v/Hash.v tied by the L_conv diff and 64 regenerated hash vectors; that the by-value and by-reference Rust impls agree is observed (test), not proved. "Keys returned by iteration convert back" rests on C04 (iteration yields the stored key bytes) plus these round trips.',
           'Coq proof (round trips by case analysis on varint width) + differential conversion check', 'C10'),
 'C11': _c('Theorems over the world-level model Db.step: an operation through a handle of one map leaves every other map\'s three files and flags exactly unchanged (step_frame); handle-management calls only flush; any two handles registered for the same (directory, name) give identical steps (handles_alias) and clones / repeated lookups / lookups through a cloned database handle register the same map. Tie: 2..5 maps of mixed key types in one directory with interleaved histories, handles cloned, re-looked-up and obtained through cloned FileDb objects at random points, each map against its own model instance, files of all maps compared byte for byte after flushes.',
           BASE + 'Partial: in the model a handle is a name, so aliasing holds by construction; the Rc<RefCell> sharing and the five per-type registries of the crate are exercised by the differential runs only.',
           'Coq frame/alias proof over the world model + multi-map differential runs', 'C11'),
 'C12': _c('Theorems: a key\'s record lies on the chain of bucket hash(key) mod n, hash being a closed function of the key bytes (placement depends on key bytes and table size only); the model hash reproduces 256 (key, hash) vectors frozen from the pinned release 4b82afd (kernel computation) and, re-proved on every run, 64 vectors computed by the current crate; the varint codec round-trips; all guarantees hold from any consistent start state (so from golden images). Tie: 15 golden directories written by the pinned release (5 key types x 3 histories) are opened read-only by the current build (contents = committed expectation, files unchanged), decoded by the independent decoder, reproduced byte for byte by the model from the committed history, and driven further by random histories against the model.',
           BASE + 'Partial: the golden images are tied by execution (model image = golden bytes, checksummed), not by a Coq theorem over the committed bytes.',
           'Coq proof (placement, frozen hash vectors by vm_compute) + golden-image differential runs', 'C12'),
 'C13': _c('Byte-level theorems over Open.v (the three header checks of open_with_params in their real order) and Layout.render: files of a consistent map open under their own type; under any type with a different signature, after ANY single-byte change of the 16 signature bytes of any of the three files, or with any one file replaced by a file of a map with a different signature, the open is Rejected - for every consistent state; the five type signatures are pairwise different except the known pair u64/vu64 (known finding D6, kept as a lemma that stops compiling when the crate changes it). Tie: all 25 ordered type pairs, every foreign-file replacement and byte mutations of all 48 signature positions on real files: rejected before any result, files byte-identical afterwards.',
           BASE + 'The reject path performs no write in the model by construction (open_files is a pure function of the images); that the real reject path writes nothing is observed by byte comparison. Known finding D6 is reported as KNOWN-FINDING.',
           'Coq proof over rendered header bytes + exhaustive open matrix on real files', 'C13'),
 'C14': _c('Theorems for ANY permutation the sort may produce (stable or not): bulk_get returns at position i exactly get of the i-th key (repeats allowed); bulk_delete of a batch without repeats returns at position i what delete of that key on the original map returns and leaves the map minus the batch; bulk_put of a batch without repeated keys and put_from_iter (in order, repeats allowed) leave exactly the map the individual puts leave; closed corollaries for the executable sorters. Tie: random histories interleaved with all bulk calls and the *_string variants (valid, invalid, truncated UTF-8), batch sizes 0..200, all key types.',
           BASE + 'Partial: the *_string variants add str::as_bytes / String::from_utf8_lossy (std, not modelled): compared by a test with lossy decoding applied to the model\'s bytes. sort_unstable_by / sort_by are assumed to return permutations.',
           'Coq proof for an arbitrary sorting permutation + differential bulk runs', 'C14'),
 'C15': _c('Theorems over Db.step: every read-only call (get, includes_key, len, is_empty, bulk_get, all traversals, statistics, read_fill_buffer) returns the world unchanged - contents, all three files and flags; flush/sync change flags only and are the identity on an unmodified map. Tie: every state class reached by update histories is closed and checksummed, a session of only read-only calls runs (absent keys, all seven traversals, statistics, flush/sync on the unmodified map), files checksummed again: identical, and equal to the model image.',
           BASE + 'Partial: the model\'s read paths are functions that return no state, so the theorem is close to "by construction"; that the real read paths (seek extends a file when past the end, bitmap strides read past the end) write nothing is what the before/after byte comparison on real files decides.',
           'Coq proof over the world model + before/after byte comparison on real files', 'C15'),
 'C16': _c('Theorems over Buf.v with an arbitrary fault oracle (which chunk write-backs the OS refuses, arbitrary garbage left by a partial write): a flush/sync with something to do returns Ok iff no buffered chunk is refused (a refusal is never swallowed); whatever the outcome the memory view is unchanged and the invariant kept, after a failure the dirty flag stays raised; after any history including failed flushes a later successful flush makes exactly the current view durable, and a fault-free flush does succeed. Tie: RLIMIT_FSIZE lowered to each threshold of a ladder before flush/sync_all/sync_data so that each file and chunk is in turn the first refused write; Err checked, everything read back against the ideal map, limit lifted, second flush must succeed and files equal the model image.',
           BASE + 'Partial: errno kinds, short writes below chunk level and ENOSPC/EIO are approximated by "this write-back is refused"; rabuf keeping a chunk dirty on error is a modelled dependency; refusals during eviction inside a put are outside the property.',
           'Coq proof over a buffered-file model with fault oracle + RLIMIT_FSIZE fault-injection runs', 'C16'),
 'C17': _c('Machine-checked theorem C17_statistics: for every consistent state the statistics calls return Ok (walks terminate) and the free-slot count of class i is the length of free list i, the key/value length histograms count exactly the live non-empty keys/values of the ideal map by length, the slot-size histograms count exactly the used slots holding a non-empty key/value by size, the filling figure is (c, c*1000/n) for c non-empty buckets; histograms sorted with positive counters; termination on every reachable state. Tie: statistics lines of the crate vs the model on every state class of random histories and recomputed from the closed files by the independent decoder, each call under the hang watchdog.',
           BASE, 'Coq proof (walk/free-list specifications + counting lemmas) + differential statistics runs', 'C17'),
 'C18': _c('Theorems over Db.step: steps respect equality-up-to-in-memory-flags of worlds; dropping every read-only and flush call from a history leaves an equivalent world, hence byte-identical render images (images_function_of_updates); the image is a function (render o run) of parameters and update history by type. Tie: every random update history is executed twice by the crate - other directory, new process, random read-only calls spliced in - and the closed files must be byte-identical to each other and to the model image.',
           BASE + 'Partial: run-to-run nondeterminism of the runtime (hash seeds, iteration over unordered in-memory tables during flush, uninitialised memory) cannot be exhibited by a model; the two-process byte comparison is what would expose it.',
           'Coq proof (read-only calls irrelevant to the image) + two-run byte comparison', 'C18'),
}

import os as _os
NOT_YET = {p: 'theorem file coq/Props/%s.v not finished in this round; the correspondence scenario exists' % p
           for p in CLAIMED if not _os.path.exists('/verif/coq/Props/%s.v' % p)}
CLAIMED = {p: c for p, c in CLAIMED.items() if p not in NOT_YET}


def main():
    checks = []
    for pid in sorted(CLAIMED):
        c = CLAIMED[pid]
        checks.append({
            'property_id': pid,
            'quick_cmd': './check %s --tier quick' % pid,
            'thorough_cmd': './check %s --tier thorough' % pid,
            'evidence_file': '/verif/evidence/%s.json' % pid,
            'replay_cmd_template': './check %s --replay {path}' % pid,
            'engine': 'coq-model-correspondence',
            'level_claimed': {'category': c['category'], 'text': c['text'], 'design_ref': c['design_ref']},
            'level_note': c['note'],
            'technique': c['technique'],
        })
    m = {
        'version': 1,
        'setup_cmd': './check --setup',
        'hooks': {
            'guard': 'abyssiniandb_verif',
            'enable': 'RUSTFLAGS="--cfg abyssiniandb_verif" cargo build --offline (in /verif/harness, path dependency on /repo)',
            'baseline_off_cmd': 'cd /repo && cargo test --workspace --no-fail-fast --offline',
            'source_commits': HOOK_COMMITS,
            'add_only': True,
        },
        'engines': [{
            'name': 'coq-model-correspondence',
            'path': '/verif/check',
            'serves_properties': sorted(CLAIMED),
            'kind_free_text': 'Coq 8.16.1 theorems over a hand-written executable Gallina model (coq/theories), constants regenerated from the crate on every run; model extracted to OCaml and run against the Rust harness on seeded operation files; direct oracles (ideal map, independent format decoder) search for a failing input when a proof or the correspondence breaks',
        }],
        'checks': checks,
        'notes': 'Known findings (D6: C13 u64/vu64 signature, D8: C07 PerMille<1000) are listed in known_findings.txt; seven genuine defects were repaired by fix: commits in /repo. See DESIGN.md.',
        'not_applicable': [{'property_id': p, 'reason': r} for p, r in sorted(NOT_YET.items())],
    }
    json.dump(m, open('/verif/MANIFEST.json', 'w'), indent=1)

if __name__ == '__main__':
    main()
