#!/usr/bin/env python3
"""writes MANIFEST.json from the table below (kept in one place so it stays valid)."""
import json, os, subprocess

REPO_HOOKS = subprocess.run(['git', '-C', '/repo', 'log', '--format=%h %s'], capture_output=True, text=True).stdout.strip().split('\n')
HOOK_COMMITS = [l.split()[0] for l in REPO_HOOKS if 'verif hook' in l]

CLAIMED = {
 'C09': dict(category='proof',
   text='Machine-checked theorems (Coq 8.16.1, closed under the global context) that for every value length < 2^31 and every key length < 2^31 with every pair of 8-aligned offsets the slot chosen by the size estimate + class rounding is a legal slot size and holds the record really written, also when an old larger slot is kept; the statements are over the model functions Sizing.val_need/key_need/roundup whose constants are regenerated from the crate on every run, and which are compared with the crate\'s own sizing code (layout-probe hook) exhaustively over the quantified ranges (L_size) and end to end with sentinel entries (L_img).',
   design_ref='DESIGN.md section 7, C09',
   note='Trusted: Coq kernel + VM; the hand-written Sizing.v (tied by Consts.v regeneration and the exhaustive L_size diff: quick 0..2^18 value lengths / 0..1500 key lengths x 35^2 offset classes, thorough 0..2^24 / 0..65536); the probe hook; vu64::encoded_len as the oracle\'s length function. The "writing one entry never alters another" clause is carried by the sentinel sweep and the byte-exact image comparison, not yet by a frame theorem over render.',
   technique='Coq proof (lia over varint widths and size classes) + exhaustive differential sizing sweep'),
 'C10': dict(category='proof',
   text='Machine-checked round-trip and injectivity theorems for the u64, i64 and vu64 key conversions over all 2^64 integers, and "same entry iff equal" for all five key types stated on the comparison the lookup uses (cmp_eq), all closed under the global context; the model conversions are compared with the crate\'s From impls (by value and by reference), cmp_u8 and hash_value on every power of two +-1, extremes and seeded random values, and typed maps are driven by integer-addressed histories against the model.',
   design_ref='DESIGN.md section 7, C10',
   note='Trusted: Coq kernel + VM; hand-written KeyTypes.v/Vu64.v/Hash.v tied by the L_conv diff and 64 regenerated hash vectors; that the by-value and by-reference Rust impls agree is observed (test), not proved. "Keys returned by iteration convert back" rests on C04 (iteration yields the stored key bytes) plus these round trips.',
   technique='Coq proof (round trips by case analysis on varint width) + differential conversion check'),
}

NOT_YET = {
 'C01': 'check under construction in this round: correspondence scenario exists, refinement theorems are being proved (Refine_*.v)',
 'C02': 'check under construction in this round',
 'C03': 'check under construction in this round',
 'C04': 'check under construction in this round (bitmap-scan theorem proved in Htx_proofs.v; iterator theorem pending)',
 'C05': 'check under construction in this round',
 'C06': 'check under construction in this round',
 'C07': 'check under construction in this round',
 'C08': 'check under construction in this round',
 'C11': 'check under construction in this round',
 'C12': 'check under construction in this round',
 'C13': 'check under construction in this round',
 'C14': 'check under construction in this round',
 'C15': 'check under construction in this round',
 'C16': 'check under construction in this round',
 'C17': 'check under construction in this round',
 'C18': 'check under construction in this round',
}

def main():
    checks = []
    for pid in sorted(CLAIMED):
        c = CLAIMED[pid]
        checks.append({
            'property_id': pid,
            'quick_cmd': './check %s --tier quick' % pid,
            'thorough_cmd': './check %s --tier thorough' % pid,
            'evidence_file': '/verif/evidence/%s.json' % pid,
            'replay_cmd_template': './check %s --replay {path}' % pid,
            'engine': 'coq-model-correspondence',
            'level_claimed': {'category': c['category'], 'text': c['text'], 'design_ref': c['design_ref']},
            'level_note': c['note'],
            'technique': c['technique'],
        })
    m = {
        'version': 1,
        'setup_cmd': './check --setup',
        'hooks': {
            'guard': 'abyssiniandb_verif',
            'enable': 'RUSTFLAGS="--cfg abyssiniandb_verif" cargo build --offline (in /verif/harness, path dependency on /repo)',
            'baseline_off_cmd': 'cd /repo && cargo test --workspace --no-fail-fast --offline',
            'source_commits': HOOK_COMMITS,
            'add_only': True,
        },
        'engines': [{
            'name': 'coq-model-correspondence',
            'path': '/verif/check',
            'serves_properties': sorted(CLAIMED),
            'kind_free_text': 'Coq 8.16.1 theorems over a hand-written executable Gallina model (coq/theories), constants regenerated from the crate on every run; model extracted to OCaml and run against the Rust harness on seeded operation files; direct oracles (ideal map, independent format decoder) search for a failing input when a proof or the correspondence breaks',
        }],
        'checks': checks,
        'notes': 'Known findings (D6: C13 u64/vu64 signature, D8: C07 PerMille<1000) are listed in known_findings.txt; six genuine defects were repaired by fix: commits in /repo. See DESIGN.md.',
        'not_applicable': [{'property_id': p, 'reason': r} for p, r in sorted(NOT_YET.items()) if p not in CLAIMED],
    }
    json.dump(m, open('/verif/MANIFEST.json', 'w'), indent=1)

if __name__ == '__main__':
    main()
