#!/usr/bin/env python3
"""Automatic syntactic mutants of the crate's data path, to measure what the checks can see (run in the background).
For each sampled single-token mutation of src/filedb/inner/*.rs and src/lib.rs:
  1. apply it in a scratch worktree; `cargo test --workspace --offline` - a mutant the existing tests kill (or that does not
     compile) is of no interest;
  2. otherwise run the quick checks of a few properties against it (isolated: VERIF_REPO, scratch copy of /verif);
  3. record which checks report a VIOLATION.  Survivors need triage (equivalent mutant, or a gap in the generators).
usage: lib/mutate.py <n> <seed> <outdir> [tag]"""
import json, os, random, re, shutil, subprocess, sys

FILES = ['src/filedb/inner/dbxxx.rs', 'src/filedb/inner/key.rs', 'src/filedb/inner/val.rs', 'src/filedb/inner/htx.rs',
         'src/filedb/inner/piece.rs', 'src/filedb/inner/vfile.rs', 'src/lib.rs', 'src/filedb/inner/mod.rs']
if os.environ.get('MUT_FILES'):
    FILES = os.environ['MUT_FILES'].split(',')
RULES = [(r' < ', ' <= '), (r' <= ', ' < '), (r' > ', ' >= '), (r' >= ', ' > '), (r' == ', ' != '), (r' != ', ' == '),
         (r' \+ 1\b', ' + 2'), (r' - 1\b', ' - 2'), (r' \+ 8\b', ' + 7'), (r' \* 8\b', ' * 4'), (r' / 8\b', ' / 4'),
         (r'\btrue\b', 'false'), (r'\bfalse\b', 'true'), (r' && ', ' || '), (r' \|\| ', ' && '),
         (r'\.is_zero\(\)', '.is_zero() == false'), (r'!(\w+)\.is_zero\(\)', r'\1.is_zero()'),
         (r'\bold_piece_size\b', 'new_piece_size'), (r'\bnew_piece_size\b', 'old_piece_size'),
         (r'\bprev_key_offset\b', 'key_offset'), (r' \+= 1;', ' += 2;'), (r' -= 1;', ' -= 2;')]
CHECKS = os.environ.get('MUT_CHECKS', 'C01,C04,C05,C06,C08,C17').split(',')


def candidates(repo):
    out = []
    for f in FILES:
        p = os.path.join(repo, f)
        if not os.path.exists(p):
            continue
        lines = open(p).read().split('\n')
        skip = False
        depth_test = 0
        for i, l in enumerate(lines):
            s = l.strip()
            if s.startswith('#[cfg(test)]') or s.startswith('mod debug') or s.startswith('mod test'):
                skip = True          # everything after the test module marker of a file
            if skip or s.startswith('//') or s.startswith('///') or s.startswith('#[') or 'debug_assert' in s or 'abyssiniandb_verif' in s \
               or 'assert!' in s or s.startswith('use ') or 'feature =' in s or 'verif_probe' in s:
                continue
            for ri, (pat, rep) in enumerate(RULES):
                for m in re.finditer(pat, l):
                    out.append((f, i, m.start(), m.end(), ri))
    return out


def sh(cmd, cwd=None, timeout=3600, env=None):
    return subprocess.run(cmd, cwd=cwd, capture_output=True, text=True, timeout=timeout, env=env)


def main():
    n, seed, outdir = int(sys.argv[1]), int(sys.argv[2]), sys.argv[3]
    tag = sys.argv[4] if len(sys.argv) > 4 else 'a'
    os.makedirs(outdir, exist_ok=True)
    W = '/root/scratch/mutw_' + tag
    TV = '/root/scratch/mutv_' + tag
    sh(['git', '-C', '/repo', 'worktree', 'remove', '--force', W]); shutil.rmtree(W, ignore_errors=True)
    sh(['git', '-C', '/repo', 'worktree', 'add', '--detach', W, 'HEAD'])
    env = dict(os.environ, CARGO_NET_OFFLINE='true')
    sh(['cargo', 'test', '--workspace', '--offline', '--no-run'], cwd=W, env=env)       # warm build
    cands = candidates(W)
    rng = random.Random(seed)
    rng.shuffle(cands)
    results = []
    res_path = os.path.join(outdir, 'results_%s.jsonl' % tag)
    done = 0
    for (f, li, a, b, ri) in cands:
        if done >= n:
            break
        sh(['git', 'checkout', '--', '.'], cwd=W)
        p = os.path.join(W, f)
        lines = open(p).read().split('\n')
        old = lines[li]
        new = old[:a] + re.sub(RULES[ri][0], RULES[ri][1], old[a:b]) + old[b:]
        if new == old:
            continue
        lines[li] = new
        open(p, 'w').write('\n'.join(lines))
        rec = {'file': f, 'line': li + 1, 'old': old.strip(), 'new': new.strip()}
        try:
            r = sh(['cargo', 'test', '--workspace', '--no-fail-fast', '--offline'], cwd=W, env=env, timeout=1500)
        except subprocess.TimeoutExpired:
            rec['status'] = 'killed-by-existing-tests'; rec['note'] = 'the test suite hangs'
            open(res_path, 'a').write(json.dumps(rec) + '\n')
            sh(['pkill', '-f', W + '/target'])
            continue
        fails = sum(int(x) for x in re.findall(r'test result: \w+\. \d+ passed; (\d+) failed', r.stdout))
        if r.returncode != 0 or fails:
            rec['status'] = 'does-not-compile' if 'error[' in r.stderr or 'error:' in r.stderr and 'test result' not in r.stdout else 'killed-by-existing-tests'
            open(res_path, 'a').write(json.dumps(rec) + '\n')
            continue
        done += 1
        diff = sh(['git', 'diff', '--', 'src'], cwd=W).stdout
        pd = os.path.join(outdir, 'mut_%s_%03d.diff' % (tag, done))
        open(pd, 'w').write(diff)
        sh(['rsync', '-a', '--delete', '--exclude', '.git', '--exclude', 'build/work', '--exclude', 'replays', '/verif/', TV + '/'])
        hits = {}
        for c in CHECKS:
            od = os.path.join(outdir, 'mut_%s_%03d' % (tag, done))
            e = dict(os.environ, VERIF_REPO=W, VERIF_EVIDENCE_DIR=os.path.join(od, 'evidence'), VERIF_REPLAY_DIR=os.path.join(od, 'replays'))
            try:
                rr = sh(['./check', c, '--tier', 'quick'], cwd=TV, env=e, timeout=1500)
                v = [x for x in rr.stdout.split('\n') if x.startswith('VIOLATION')]
                hits[c] = {'exit': rr.returncode, 'violations': len(v), 'with_input': sum(1 for x in v if 'no-failing-input-found' not in x)}
            except subprocess.TimeoutExpired:
                hits[c] = {'exit': 'timeout'}
            if hits[c].get('violations'):
                break          # one check that sees it is enough for the kill count
        rec['status'] = 'caught' if any(h.get('violations') for h in hits.values()) else 'SURVIVED'
        rec['checks'] = hits
        rec['patch'] = pd
        open(res_path, 'a').write(json.dumps(rec) + '\n')
        shutil.rmtree(os.path.join(outdir, 'mut_%s_%03d' % (tag, done)), ignore_errors=True)
    sh(['git', '-C', '/repo', 'worktree', 'remove', '--force', W])


if __name__ == '__main__':
    main()
