#!/bin/bash
# confirm a seeded change in its scratch worktree: existing suite green with the change, demo fails with it, passes without it.
# usage: lib/seed_confirm.sh <worktree> <id>     (writes <worktree>/out/confirm.txt)
set -u
W=$1; ID=$2
export CARGO_NET_OFFLINE=true
cd "$W" || exit 2
OUT=$W/out/confirm.txt
: > "$OUT"
DEMO=$(ls tests/demo_${ID}*.rs 2>/dev/null | head -1)
[ -z "$DEMO" ] && { echo "no demo file" >> "$OUT"; exit 2; }
T=$(basename "$DEMO" .rs)
echo "== demo with change" >> "$OUT"
timeout 1200 cargo test --offline --test "$T" >> "$OUT.log" 2>&1; RC1=$?
echo "demo_with_change rc=$RC1" >> "$OUT"
echo "== existing suite with change (demo moved aside)" >> "$OUT"
mv "$DEMO" /tmp/_demo_$ID.rs
timeout 3000 cargo test --workspace --no-fail-fast --offline > "$OUT.suite.log" 2>&1; RC2=$?
PASSED=$(grep -h "^test result" "$OUT.suite.log" | awk '{s+=$4} END {print s}')
FAILED=$(grep -h "^test result" "$OUT.suite.log" | awk '{s+=$6} END {print s}')
echo "suite_with_change rc=$RC2 passed=$PASSED failed=$FAILED" >> "$OUT"
mv /tmp/_demo_$ID.rs "$DEMO"
echo "== demo without change" >> "$OUT"
# (no git stash: the stash is shared by all worktrees of a repository)
git diff -- src > "$W/out/_confirm_src.diff"
git apply -R "$W/out/_confirm_src.diff"
timeout 1200 cargo test --offline --test "$T" >> "$OUT.log2" 2>&1; RC3=$?
git apply "$W/out/_confirm_src.diff"
echo "demo_without_change rc=$RC3" >> "$OUT"
if [ $RC1 -ne 0 ] && [ $RC2 -eq 0 ] && [ "$FAILED" = "0" ] && [ $RC3 -eq 0 ]; then echo "CONFIRMED" >> "$OUT"; else echo "NOT-CONFIRMED" >> "$OUT"; fi
tail -1 "$OUT"
