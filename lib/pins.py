#!/usr/bin/env python3
"""Pinned theorem statements.  `lib/pins.py --write` records, for every Theorem/Corollary/Lemma/Example of coq/Props/*.v,
the sha256 of its whitespace-normalised statement in coq/pins.json (committed).  Every check recomputes them:
a property theorem whose statement differs from the pinned one (weakened, renamed, removed) fails the proof step."""
import hashlib, json, os, re, sys
V = os.path.dirname(os.path.dirname(os.path.abspath(__file__)))
PINS = os.path.join(V, 'coq', 'pins.json')


def strip_comments(src):
    out, depth, i = [], 0, 0
    while i < len(src):
        if src.startswith('(*', i): depth += 1; i += 2
        elif src.startswith('*)', i) and depth: depth -= 1; i += 2
        else:
            if not depth: out.append(src[i])
            i += 1
    return ''.join(out)


def statements(path):
    code = strip_comments(open(path).read())
    res = {}
    for m in re.finditer(r'^(Theorem|Corollary|Lemma|Example)\s+([A-Za-z0-9_\']+)(.*?)(?:\.\s+Proof\b|:=)', code, re.S | re.M):
        res[m.group(2)] = hashlib.sha256(re.sub(r'\s+', ' ', m.group(3)).strip().encode()).hexdigest()[:24]
    return res


def current():
    d = os.path.join(V, 'coq', 'Props')
    return {f[:-2]: statements(os.path.join(d, f)) for f in sorted(os.listdir(d)) if f.endswith('.v')}


def compare(pid):
    """list of problems for property pid"""
    if not os.path.exists(PINS):
        return ['coq/pins.json missing']
    pinned = json.load(open(PINS)).get(pid, {})
    cur = current().get(pid, {})
    bad = []
    for n, h in pinned.items():
        if n not in cur: bad.append('pinned theorem %s is gone from Props/%s.v' % (n, pid))
        elif cur[n] != h: bad.append('statement of %s differs from the pinned one' % n)
    return bad


if __name__ == '__main__':
    if '--write' in sys.argv:
        json.dump(current(), open(PINS, 'w'), indent=1, sort_keys=True)
        print('pinned', sum(len(v) for v in current().values()), 'statements')
    else:
        for p in current():
            for b in compare(p): print(p, b)
