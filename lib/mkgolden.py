#!/usr/bin/env python3
"""Writes the golden images (C12).  Run ONCE against the pinned release 4b82afd,
before any fix: commit; the result is committed under /verif/golden and never regenerated.
Histories avoid the defects of the pinned tree (DESIGN.md section 2): n in {8,32,256},
values <= 4000 bytes, large free slots re-used at equal size only, no key-record relocation
(value file stays below 16 KiB while entries are overwritten/deleted)."""
import os, random, subprocess, sys, shutil, json

H = '/verif/build/cargo-target/debug/harness'
OUT = '/verif/golden'

def vu64(v):
    if v < 0x80: return bytes([v])
    for L in range(2, 8):
        if v < (1 << (7*L)):
            b0 = (256 - (1 << (9-L))) + (v % (1 << (8-L)))
            rest = v >> (8-L)
            return bytes([b0]) + rest.to_bytes(L-1, 'little')
    if v < (1 << 56): return b'\xfe' + v.to_bytes(7, 'little')
    return b'\xff' + v.to_bytes(8, 'little')

def hx(b): return b.hex() if b else '-'

def mkkey(rng, kt, universe):
    i = rng.randrange(universe)
    r = random.Random(kt + str(i))
    if kt in ('string', 'bytes'):
        ln = r.choice([0, 1, 2, 5, 6, 7, 8, 13, 14, 15, 21, 22, 23, 24, 40]) if i else 0
        if kt == 'string':
            return bytes(r.choice(b'abcdefghijklmnopqrstuvwxyz0123456789_') for _ in range(ln))
        return bytes(r.randrange(256) for _ in range(ln))
    if kt == 'u64':
        x = r.choice([0, 1, 127, 128, 255, 256, 65535, 2**32-1, 2**32, 2**63, 2**64-1, r.randrange(2**64)])
        return x.to_bytes(8, 'little')
    if kt == 'i64':
        x = r.choice([0, 1, -1, 127, -128, 2**31, -2**31, 2**63-1, -2**63, r.randrange(-2**63, 2**63)])
        return x.to_bytes(8, 'little', signed=True)
    if kt == 'vu64':
        x = r.choice([0, 1, 127, 128, 16383, 16384, 2**21-1, 2**21, 2**28, 2**35, 2**42, 2**49, 2**56-1, 2**56, 2**64-1, r.randrange(2**64)])
        return vu64(x)

def history(rng, kt, variant):
    """returns (params, ops) ; ops are (op, key, val)"""
    ops = []
    if variant == 0:      # small table, deletes, overwrites within slot class
        params = 'B8,VA,KP1000,HP1000'
        sizes = [0, 1, 5, 13, 14, 15, 20, 30, 45, 60]
        for _ in range(120):
            k = mkkey(rng, kt, 14)
            c = rng.random()
            if c < 0.6: ops.append(('put', k, bytes(rng.randrange(256) for _ in range(rng.choice(sizes)))))
            elif c < 0.9: ops.append(('del', k, None))
            else: ops.append(('get', k, None))
    elif variant == 1:    # 32 buckets, large slots freed and re-used at equal size, non-empty free lists
        params = 'B32,VA,KP1000,HP1000'
        # one large slot size per history (first-fit on the shared large list would otherwise
        # re-use a bigger slot for a smaller record, which the pinned release gets wrong: D3)
        lo, hi = {'string': (1020, 1147), 'bytes': (1916, 2043), 'i64': (2940, 3067), 'u64': (1020, 1147), 'vu64': (1916, 2043)}[kt]
        for rnd in range(3):
            ks = [mkkey(rng, kt, 40) for _ in range(6)]
            for k in ks: ops.append(('put', k, bytes(rng.randrange(256) for _ in range(rng.randrange(lo, hi + 1)))))
            for k in ks[:3]: ops.append(('del', k, None))
            for k in ks[:2]: ops.append(('put', k, bytes(rng.randrange(256) for _ in range(rng.choice([100, 200, 300, 700])))))
        for _ in range(6):
            ops.append(('del', mkkey(rng, kt, 40), None))
    else:                 # 256 buckets, mixed, final appends push the value file past 16 KiB
        params = 'B256,VA,KP1000,HP1000'
        sizes = [0, 7, 24, 40, 100, 250, 500]
        for _ in range(60):
            k = mkkey(rng, kt, 25)
            c = rng.random()
            if c < 0.7: ops.append(('put', k, bytes(rng.randrange(256) for _ in range(rng.choice(sizes)))))
            else: ops.append(('del', k, None))
        # appends only (fresh keys, never touched again)
        done = set(k for (_, k, _) in ops)
        n = 0; i = 1000
        while n < 8:
            k = mkkey(rng, kt, 10**6)
            i += 1
            if k in done: continue
            done.add(k); n += 1
            ops.append(('put', k, bytes(rng.randrange(256) for _ in range(3500))))
    return params, ops

def main():
    manifest = []
    for kt in ['string', 'bytes', 'i64', 'u64', 'vu64']:
        for variant in range(3):
            name = f'{kt}_{variant}'
            rng = random.Random(f'golden-{name}')
            params, ops = history(rng, kt, variant)
            d = os.path.join(OUT, name)
            shutil.rmtree(d, ignore_errors=True)
            os.makedirs(d)
            lines = ['db d0 db', f'map m0 d0 {kt} gold {params}']
            model = {}
            exp = []
            for (op, k, v) in ops:
                if op == 'put':
                    lines.append(f'put m0 {hx(k)} {hx(v)}'); exp.append('ok'); model[k] = v
                elif op == 'del':
                    lines.append(f'del m0 {hx(k)}')
                    exp.append('none' if k not in model else None); model.pop(k, None)
                else:
                    lines.append(f'get m0 {hx(k)}'); exp.append(None)
            lines.append('len m0')
            lines.append('closeall')
            open(os.path.join(d, 'history.ops'), 'w').write('\n'.join(lines) + '\n')
            out = subprocess.run([H, 'run', os.path.join(d, 'history.ops'), d], capture_output=True, text=True, timeout=120)
            res = out.stdout.split('\n')
            assert out.returncode == 0, (name, out.stderr)
            assert 'panic' not in out.stdout and 'err' not in out.stdout, name
            assert res[-3] == str(len(model)), (name, res[-3], len(model))
            # read back in a fresh process
            chk = ['db d0 db', f'map m0 d0 {kt} gold default'] + [f'get m0 {hx(k)}' for k in sorted(model)] + ['len m0', 'closeall']
            open(os.path.join(d, 'check.ops'), 'w').write('\n'.join(chk) + '\n')
            shutil.copytree(os.path.join(d, 'db'), os.path.join(d, 'dbcopy'))
            out = subprocess.run([H, 'run', os.path.join(d, 'check.ops'), os.path.join(d, 'x')], capture_output=True, text=True)
            shutil.rmtree(os.path.join(d, 'x'), ignore_errors=True)
            os.makedirs(os.path.join(d, 'x'))
            shutil.move(os.path.join(d, 'dbcopy'), os.path.join(d, 'x', 'db'))
            out = subprocess.run([H, 'run', os.path.join(d, 'check.ops'), os.path.join(d, 'x')], capture_output=True, text=True)
            res = out.stdout.strip().split('\n')
            for i, k in enumerate(sorted(model)):
                v = model[k]
                want = 'some:' + (hx(v) if len(v) <= 40 else None or '')
                if len(v) <= 40:
                    assert res[2+i] == 'some:' + hx(v), (name, k, res[2+i])
                else:
                    assert res[2+i].startswith(f'some:#{len(v)}:'), (name, k, res[2+i])
            shutil.rmtree(os.path.join(d, 'x'))
            os.remove(os.path.join(d, 'check.ops'))
            with open(os.path.join(d, 'expected.txt'), 'w') as f:
                for k in sorted(model):
                    f.write(f'{hx(k)} {hx(model[k])}\n')
            sizes = {fn: os.path.getsize(os.path.join(d, 'db', fn)) for fn in sorted(os.listdir(os.path.join(d, 'db')))}
            manifest.append({'name': name, 'type': kt, 'params': params, 'entries': len(model), 'files': sizes})
            print(name, len(model), sizes)
    json.dump({'written_by': 'abyssiniandb 0.1.4 @ 4b82afd (pinned release, before any fix: commit), dev profile',
               'images': manifest}, open(os.path.join(OUT, 'MANIFEST.json'), 'w'), indent=1)

if __name__ == '__main__':
    main()
