#!/bin/bash
# re-run every seeded change of /verif/seeded against the current checks (isolated; see seed_trial_iso.sh)
# usage: lib/seed_all.sh [outdir] [only-id ...]
OUT=${1:-/root/scratch/trials_all}; shift
mkdir -p $OUT
ONLY="$*"
for d in /verif/seeded/*/; do
  id=$(basename $d)
  [ -f $d/patch.diff ] || continue
  if [ -n "$ONLY" ] && ! echo " $ONLY " | grep -q " $id "; then continue; fi
  case $id in
    A1_*) P="C06 C05 C17" ;;
    X1_*) P="C09 C12" ;;
    H1_*) P="C01 C04 C05 C06 C08 C09 C15 C17 C18" ;;      # the harmless rewrite: every one of these must stay quiet
    *)    P=${id:0:3} ;;
  esac
  r=$(/verif/lib/seed_trial_iso.sh $d/patch.diff $OUT/$id $P | grep " rc=" | tr '\n' ';')
  echo "$id -> $r"
done | tee -a $OUT/ALL.txt
