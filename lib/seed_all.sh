#!/bin/bash
# re-run every seeded change of /verif/seeded against the current checks (isolated; see seed_trial_iso.sh)
# usage: lib/seed_all.sh [outdir]
OUT=${1:-/root/scratch/trials_all}
mkdir -p $OUT
for d in /verif/seeded/*/; do
  id=$(basename $d); P=${id:0:3}
  r=$(/verif/lib/seed_trial_iso.sh $d/patch.diff $OUT/$id $P | tail -1)
  echo "$id -> $r"
done | tee $OUT/ALL.txt
