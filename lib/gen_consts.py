#!/usr/bin/env python3
"""Turns the output of `harness consts` (the constants the crate was compiled with, printed by
the layout-probe hook) into coq/gen/Consts.v.  Every theorem is re-checked against these values."""
import sys, re

def main(src, dst):
    lines = [l.strip() for l in open(src) if l.strip()]
    out = ['(* GENERATED on every run from the layout-probe hook of /repo (harness consts). Do not edit. *)',
           'From Coq Require Import NArith List.', 'Import ListNotations.', 'Local Open Scope N_scope.', '']
    seen = []
    for l in lines:
        name, val = l.split(' ', 1)
        if not re.fullmatch(r'[a-z0-9_]+', name):
            raise SystemExit('bad const name ' + name)
        if val.startswith('['):
            nums = [x.strip() for x in val.strip('[]').split(',') if x.strip()]
            for x in nums:
                int(x)
            out.append('Definition %s : list N := [%s].' % (name, '; '.join(nums)))
        elif val in ('true', 'false'):
            out.append('Definition %s : bool := %s.' % (name, val))
        else:
            int(val)
            out.append('Definition %s : N := %s.' % (name, val))
        seen.append(name)
    need = ['key_header_size', 'key_signature', 'key_chunk_size', 'key_size_ary', 'key_free_offset',
            'val_header_size', 'val_signature', 'val_chunk_size', 'val_size_ary', 'val_free_offset',
            'htx_header_size', 'htx_signature', 'htx_chunk_size', 'htx_default_buckets', 'htx_size_offset',
            'htx_count_offset', 'htx_bitmap', 'sig_string', 'sig_bytes', 'sig_i64', 'sig_u64', 'sig_vu64']
    for n in need:
        if n not in seen:
            raise SystemExit('missing const ' + n)
    open(dst, 'w').write('\n'.join(out) + '\n')

if __name__ == '__main__':
    main(sys.argv[1], sys.argv[2])
