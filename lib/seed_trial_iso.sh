#!/bin/bash
# like seed_trial.sh, but isolated from /repo and /verif's build (so that it can run while long runs use /repo):
# the patch is applied in a scratch worktree of /repo and the checks run from a scratch copy of /verif with VERIF_REPO.
# usage: lib/seed_trial_iso.sh <patch.diff> <outdir> P1 [P2 ...]
set -u
PATCH=$1; OUT=$2; shift 2
mkdir -p "$OUT"
TAG=${TRIAL_TAG:-}; TR=/root/scratch/trial_repo$TAG; TV=/root/scratch/trial_verif$TAG
git -C /repo worktree remove --force $TR >/dev/null 2>&1; rm -rf $TR
git -C /repo worktree add --detach $TR HEAD >/dev/null 2>&1 || exit 2
git -C $TR apply -v "$PATCH" > "$OUT/apply.log" 2>&1 || { echo "patch does not apply"; exit 2; }
grep -q "offset" "$OUT/apply.log" && echo "NOTE: $(grep offset "$OUT/apply.log" | head -1) - check that the hunk landed on the intended (active cfg) code" | tee "$OUT/apply_note.txt"
mkdir -p $TV && rsync -a --delete --exclude .git --exclude build/work --exclude replays /verif/ $TV/
cd $TV
for P in "$@"; do
  VERIF_REPO=$TR VERIF_EVIDENCE_DIR=$OUT/evidence VERIF_REPLAY_DIR=$OUT/replays timeout 3000 ./check $P --tier quick > "$OUT/$P.log" 2>&1
  echo "$P rc=$? $(grep -c '^VIOLATION' $OUT/$P.log) violation lines: $(grep '^VIOLATION' $OUT/$P.log | head -2 | tr '\n' ' ')"
done | tee "$OUT/summary.txt"
git -C /repo worktree remove --force $TR >/dev/null 2>&1
