#!/usr/bin/env python3
"""Independent reader of the abyssiniandb on-disk format, written from the layout
documentation (header tables in htx.rs/key.rs/val.rs doc comments, README) and sharing
no code with the crate or with the Coq model.  Used as a *direct oracle* when a proof
obligation or the correspondence breaks (DESIGN.md section 6): it decides, on real files,
the structural statements of C05/C06/C12/C17 and recovers the contents.

check_map(dir, name) -> (contents: dict, report: dict, problems: list[str])
"""
import os, sys

SIZE_ARY = [16, 24, 32, 48, 64, 80, 96, 112, 128, 256, 384, 512, 640, 768, 896, 1024]
KEY_FREE0, VAL_FREE0 = 48, 32
HDR = 192
HTX_HDR = 128
MASK = (1 << 64) - 1


def vu64_dec(b, p):
    """returns (value, next position) or raises"""
    b0 = b[p]
    L = 1
    while L < 9 and (b0 >> (8 - L)) & 1:
        L += 1
    if p + L > len(b):
        raise ValueError('truncated vu64 at %d' % p)
    if L == 1:
        return b0, p + 1
    if L <= 7:
        low = b0 & ((1 << (8 - L)) - 1)
        rest = int.from_bytes(b[p + 1:p + L], 'little')
        v = (rest << (8 - L)) | low
    elif L == 8:
        v = int.from_bytes(b[p + 1:p + 8], 'little')
    else:
        v = int.from_bytes(b[p + 1:p + 9], 'little')
    if v < (1 << (7 * (L - 1))):
        raise ValueError('redundant vu64 at %d' % p)
    return v, p + L


def xorshift(x):
    x ^= x >> 12
    x ^= (x << 25) & MASK
    x ^= x >> 27
    return x


def hash_key(k):
    st = 0
    for chunkset in (len(k).to_bytes(8, 'little'), k):
        for i in range(0, len(chunkset), 8):
            c = chunkset[i:i + 8]
            st = xorshift((st + int.from_bytes(c, 'big')) & MASK)
    return st


def class_index(sz):
    return SIZE_ARY.index(sz) if sz in SIZE_ARY else 15


def walk_slots(b, kind, problems):
    """sequential slot walk. returns list of (off, size, used, fields)"""
    slots = []
    off = HDR
    end = len(b)
    while off < end:
        try:
            s8, p = vu64_dec(b, off)
        except Exception as e:
            problems.append(f'{kind}: undecodable size field at {off}: {e}')
            break
        size = s8 * 8
        if size == 0:
            problems.append(f'{kind}: slot of size 0 at {off} (gap/orphan bytes, file end {end})')
            break
        if off + size > end:
            problems.append(f'{kind}: slot at {off} size {size} overruns file end {end}')
            break
        if not (size in SIZE_ARY or (size > 1024 and size % 128 == 0)):
            problems.append(f'{kind}: slot at {off} has invalid size {size}')
        try:
            ln, p2 = vu64_dec(b, p)
        except Exception as e:
            problems.append(f'{kind}: bad length field at {off}: {e}')
            break
        slots.append((off, size, p, ln, p2))
        off += size
    if off != end and not problems:
        problems.append(f'{kind}: walk ends at {off}, file end {end}')
    return slots


def check_map(d, name, sig2=None):
    problems = []
    rep = {}
    rd = lambda ext: open(os.path.join(d, name + ext), 'rb').read()
    htx, key, val = rd('.htx'), rd('.key'), rd('.val')
    # headers
    if htx[:8] != b'abysdbH\0': problems.append('htx: bad signature1')
    if key[:8] != b'abysdbK\0': problems.append('key: bad signature1')
    if val[:8] != b'abysdbV\0': problems.append('val: bad signature1')
    if not (htx[8:16] == key[8:16] == val[8:16]): problems.append('type signatures differ between files')
    if sig2 is not None and htx[8:16] != sig2: problems.append('unexpected type signature')
    rep['sig2'] = htx[8:16]
    n = int.from_bytes(htx[16:24], 'little')
    count = int.from_bytes(htx[24:32], 'little')
    rep['n'], rep['count'] = n, count
    if n == 0 or n & (n - 1): problems.append(f'htx: bucket count {n} not a power of two')
    if any(htx[32:128]): problems.append('htx: reserved header bytes not zero')
    if any(key[16:48]) or any(key[176:192]): problems.append('key: reserved header bytes not zero')
    if any(val[16:32]) or any(val[160:192]): problems.append('val: reserved header bytes not zero')
    want_len = HTX_HDR + 8 * n + n // 8
    if n >= 8 and len(htx) != want_len: problems.append(f'htx: length {len(htx)} != {want_len}')
    if n < 8 and len(htx) not in (want_len, want_len + 1): problems.append(f'htx: length {len(htx)} for n={n}')
    heads = [int.from_bytes(htx[HTX_HDR + 8 * i:HTX_HDR + 8 * i + 8], 'little') for i in range(n)]
    bm = htx[HTX_HDR + 8 * n:]
    bit = lambda i: (bm[i // 8] >> (i % 8)) & 1 if i // 8 < len(bm) else 0
    for i in range(n):
        if bool(bit(i)) != bool(heads[i]):
            problems.append(f'htx: bitmap bit {i} = {bit(i)} but head = {heads[i]}')
    for i in range(n, len(bm) * 8):
        if bit(i): problems.append(f'htx: bitmap bit {i} set beyond table')
    # slot walks
    kslots = walk_slots(key, 'key', problems)
    vslots = walk_slots(val, 'val', problems)
    kat = {s[0]: s for s in kslots}
    vat = {s[0]: s for s in vslots}
    # free lists
    def free_lists(b, at, first, kind):
        onlist = {}
        counts = []
        for c in range(16):
            h = int.from_bytes(b[first + 8 * c:first + 8 * c + 8], 'little')
            cnt = 0
            seen = set()
            while h:
                if h in seen:
                    problems.append(f'{kind}: free list {c} is cyclic at {h}'); break
                seen.add(h)
                if h not in at:
                    problems.append(f'{kind}: free list {c} points to {h}, not a slot start'); break
                off, size, p, ln, p2 = at[h]
                if ln != 0:
                    problems.append(f'{kind}: slot {h} on free list {c} has length field {ln}'); break
                if h in onlist:
                    problems.append(f'{kind}: slot {h} on two free lists ({onlist[h]}, {c})'); break
                if class_index(size) != c or (c == 15 and size < 1024):
                    problems.append(f'{kind}: slot {h} size {size} on free list {c}')
                onlist[h] = c
                cnt += 1
                h = int.from_bytes(b[p2:p2 + 8], 'little')
                if any(b[p2 + 8:off + size]):
                    problems.append(f'{kind}: free slot {off} has non-zero padding')
            counts.append(cnt)
        return onlist, counts
    kfree, kcounts = free_lists(key, kat, KEY_FREE0, 'key')
    vfree, vcounts = free_lists(val, vat, VAL_FREE0, 'val')
    rep['free_key'], rep['free_val'] = kcounts, vcounts
    # chains
    contents = {}
    used_k = {}
    used_v = {}
    nonempty = 0
    for bkt in range(n):
        h = heads[bkt]
        if h: nonempty += 1
        seen = set()
        while h:
            if h in seen:
                problems.append(f'chain of bucket {bkt} is cyclic at {h}'); break
            seen.add(h)
            if h not in kat:
                problems.append(f'bucket {bkt}: link to {h}, not a key slot start'); break
            if h in kfree:
                problems.append(f'bucket {bkt}: key slot {h} is on a free list'); break
            if h in used_k:
                problems.append(f'key slot {h} reachable twice'); break
            off, size, p, klen, p2 = kat[h]
            k = bytes(key[p2:p2 + klen])
            try:
                vo8, p3 = vu64_dec(key, p2 + klen)
                nx8, p4 = vu64_dec(key, p3)
            except Exception as e:
                problems.append(f'key slot {h}: {e}'); break
            if p4 > off + size:
                problems.append(f'key slot {h}: record ({p4 - off} bytes) exceeds slot size {size}')
            if any(key[p4:off + size]):
                problems.append(f'key slot {h}: non-zero padding')
            if hash_key(k) % n != bkt:
                problems.append(f'key {k.hex()} in bucket {bkt}, hashes to {hash_key(k) % n}')
            if k in contents:
                problems.append(f'key {k.hex()} stored twice')
            vo = vo8 * 8
            if vo not in vat:
                problems.append(f'key slot {h}: value offset {vo} is not a value slot start')
                v = None
            else:
                voff, vsize, vp, vlen, vp2 = vat[vo]
                if vo in vfree: problems.append(f'key slot {h}: value slot {vo} is on a free list')
                if vo in used_v: problems.append(f'value slot {vo} owned by two keys')
                if vp2 + vlen > voff + vsize:
                    problems.append(f'value slot {vo}: record exceeds slot size {vsize}')
                if any(val[vp2 + vlen:voff + vsize]):
                    problems.append(f'value slot {vo}: non-zero padding')
                used_v[vo] = h
                v = bytes(val[vp2:vp2 + vlen])
            used_k[h] = bkt
            contents[k] = v
            h = nx8 * 8
    rep['nonempty_buckets'] = nonempty
    if count != len(contents):
        problems.append(f'htx: item count {count} != reachable keys {len(contents)}')
    for off in kat:
        if off not in used_k and off not in kfree:
            problems.append(f'key: slot {off} (size {kat[off][1]}) neither reachable nor free (orphan)')
    for off in vat:
        if off not in used_v and off not in vfree:
            problems.append(f'val: slot {off} (size {vat[off][1]}) neither owned nor free (orphan)')
    # statistics as the crate defines them (non-empty keys / values only)
    def hist(xs):
        h = {}
        for x in xs: h[x] = h.get(x, 0) + 1
        return sorted(h.items())
    rep['key_len_hist'] = hist([kat[o][3] for o in used_k if kat[o][3]])
    rep['val_len_hist'] = hist([vat[o][3] for o in used_v if vat[o][3]])
    rep['key_size_hist'] = hist([kat[o][1] for o in used_k if kat[o][3]])
    rep['val_size_hist'] = hist([vat[o][1] for o in used_v if vat[o][3]])
    rep['key_slots'] = [(s[0], s[1]) for s in kslots]
    rep['val_slots'] = [(s[0], s[1]) for s in vslots]
    rep['lens'] = (len(htx), len(key), len(val))
    return contents, rep, problems


if __name__ == '__main__':
    c, r, p = check_map(sys.argv[1], sys.argv[2])
    print(len(c), 'entries; n =', r['n'], 'count =', r['count'], 'files', r['lens'])
    for x in p: print('PROBLEM', x)
    sys.exit(1 if p else 0)
