#!/usr/bin/env python3
"""Per-property correspondence scenarios, direct oracles and proof bookkeeping."""
import os, sys, re, json, shutil, time, subprocess, hashlib
from concurrent.futures import ThreadPoolExecutor
sys.path.insert(0, os.path.dirname(__file__))
import common as C
import gen as G
import oracle as O

TRUSTED_BASE = [
    'Coq 8.16.1 kernel via coqc (full .vo builds), including its VM (vm_compute); no native_compute',
    'std++ 1.8.0 and the Coq standard library (axioms, if any, as listed per theorem under assumptions_reported)',
    'hand-written Gallina model of the crate (coq/theories/*.v, definitions), tied to /repo by the regenerated '
    'coq/gen/Consts.v + Hash_vectors.v and by the differential runs counted in this file',
    'extraction with ExtrOcamlBasic only (bool, option, unit, list, prod, sumbool, sumor to OCaml types; andb/orb inlined), '
    'ocamlfind ocamlopt 4.13.1, ocaml/driver.ml (parser/printer) - used for the correspondence and oracles only',
    'the Rust runner /verif/harness (maps API calls, panics, hangs to canonical lines) and lib/*.py (generator, diff, shrinker)',
    'the layout-probe and io-trace hooks in /repo (cfg abyssiniandb_verif)',
    'modelled, not verified: rabuf 0.1.20 and vu64 0.1.11 (dependencies), the OS and file system, Rc/RefCell glue',
]
LEVEL = {}
ASSUMPTIONS = {}
EXPLANATION = {}
RELEASE_IN_QUICK = {'C01', 'C04', 'C06'}      # quick tier: a few cases of these run on a release build (behaviour that differs between dev and release: debug_assert!, overflow checks)
NEEDS_RELEASE = {'C01', 'C04', 'C06', 'C08', 'C09'}      # thorough tier: every 5th case of these also runs on a release build of the runner
SCENARIOS = {}


class Ctx:
    def __init__(self, pid, tier, seed):
        self.pid, self.tier, self.seed = pid, tier, seed
        self.evaluations = 0
        self.distinct = set()
        self.samples = []
        self.disagreements = 0
        self.violations = []
        self.known = []
        self.distribution = {}
        self.scen_counts = {}
        self.rule = ''
        self.proof = None
        self.root = os.path.join(C.WORK, pid)
        shutil.rmtree(self.root, ignore_errors=True)
        os.makedirs(self.root, exist_ok=True)
        os.makedirs(C.REPLAYS, exist_ok=True)
        self.quick = tier != 'thorough'

    def scale(self, q, t):
        return q if self.quick else t

    def merge_stats(self, st):
        for k, d in st.items():
            tgt = self.distribution.setdefault(k, {})
            for a, b in d.items():
                tgt[str(a)] = tgt.get(str(a), 0) + b

    def violation(self, name, text, ops, found=True):
        """records a violation; writes the replay file"""
        path = os.path.join(C.REPLAYS, '%s-%s-%s.ops' % (self.pid, self.seed, re.sub(r'[^A-Za-z0-9_]+', '_', name)))
        with open(path, 'w') as f:
            for l in text.split('\n'):
                f.write('# ' + l + '\n')
            if ops:
                f.write('\n'.join(ops) + '\n')
        line = 'VIOLATION property=%s replay=%s' % (self.pid, path)
        if not found:
            line += ' no-failing-input-found'
        if line not in self.violations:
            self.violations.append(line)
        return path


# ------------------------------------------------------------------ proofs
def thm_names(path):
    src = open(path).read()
    return re.findall(r'^(?:Theorem|Lemma|Corollary|Example|Proposition)\s+([A-Za-z0-9_\']+)', src, re.M)


def deps_of(vfile):
    """transitive .v dependencies inside the project, from coqdep"""
    r = C.sh(['coqdep', '-f', '_CoqProject', '-sort'] , cwd=C.COQ)
    # simple approach: parse the Makefile dependency file
    dep = {}
    r = C.sh(['coqdep', '-f', '_CoqProject'], cwd=C.COQ)
    for l in r.stdout.split('\n'):
        if ':' not in l: continue
        lhs, rhs = l.split(':', 1)
        tg = [x for x in lhs.split() if x.endswith('.vo')]
        if not tg: continue
        ds = [x[:-1] for x in rhs.split() if x.endswith('.vo') and not x.startswith('/')]
        dep[tg[0][:-1]] = ds
    seen = set()
    todo = [vfile]
    while todo:
        x = todo.pop()
        if x in seen: continue
        seen.add(x)
        todo += dep.get(x, [])
    return sorted(seen)


def proofs(ctx):
    """make the property's theorem file (+ Pins), report assumptions; never raises on proof failure"""
    pid = ctx.pid
    vf = 'Props/%s.v' % pid
    res = {'ok': True, 'obligations': 0, 'discharged': 0, 'theorems': [], 'assumptions': {}, 'log': ''}
    bad = C.grep_forbidden()
    if bad:
        res.update(ok=False, log='forbidden constructs in the development: ' + '; '.join(bad))
        return res
    if not os.path.exists(os.path.join(C.COQ, vf)):
        res.update(ok=False, log='no theorem file ' + vf)
        return res
    import pins
    pb = pins.compare(pid)
    if pb:
        res.update(ok=False, log='pinned statements (coq/pins.json): ' + '; '.join(pb))
        return res
    targets = [vf + 'o', 'gen/Hash_vectors.vo']
    if os.path.exists(os.path.join(C.COQ, 'Pins.v')):
        targets.append('Pins.vo')
    t0 = time.time()
    ok, lg = C.coq_make(targets)
    deps = deps_of(vf)
    nob = sum(len(thm_names(os.path.join(C.COQ, d))) for d in deps if os.path.exists(os.path.join(C.COQ, d)))
    res['obligations'] = nob
    res['deps'] = deps
    if not ok:
        # count what did compile
        done = sum(len(thm_names(os.path.join(C.COQ, d))) for d in deps if os.path.exists(os.path.join(C.COQ, d + 'o')))
        m = re.findall(r'File "([^"]+)", line (\d+)[^\n]*\n((?:.*\n){0,8})', lg)
        res.update(ok=False, discharged=done, log='make failed: ' + (('%s line %s: %s' % (m[0][0], m[0][1], m[0][2][:500])) if m else lg[-800:]))
        return res
    res['discharged'] = nob
    names = thm_names(os.path.join(C.COQ, vf))
    res['theorems'] = names
    # Print Assumptions, always executed (the .vo may be cached)
    q = os.path.join(C.BUILD, 'assume_%s.v' % pid)
    with open(q, 'w') as f:
        f.write('From Aby.Props Require Import %s.\n' % pid)
        for n in names:
            f.write('Print Assumptions %s.\n' % n)
    r = C.sh(['timeout', '600', 'coqc', '-Q', 'gen', 'Aby', '-Q', 'theories', 'Aby', '-Q', 'Props', 'Aby.Props', q], cwd=C.COQ)
    for junk in ('.vo', '.glob', '.vok', '.vos'):
        try: os.remove(q[:-2] + junk)
        except OSError: pass
    try: os.remove(os.path.join(C.BUILD, '.assume_%s.aux' % pid))
    except OSError: pass
    if r.returncode != 0:
        res.update(ok=False, log='Print Assumptions failed: ' + (r.stdout + r.stderr)[-800:])
        return res
    blocks = [b.strip() for b in re.split(r'\n(?=Closed under|Axioms:)', '\n' + r.stdout) if b.strip()]
    allow = ALLOWED_AXIOMS
    for n, b in zip(names, blocks):
        if b.startswith('Closed under the global context'):
            res['assumptions'][n] = 'Closed under the global context'
        else:
            axs = re.findall(r'^([A-Za-z0-9_.\']+)\s*:', b, re.M)
            res['assumptions'][n] = axs
            extra = [a for a in axs if a.split('.')[-1] not in allow]
            if extra:
                res.update(ok=False, log='theorem %s depends on axioms outside the allowlist: %s' % (n, extra))
    if len(blocks) != len(names):
        res.update(ok=False, log='could not match Print Assumptions output to theorems (%d vs %d)' % (len(blocks), len(names)))
    res['make_s'] = round(time.time() - t0, 1)
    if not ctx.quick and res['ok']:
        # thorough: re-check the compiled closure with the independent checker and list the axioms it relies on
        r = C.sh(['timeout', '3000', 'coqchk', '-o', '-silent', '-Q', 'gen', 'Aby', '-Q', 'theories', 'Aby', '-Q', 'Props', 'Aby.Props',
                  'Aby.Props.%s' % pid], cwd=C.COQ, timeout=3100)
        out = r.stdout + r.stderr
        m = re.search(r'\* Axioms:(.*?)\n\s*\n\* Constants', out, re.S)
        axioms = m.group(1).strip() if m else 'unparsed'
        res['coqchk'] = {'rc': r.returncode, 'axioms': axioms, 'summary': out[-700:]}
        if r.returncode != 0 or axioms != '<none>':
            res.update(ok=False, log='coqchk -o on the closure of Props/%s.vo: rc=%d axioms=%s' % (pid, r.returncode, axioms[:300]))
    return res


# axioms of the standard library that may appear (named in DESIGN.md section 8); none is expected
ALLOWED_AXIOMS = {'functional_extensionality_dep', 'proof_irrelevance', 'classic', 'JMeq_eq', 'propositional_extensionality',
                  'constructive_definite_description', 'excluded_middle_informative'}


# ------------------------------------------------------------------ paired runs
def pair(ctx, scen, idx, lines, stats=None, release=False, oracle=None, files_oracle=False, op_timeout=20):
    """one correspondence case. on disagreement: shrink, direct oracle, record the violation."""
    d = os.path.join(ctx.root, '%s_%s' % (scen, idx))
    os.makedirs(d, exist_ok=True)
    segments = lines if (lines and isinstance(lines[0], list)) else [lines]
    lines = [l for seg in segments for l in seg]
    r = C.compare_segments(segments, os.path.join(d, 'w'), release=release, op_timeout=op_timeout)
    ctx.evaluations += 1
    ctx.scen_counts[scen] = ctx.scen_counts.get(scen, 0) + 1
    h = hashlib.sha1('\n'.join(lines).encode()).hexdigest()
    if len(lines) >= 4:
        ctx.distinct.add(h)
    if len(ctx.samples) < 6 and idx % 7 == 0:
        ctx.samples.append({'scenario': scen, 'index': idx, 'ops': lines[:12] + (['... (%d ops)' % len(lines)] if len(lines) > 12 else [])})
    if stats:
        ctx.merge_stats(stats)
    extra_problem = None
    if r['ok'] and files_oracle:
        # structural oracle on the real files left behind (closed)
        for sub in sorted(os.listdir(os.path.join(d, 'w', 'impl'))) if os.path.isdir(os.path.join(d, 'w', 'impl')) else []:
            p = os.path.join(d, 'w', 'impl', sub)
            if os.path.isdir(p):
                probs, _ = O.files_ok(p)
                if probs:
                    extra_problem = 'independent decoder on %s: %s' % (sub, '; '.join(probs[:4]))
                    break
    if r['ok'] and not extra_problem:
        shutil.rmtree(d, ignore_errors=True)
        return r
    ctx.disagreements += 1
    if len(ctx.violations) >= 3:
        # enough replays recorded for this run; further disagreements are only counted - unless none of the recorded ones is a
        # concrete failing input yet: then the direct oracle (no shrinking) is asked about up to 40 further disagreeing histories
        if all('no-failing-input-found' in v for v in ctx.violations) and ctx.disagreements <= 43 and not extra_problem:
            dd = os.path.join(ctx.root, '%s_%s_or' % (scen, idx))
            verdict = None
            try:
                verdict = (oracle or api_oracle)(segments, dd, release)
            except Exception as e:
                C.log('oracle failed', e)
            shutil.rmtree(dd, ignore_errors=True)
            if verdict:
                flat = []
                for si, seg in enumerate(segments):
                    if len(segments) > 1:
                        flat.append('# --- process %d ---' % si)
                    flat += seg
                ctx.violation('%s_%s' % (scen, idx), 'property %s, scenario %s #%d, seed %s\ncorrespondence Model(Db.step) vs implementation breaks at op %s: `%s`\n  implementation: %s\n  model        : %s\ndirect oracle: %s\nreplay: ./check %s --replay <this file>'
                              % (ctx.pid, scen, idx, ctx.seed, r.get('index'), str(r.get('op', ''))[:200], str(r.get('impl'))[:300], str(r.get('model'))[:300], verdict, ctx.pid), flat, found=True)
        return r
    handle_disagreement(ctx, scen, idx, segments, r, extra_problem, release, oracle, op_timeout)
    return r


def impl_only(segments, workdir, release=False, op_timeout=20):
    if segments and not isinstance(segments[0], list):
        segments = [segments]
    shutil.rmtree(workdir, ignore_errors=True)
    os.makedirs(workdir, exist_ok=True)
    out = []
    ist = 'ok'
    for si, seg in enumerate(segments):
        f = os.path.join(workdir, 'case%d.ops' % si)
        C.write_ops(f, seg)
        il, ist = C.run_impl(f, os.path.join(workdir, 'impl'), release=release, op_timeout=op_timeout)
        ops = [l for l in seg if l.strip() and not l.startswith('#')]
        if len(il) < len(ops) and ops[len(il)].split()[0] == 'kill9':
            il = il + ['killed'] + ['skipped'] * (len(ops) - len(il) - 1)
            ist = 'ok'
        out += il
        if ist != 'ok':
            break
    return out, ist


def api_oracle(segments, workdir, release=False, files=True, op_timeout=20):
    """the property statement itself on the implementation: ideal maps + decoder. returns text or None"""
    if segments and not isinstance(segments[0], list):
        segments = [segments]
    il, ist = impl_only(segments, workdir, release, op_timeout)
    ops = [l for seg in segments for l in seg if l.strip() and not l.startswith('#')]
    bad = O.Ideal().check(ops, il)
    if bad:
        i, op, got, exp = bad[0]
        return 'op %d `%s` returned `%s`, the ideal map requires `%s`' % (i, op[:120], got[:160], exp[:160])
    if ist != 'ok':
        i = len(il)
        return 'the implementation ended with %s at op %d `%s`' % (ist, i, ops[min(i, len(ops) - 1)][:120])
    for i, l in enumerate(il):
        if l in ('panic', 'hang') or l.startswith('err'):
            if ops[i].split()[0] == 'map':
                continue
            return 'op %d `%s` returned `%s`' % (i, ops[i][:120], l)
    if files:
        impl = os.path.join(workdir, 'impl')
        for sub in sorted(os.listdir(impl)) if os.path.isdir(impl) else []:
            p = os.path.join(impl, sub)
            if os.path.isdir(p):
                probs, _ = O.files_ok(p)
                if probs:
                    return 'independent decoder on %s: %s' % (sub, '; '.join(probs[:4]))
        # histories of several processes: the files every process leaves when it closes them (not only the last one)
        if len(segments) > 1:
            w2 = os.path.join(workdir, 'steps')
            shutil.rmtree(w2, ignore_errors=True)
            os.makedirs(w2, exist_ok=True)
            for si, seg in enumerate(segments[:-1]):
                sops = [l for l in seg if l.strip() and not l.startswith('#')]
                f = os.path.join(w2, 'seg%d.ops' % si)
                C.write_ops(f, seg)
                _, st = C.run_impl(f, os.path.join(w2, 'impl'), release=release, op_timeout=op_timeout)
                if st != 'ok' or not sops or 'kill9' in [l.split()[0] for l in sops] or 'closeall' not in [l.split()[0] for l in sops[-3:]]:
                    break
                impl2 = os.path.join(w2, 'impl')
                for sub in sorted(os.listdir(impl2)):
                    p = os.path.join(impl2, sub)
                    if os.path.isdir(p):
                        probs, _ = O.files_ok(p)
                        if probs:
                            return 'independent decoder on %s after process %d closed its files: %s' % (sub, si, '; '.join(probs[:4]))
            shutil.rmtree(w2, ignore_errors=True)
    return None


def handle_disagreement(ctx, scen, idx, segments, r, extra_problem, release, oracle, op_timeout):
    d = os.path.join(ctx.root, '%s_%s_shrink' % (scen, idx))
    n = [0]
    single = len(segments) == 1

    def failing(cand):
        n[0] += 1
        os.makedirs(d, exist_ok=True)
        rr = C.compare_segments([cand], os.path.join(d, 'w%d' % n[0]), release=release, op_timeout=op_timeout)
        shutil.rmtree(os.path.join(d, 'w%d' % n[0]), ignore_errors=True)
        if rr['ok']:
            return False
        # the shrunk history must fail the way the original did: at a call of the same kind (else the shrinker slides to
        # another disagreement - e.g. one it creates itself by cutting out a setup step)
        k0 = (r.get('op') or '').split()[:1]
        k1 = (rr.get('op') or '').split()[:1]
        return not k0 or not k1 or k0 == k1
    small = segments
    if single and not extra_problem and len(segments[0]) <= 4000:
        try:
            small = [C.shrink(segments[0], failing, budget=ctx.scale(60, 200))]
        except Exception as e:
            C.log('shrink failed', e)
    os.makedirs(d, exist_ok=True)
    rr = C.compare_segments(small, os.path.join(d, 'wf'), release=release, op_timeout=op_timeout) if not extra_problem else r
    verdict = (oracle or api_oracle)(small, os.path.join(d, 'or'), release)
    if not verdict and not extra_problem and small != segments:
        # the shrunk history no longer shows the failure to the direct oracle (the shrinker only keeps the disagreement with the
        # model): ask it about the history as generated, and report that one when it fails there
        verdict = (oracle or api_oracle)(segments, os.path.join(d, 'or2'), release)
        if verdict:
            small = segments
            rr = r
    head = ['property %s, scenario %s #%d, seed %s' % (ctx.pid, scen, idx, ctx.seed)]
    if extra_problem:
        head.append(extra_problem)
    if not rr.get('ok', True):
        head.append('correspondence Model(Db.step) vs implementation breaks at op %s: `%s`' % (rr.get('index'), rr.get('op', '')[:200]))
        head.append('  implementation: %s' % str(rr.get('impl'))[:300])
        head.append('  model        : %s' % str(rr.get('model'))[:300])
    flat = []
    for si, seg in enumerate(small):
        if len(small) > 1:
            flat.append('# --- process %d ---' % si)
        flat += seg
    if verdict or extra_problem:
        head.append('direct oracle: ' + (verdict or extra_problem))
        head.append('replay: ./check %s --replay <this file>' % ctx.pid)
        ctx.violation('%s_%s' % (scen, idx), '\n'.join(head), flat, found=True)
    else:
        head.append('direct oracle: found no failing input (the implementation satisfies the property statement on this history); '
                    'the correspondence named above no longer checks, so the property is no longer shown to hold')
        ctx.violation('%s_%s' % (scen, idx), '\n'.join(head), flat, found=False)
    shutil.rmtree(d, ignore_errors=True)


def parallel(fn, items, workers=12):
    """runs every case; an exception inside one case does not stop the others (they may still record violations with their
    replays) - the first one is raised again afterwards and ends the check as an internal error (./check: exit 1 with the
    violations recorded so far, exit 2 when there are none)"""
    errs = []

    def safe(x):
        try:
            return fn(x)
        except Exception as e:
            import traceback
            traceback.print_exc()
            errs.append(e)
            return None
    with ThreadPoolExecutor(max_workers=workers) as ex:
        res = list(ex.map(safe, items))
    if errs:
        raise errs[0]
    return res


def run_corpus(ctx):
    """minimised failures ever found and the defect witnesses run first, for every property"""
    cd = os.path.join(C.VERIF, 'corpus')
    files = sorted(f for f in os.listdir(cd) if f.endswith('.ops'))
    sel = [f for f in files if CORPUS_FOR.get(f.split('_')[0], None) is None or ctx.pid in CORPUS_FOR[f.split('_')[0]]]

    def one(a):
        i, f = a
        lines = C.ops_of(os.path.join(cd, f))
        pair(ctx, 'corpus_' + f[:-4], i, lines, op_timeout=8)
    parallel(one, list(enumerate(sel)))


CORPUS_FOR = {'D1': ['C03', 'C16', 'C02'], 'D9': ['C03'], 'D2': ['C04', 'C07', 'C01'], 'D3': ['C06', 'C17', 'C05'], 'D4': ['C08', 'C01'],
              'D5': ['C07'], 'D7': ['C01', 'C09']}


def proof_broken(ctx, proof):
    """a proof obligation no longer checks. the scenarios above already searched the implementation;
    if they found nothing, report no-failing-input-found naming the obligation."""
    if any('no-failing-input-found' not in v for v in ctx.violations):
        # a concrete failing input was found by the scenarios: report it and the broken obligation together
        ctx.violation('proof', 'proof obligation broken (see also the concrete replay reported for this run):\n' + proof['log'], None, found=False)
        return
    ctx.violation('proof', 'a proof obligation of %s no longer checks against the model regenerated from /repo:\n%s\n'
                  'the correspondence scenarios and direct oracles of this run found no failing input' % (ctx.pid, proof['log']), None, found=False)


def replay(ctx, path):
    segs = [[]]
    for l in open(path):
        l = l.strip()
        if l.startswith('# --- process'):
            if segs[-1]:
                segs.append([])
            continue
        if l and not l.startswith('#'):
            segs[-1].append(l)
    d = os.path.join(ctx.root, 'replay')
    r = C.compare_segments(segs, os.path.join(d, 'w'))
    v = api_oracle(segs, os.path.join(d, 'or'))
    print('correspondence:', 'agrees' if r['ok'] else 'breaks at op %s `%s`: impl=%s model=%s' % (r.get('index'), r.get('op'), r.get('impl'), r.get('model')))
    print('direct oracle :', v or 'no failing input')
    return 1 if (v or not r['ok']) else 0


def _tmp_ops(d, lines):
    os.makedirs(d, exist_ok=True)
    f = os.path.join(d, 'case.ops')
    C.write_ops(f, lines)
    return f



# ------------------------------------------------------------------ cascading re-link cases (C01, C08)
def cascade_case(ctx, scen, i):
    """one bucket; a chain of keys that each fill their key slot exactly; then both files are pushed past the 16 KiB
    (thorough: also 2 MiB) offset-width boundary, so that moving one record makes its predecessor's link grow and move
    in turn (two and more levels of re-linking), by overwrites with longer values and by deletes"""
    g = G.G(ctx.seed, scen + 'casc', i)
    r = g.rng
    first = [11, 19, 27, 43, 59]       # 1(size)+1(len)+klen+2(voff)+1(next=0)   = class
    later = [10, 18, 26, 42, 58]       # ... +2(next)                            = class
    if i % 4 == 3:
        # cascade started by a DELETE: chain Q -> P -> K -> X (X oldest).  X, P, Q fill their slots exactly, K has one byte of
        # slack.  X moves past 16 KiB (K absorbs the wider link); deleting K makes P link to X: P's link grows, P moves, Q follows.
        X, K, P, Q = b'X' * r.choice(first), b'K' * (r.choice(later) - 1), b'P' * r.choice(later), b'Q' * r.choice(later)
        keys = [X, K, P, Q]
        lines = ['db d0 db', 'map m0 d0 bytes m B1'] + ['put m0 %s z%dx%d' % (k.hex(), 3, j) for j, k in enumerate(keys)]
        lines += ['put m0 z17000x7 z17000x9', 'put m0 %s z600x1' % X.hex()] + ['get m0 %s' % k.hex() for k in keys]
        lines += ['del m0 %s' % K.hex()] + ['get m0 %s' % k.hex() for k in keys] + ['len m0', 'iter m0 iter']
        lines += ['del m0 %s' % P.hex(), 'put m0 %s z9x9' % K.hex()] + ['get m0 %s' % k.hex() for k in keys]
        lines += ['iter m0 keys', 'stats m0', 'len m0', 'closeall', 'snap db']
        pair(ctx, 'cascade', i, lines, files_oracle=True, op_timeout=60)
        return
    if i % 8 == 6:
        # a chain that does NOT descend in file offset, and a two-level cascade through it: T, E, K, P chained (K and P fill their
        # slots exactly), one entry with a 17000-byte key and value pushes both files past 16 KiB, E is deleted and a new key X re-uses
        # its LOW slot as the new chain head; then K's value moves (its offset field widens: K moves) and P's link to K widens (P
        # moves too): P's predecessor has to be found by walking X (low offset) and the big entry (high offset)
        kt, base = ('string', 0xC1) if i % 16 == 6 else ('bytes', 65)
        cls = r.choice([(10, 11), (18, 19), (26, 27)])
        T, E, K, P = [bytes([base + j]) * (cls[0] if j else cls[0]) for j in range(4)]
        X = bytes([base + 9]) * (cls[0] - 1)
        keys = [T, K, P, X]
        lines = ['db d0 db', 'map m0 d0 %s m B1' % kt] + ['put m0 %s z3x%d' % (k.hex(), j) for j, k in enumerate([T, E, K, P])]
        lines += ['put m0 z17000x7 z17000x9', 'del m0 %s' % E.hex(), 'put m0 %s 05' % X.hex()] + ['get m0 %s' % k.hex() for k in keys]
        lines += ['put m0 %s z%dx4' % (K.hex(), r.choice([100, 300]))] + ['get m0 %s' % k.hex() for k in keys] + ['get m0 z17000x7', 'len m0', 'iter m0 iter']
        lines += ['del m0 %s' % P.hex()] + ['get m0 %s' % k.hex() for k in keys] + ['len m0', 'stats m0', 'closeall', 'snap db']
        pair(ctx, 'cascade', i, lines, files_oracle=True, op_timeout=60)
        return
    if i % 4 == 1:
        # a moved key record lands BELOW its old place: key slots of the next size class are freed at low offsets first (early keys,
        # deleted later), so that a record that outgrows its slot is re-written into one of them - by an overwrite (put path) and by
        # a delete that re-links its predecessor (delete path); the chain must be re-linked to the LOWER offset as well
        kt, base = ('string', 0xC1) if i % 8 == 1 else ('bytes', 65)
        cls = r.choice([(10, 16, 18), (18, 24, 26), (26, 32, 42)])           # (exact-fit key length in a chain, its class, a key length of the next class)
        early = [bytes([base + 20 + j]) * cls[2] for j in range(3)]
        chain = [bytes([base + j]) * (cls[0] + 1 if j == 0 else cls[0]) for j in range(r.randrange(3, 6))]
        lines = ['db d0 db', 'map m0 d0 %s m B1' % kt] + ['put m0 %s 01' % k.hex() for k in early] + ['put m0 %s z3x%d' % (k.hex(), j) for j, k in enumerate(chain)]
        lines += ['put m0 z17000x7 z17000x9'] + ['del m0 %s' % k.hex() for k in early]
        order = list(range(len(chain)))
        r.shuffle(order)
        for j in order[:3]:
            lines += ['put m0 %s z%dx%d' % (chain[j].hex(), r.choice([100, 300]), j)] + ['get m0 %s' % k.hex() for k in chain] + ['len m0']
        lines += ['del m0 %s' % chain[order[-1]].hex()] + ['get m0 %s' % k.hex() for k in chain] + ['len m0', 'iter m0 iter', 'stats m0', 'closeall', 'snap db']
        pair(ctx, 'cascade', i, lines, files_oracle=True, op_timeout=60)
        return
    nk = r.randrange(2, 6)
    # every other case on a STRING-keyed map whose keys are not valid UTF-8 (a key record that moves is read into the key type and
    # written back: the bytes must survive that round trip whatever they are)
    kt, base = ('string', 0xC1) if i % 2 else ('bytes', 65)
    keys = [bytes([base + j]) * (r.choice(first) if j == 0 else r.choice(later)) for j in range(nk)]
    lines = ['db d0 db', 'map m0 d0 %s m B1' % kt]
    for j, k in enumerate(keys):
        lines.append('put m0 %s z%dx%d' % (k.hex(), r.choice([1, 5, 13]), j))
    # fillers: past 16 KiB (2-byte offset fields), past 128 KiB (an offset stored as offset/8 takes 3 bytes from there on), thorough: 2 MiB
    big = 140000 if i % 3 == 2 else 17000 if (ctx.quick or i % 3) else 2100000
    if r.random() < 0.5:
        lines.append('put m0 z%dx7 z%dx9' % (big, big))
    else:
        lines += ['put m0 z%dx7 01' % big, 'put m0 %s z%dx9' % (b'fill'.hex(), big)]
    order = list(range(nk))
    r.shuffle(order)
    for j in order:
        c = r.random()
        if c < 0.7:
            lines.append('put m0 %s z%dx%d' % (keys[j].hex(), r.choice([100, 300, 600]), j))
        else:
            lines.append('del m0 %s' % keys[j].hex())
        for k in keys:
            lines.append('get m0 %s' % k.hex())
        lines.append('len m0')
    for j, k in enumerate(keys):
        lines.append('put m0 %s z%dx%d' % (k.hex(), r.choice([2, 700]), j + 3))
    lines += ['get m0 %s' % k.hex() for k in keys] + ['iter m0 iter', 'stats m0', 'len m0', 'closeall', 'snap db']
    pair(ctx, 'cascade', i, lines, files_oracle=True, op_timeout=60)


# ------------------------------------------------------------------ values beyond 2 MiB (4-byte length and offset fields)
def huge_case(ctx, scen, i, reopen=True):
    """one value of 2 MiB + 4 KiB (its length needs a 4-byte varint), then further entries whose value offsets lie beyond
    2 MiB (4-byte offset fields inside key records, also in a chain), overwrites, a delete; optionally closed and re-opened
    in a new process and read back completely"""
    g = G.G(ctx.seed, scen + 'huge', i)
    r = g.rng
    n = r.choice([1, 2, 8])
    big = 2097152 + 4096 + r.choice([0, 1, 7])
    ks = [('k%02d' % j).encode() for j in range(6)]
    a = ['db d0 db', 'map m0 d0 bytes m B%d' % n, 'put m0 %s z3x1' % ks[0].hex(), 'put m0 %s z%dx%d' % (b'blob'.hex(), big, r.randrange(250))]
    for j, k in enumerate(ks[1:]):
        a.append('put m0 %s z%dx%d' % (k.hex(), r.choice([0, 5, 200, 1100]), j))
    a += ['get m0 %s' % b'blob'.hex(), 'put m0 %s z700x3' % ks[0].hex(), 'del m0 %s' % ks[2].hex(), 'put m0 %s z%dx4' % (b'blob'.hex(), big + 9)]
    a += ['get m0 %s' % k.hex() for k in ks] + ['get m0 %s' % b'blob'.hex(), 'len m0', 'iter m0 iter', 'closeall', 'snap db']
    segs = [a]
    if reopen:
        segs.append(['db d0 db', 'map m0 d0 bytes m default'] + ['get m0 %s' % k.hex() for k in ks] +
                    ['get m0 %s' % b'blob'.hex(), 'len m0', 'iter m0 values', 'put m0 %s 01' % b'blob'.hex(), 'stats m0', 'closeall', 'snap db'])
    pair(ctx, 'huge', i, segs, op_timeout=120)


# ------------------------------------------------------------------ L_io: byte-level I/O traces (Io.v) against the crate
def io_traces(ctx, n_hist, n_big, n_casc, n_sparse, n_reopen=0):
    """every seek/read/write of every call, real crate (fine io-trace hook) vs the byte-level model Io.v, event by event"""
    import scen_io as SI
    rule0 = ctx.rule
    SI.scen_io(ctx, n_hist, n_big, n_casc, n_sparse, n_reopen)
    ctx.rule = rule0 + ' || ' + ctx.rule

# ------------------------------------------------------------------ C01
def scen_C01(ctx):
    ctx.rule = ('seeded random histories (put/get/delete/includes_key/len/is_empty) over small key universes, all five key types, '
                'tables of 1..4096 buckets, value lengths biased to slot-class edges and to the 4 KiB / 16 KiB / 128 KiB boundaries; '
                'cascade = chains of slot-exact keys with both files pushed past an offset-width boundary; exhaustive_lenL = every call '
                'sequence of length L (quick 3, thorough 4) over a 12-letter alphabet on a one-bucket table; '
                'a case is non-trivial when it has >= 4 ops; distinct = distinct op files (sha1)')
    n_hist = ctx.scale(160, 1500)

    def one(i):
        g = G.G(ctx.seed, 'C01', i)
        kt = G.KTS[i % 5]
        nops = g.rng.choice([60, 150, 300]) if ctx.quick else g.rng.choice([200, 600, 2000])
        big = 0.03 if i % 4 == 0 else 0.0
        lines = ['db d0 db', 'map m0 d0 %s m %s' % (kt, g.params())]
        lines += g.hist(kt, nops, universe=g.rng.choice([3, 8, 20, 60]), big=big)
        lines.append('closeall')
        pair(ctx, 'hist', i, lines, stats=g.stats, release=((not ctx.quick and i % 5 == 0) or i % 16 == 3))
    parallel(one, range(n_hist))
    parallel(lambda i: cascade_case(ctx, 'C01', i), range(ctx.scale(12, 60)))
    parallel(lambda i: huge_case(ctx, 'C01', i, reopen=False), range(ctx.scale(1, 4)), workers=4)
    # bounded-exhaustive enumeration: EVERY call sequence of length L over a small alphabet (2 colliding keys, one of them
    # filling its key slot exactly; value lengths 0 / 14 (fills a 16-byte slot) / 15 (next class) / 1100 (large slot); put, delete,
    # get) on a one-bucket table, each sequence on its own map, followed by reads of both keys, len and a traversal
    import itertools
    ka, kb = b'a', b'B' * 11
    alpha = ['put %%s %s %s' % (k.hex(), v) for k in (ka, kb) for v in ('-', 'z14x3', 'z15x5', 'z1100x7')] + \
            ['del %%s %s' % k.hex() for k in (ka, kb)] + ['get %%s %s' % k.hex() for k in (ka, kb)]
    L = ctx.scale(3, 4)
    seqs = list(itertools.product(range(len(alpha)), repeat=L))
    per = 150
    batches = [seqs[j:j + per] for j in range(0, len(seqs), per)]

    def exh(a):
        bi, batch = a
        lines = ['db d0 db']
        for si, sq in enumerate(batch):
            m = 'm%d' % si
            lines.append('map %s d0 bytes s%d B1' % (m, si))
            lines += [alpha[x] % m for x in sq]
            lines += ['get %s %s' % (m, ka.hex()), 'get %s %s' % (m, kb.hex()), 'len %s' % m, 'iter %s iter' % m]
        lines += ['closeall', 'snap db']
        pair(ctx, 'exhaustive_len%d' % L, bi, lines, op_timeout=60)
    parallel(exh, list(enumerate(batches)))
    io_traces(ctx, ctx.scale(12, 120), ctx.scale(1, 6), ctx.scale(3, 20), ctx.scale(3, 20))
    if not ctx.quick:
        # long histories (1e5 calls), API level against the ideal map only (values small)
        def long(i):
            g = G.G(ctx.seed, 'C01long', i)
            kt = G.KTS[i % 5]
            lines = ['db d0 db', 'map m0 d0 %s m %s' % (kt, g.params(n=64))]
            lines += g.hist(kt, 100000, universe=200, big=0.0, maxlen=300)
            lines.append('closeall')
            pair(ctx, 'long', i, lines, stats=g.stats, op_timeout=60)
        parallel(long, range(4), workers=4)


SCENARIOS['C01'] = scen_C01


# ------------------------------------------------------------------ generic line-diff of two tools
def tool_diff(ctx, scen, impl_cmd, model_cmd, normalize=None, oracle_lines=None, sample=None):
    """runs a harness command and the corresponding driver command, compares line by line.
    returns (ok, first_difference_text, n_lines). BAD lines printed by the harness are the direct oracle."""
    ri = C.sh(impl_cmd, timeout=3000)
    rm = C.sh(model_cmd, timeout=3000)
    il = [l for l in ri.stdout.split('\n') if l]
    ml = [l for l in rm.stdout.split('\n') if l]
    bad = [l for l in il if l.startswith('BAD')]
    il2 = [l for l in il if not l.startswith(('BAD', 'end '))]
    if normalize:
        il2 = [normalize(l) for l in il2]
    ctx.evaluations += len(il2)
    ctx.scen_counts[scen] = ctx.scen_counts.get(scen, 0) + len(il2)
    for l in il2[:60000]:
        ctx.distinct.add(l)
    if sample and len(ctx.samples) < 6:
        ctx.samples.append({'scenario': scen, 'lines': il2[:3] + il2[-2:]})
    diff = None
    if ri.returncode != 0:
        diff = 'harness command failed: ' + (ri.stderr or ri.stdout)[-400:]
    elif rm.returncode != 0:
        diff = 'model command failed: ' + (rm.stderr or rm.stdout)[-400:]
    else:
        for i in range(max(len(il2), len(ml))):
            a = il2[i] if i < len(il2) else 'MISSING'
            b = ml[i] if i < len(ml) else 'MISSING'
            if a != b:
                diff = 'line %d: implementation `%s` / model `%s`' % (i, a[:200], b[:200])
                break
    end = [l for l in il if l.startswith('end ')]
    return diff, bad, end


# ------------------------------------------------------------------ C09
def scen_C09(ctx):
    ctx.rule = ('`long_keys`: keys of 3000 .. 200000 bytes, longer than a chunk of the key buffer (Auto: 4 KiB, otherwise 128 KiB), with short neighbours, same session / after an overwrite / new session; ' +
                'L_size: the crate\'s own slot-size decision (layout-probe hook) vs the model for value lengths 0..N (quick N=2^18, '
                'thorough N=2^24, exhaustive) and key lengths 0..K (quick 1500, thorough 65536) x 35^2 offset-width representatives, '
                'each also checked by the direct oracle "real encoded length <= slot"; L_img: sentinel sweep storing each length between '
                'two sentinel entries and overwriting it one byte shorter/longer; distinct = distinct lines / op files')
    nmax = ctx.scale(1 << 18, 1 << 24)
    d = os.path.join(ctx.root, 'size')
    os.makedirs(d, exist_ok=True)
    diff, bad, end = tool_diff(ctx, 'sizing_val', [C.HARNESS, 'sizing-val', str(nmax)], [C.DRIVER, 'sizing-val', str(nmax)], sample=True)
    if bad:
        ln = int(re.search(r'len=(\d+)', bad[0]).group(1))
        ctx.violation('value_len_%d' % ln, 'value length %d: %s\n(the record really written is longer than the slot the crate reserves)' % (ln, bad[0]),
                      ['db d0 db', 'map m0 d0 bytes m B8', 'put m0 61 z10x1', 'put m0 62 z%dx2' % ln, 'put m0 63 z10x3', 'get m0 61', 'get m0 62', 'get m0 63', 'closeall'])
    elif diff:
        ctx.disagreements += 1
        ctx.violation('sizing_val', 'L_size correspondence (value slot sizes, crate vs model Sizing.val_need/roundup) breaks: %s\n'
                      'direct oracle (real encoded length <= slot for every length 0..%d): no failing input' % (diff, nmax), None, found=False)
    ctx.distribution['sizing_val_end'] = {'line': end[0] if end else ''}
    # keys
    reps = os.path.join(d, 'reps.txt')
    open(reps, 'w').write(C.sh([C.HARNESS, 'offset-reps'], check=True).stdout)
    kmax = ctx.scale(1500, 65536)
    diff, bad, end = tool_diff(ctx, 'sizing_key', [C.HARNESS, 'sizing-key-sweep', str(kmax)], [C.DRIVER, 'sizing-key-sweep', str(kmax), reps], sample=True)
    if bad:
        m = re.search(r'klen=(\d+) voff=(\d+) noff=(\d+)', bad[0])
        ctx.violation('key_len_%s' % m.group(1), 'key sizing: %s\n(the key record really written is longer than the slot the crate reserves)' % bad[0], None)
    elif diff:
        ctx.disagreements += 1
        ctx.violation('sizing_key', 'L_size correspondence (key slot sizes) breaks: %s\ndirect oracle: no failing input' % diff, None, found=False)
    ctx.distribution['sizing_key_end'] = {'line': end[0] if end else ''}
    # sentinel sweep, end to end
    edges = sorted(set(x + dlt for x in G.VAL_EDGES for dlt in (-1, 0, 1) if x + dlt >= 0))
    lens = edges if ctx.quick else sorted(set(list(range(0, 4201)) + [x + dlt for x in (131072 - 8, 131072, 1 << 20) for dlt in (-2, -1, 0, 1, 2)]))
    groups = [lens[i:i + 12] for i in range(0, len(lens), 12)]

    def one(a):
        i, grp = a
        g = G.G(ctx.seed, 'C09', i)
        lines = ['db d0 db', 'map m0 d0 bytes m B8']
        for L in grp:
            k = ('k%05d' % L).encode().hex()
            lines += ['put m0 %s z24x1' % ('a%05d' % L).encode().hex(), 'put m0 %s z%dx%d' % (k, L, L % 250), 'put m0 %s z24x2' % ('b%05d' % L).encode().hex()]
            for L2 in (L + 1, max(L - 1, 0), L):
                lines += ['put m0 %s z%dx%d' % (k, L2, (L2 + 7) % 250), 'get m0 %s' % k,
                          'get m0 %s' % ('a%05d' % L).encode().hex(), 'get m0 %s' % ('b%05d' % L).encode().hex()]
        lines += ['flush m0', 'snap db', 'closeall', 'snap db']
        pair(ctx, 'sentinel', i, lines, files_oracle=True)
    parallel(one, list(enumerate(groups)))
    # key lengths end to end
    klens = [x for x in G.KEY_EDGES] + ([] if ctx.quick else list(range(0, 1200, 7)) + [4090, 4096, 4097, 65535, 65536])

    def onek(a):
        i, grp = a
        lines = ['db d0 db', 'map m0 d0 bytes m B2']
        for L in grp:
            k = 'z%dx%d' % (L, L % 200) if L > 0 else '-'
            lines += ['put m0 %s 01' % k, 'get m0 %s' % k, 'put m0 %s z300x3' % k, 'get m0 %s' % k]
        lines += ['iter m0 keys', 'closeall', 'snap db']
        pair(ctx, 'keylen', i, lines, files_oracle=True, release=(not ctx.quick and i % 5 == 0))
    parallel(onek, list(enumerate([klens[i:i + 10] for i in range(0, len(klens), 10)])))

    # LONG keys: longer than a buffer chunk of the key file (4 KiB under Auto, 128 KiB otherwise), so that the key bytes of one
    # record are written across one or several chunk boundaries; with short neighbours before and after, read back in the same
    # session, after an overwrite that moves the value, and in a new session
    def longk(i):
        kb = ['KA', 'KP1000', 'KS0', 'KA'][i % 4]
        Ls = [[4090, 4096, 4097, 5000], [8191, 12289, 70000], [131064, 131072, 131080, 200000], [3000, 4095, 140000]][i % 4]
        lines = ['db d0 db', 'map m0 d0 bytes m B2,VA,%s,HA' % kb, 'put m0 6161 01']
        for L in Ls:
            k = 'z%dx%d' % (L, L % 200)
            lines += ['put m0 %s 01' % k, 'put m0 %s 02' % ('n%06d' % L).encode().hex(), 'get m0 %s' % k, 'put m0 %s z300x3' % k, 'get m0 %s' % k, 'get m0 6161',
                      'get m0 %s' % ('n%06d' % L).encode().hex()]
        lines += ['len m0', 'closeall', 'snap db', 'db d0 db', 'map m0 d0 bytes m default'] + ['get m0 z%dx%d' % (L, L % 200) for L in Ls] + ['len m0', 'closeall']
        pair(ctx, 'long_keys', i, lines, files_oracle=True, op_timeout=120)
    parallel(longk, range(ctx.scale(4, 12)))
    # "writing one entry never alters the bytes of another" also while records MOVE: chains of slot-exact key records with
    # occupied neighbours, relocated when an offset field grows past 16 KiB; a 2 MiB value (4-byte length field)
    parallel(lambda i: cascade_case(ctx, 'C09', i), range(ctx.scale(12, 60)))
    parallel(lambda i: huge_case(ctx, 'C09', i, reopen=False), range(ctx.scale(1, 3)), workers=3)
    if True:
        # values of 4 .. 16 MiB + 1: too large for the list-based model; implementation against the ideal map only (L_api, values
        # compared by length + checksum), in two processes.  16 MiB - 136 / - 135 bytes: the slot reaches 16 MiB and its size
        # field takes 4 bytes (seeded change C09j: a 4-byte size field was skipped one byte too far by get and delete)
        segs = [['db d0 db', 'map m0 d0 bytes m B8', 'put m0 61 z4194304x1', 'put m0 62 z16777216x2', 'put m0 63 z16777217x3', 'put m0 64 z5x4',
                 'put m0 65 z16777080x6', 'put m0 66 z16777081x7', 'get m0 61', 'get m0 62', 'get m0 63', 'get m0 64', 'get m0 65', 'get m0 66',
                 'put m0 62 z16777215x5', 'get m0 62', 'put m0 65 z16777081x8', 'get m0 65', 'get m0 64', 'del m0 61', 'del m0 66', 'len m0', 'closeall'],
                ['db d0 db', 'map m0 d0 bytes m default', 'get m0 62', 'get m0 63', 'get m0 64', 'get m0 65', 'get m0 61', 'get m0 66', 'len m0', 'iter m0 keys', 'del m0 63', 'get m0 64', 'closeall']]
        d = os.path.join(ctx.root, 'mib16')
        il, ist = impl_only(segs, d, op_timeout=300)
        ops = [l for seg in segs for l in seg]
        bad = O.Ideal().check(ops, il)
        ctx.evaluations += 1
        ctx.scen_counts['values_up_to_16MiB_impl_vs_ideal_map'] = 1
        if bad or ist != 'ok':
            i, op, got, exp = bad[0] if bad else (len(il), ops[min(len(il), len(ops) - 1)], ist, 'ok')
            ctx.violation('mib16', 'values of 4..16 MiB: op %d `%s` returned `%s`, the ideal map requires `%s`' % (i, op[:60], got[:100], exp[:100]), ops)
        shutil.rmtree(d, ignore_errors=True)


SCENARIOS['C09'] = scen_C09


# ------------------------------------------------------------------ C10
def scen_C10(ctx):
    ctx.rule = ('L_conv: integer -> key -> integer conversions (by value and by reference), cmp_u8 and placement hashes, crate vs model, on every '
                'power of two +-1, extremes and seeded random 64-bit values; cmp_u8 on every single-bit difference (x vs x with bit b flipped, b = 0..63) for the three integer types; plus the direct oracle (Python integers); '
                'L_api: typed-map histories addressed by integers; integer keys one byte apart in a one-bucket table; byte-string keys that are prefixes of each other in one chain; distinct = distinct input lines / op files')
    import random
    rng = random.Random('%s/C10' % ctx.seed)
    d = os.path.join(ctx.root, 'conv')
    os.makedirs(d, exist_ok=True)
    ints = list(G.INT_EDGES) + [rng.randrange(2 ** 64) for _ in range(ctx.scale(3000, 1000000))]
    lines = []
    for x in ints:
        lines.append('u %d' % x)
        s = x - 2 ** 63
        lines.append('i %d' % s)
        if x < 2 ** 63:
            lines.append('i %d' % x)
    # cmp_u8: prefixes, embedded NULs, non-UTF-8; vu64 on canonical encodings
    samples = [b'', b'a', b'ab', b'a\x00', b'\x00', b'\x00\x00', b'\xff\xfe', b'abc', b'abd', b'\xc3\x28', b'ab\x00c']
    for t in ('string', 'bytes', 'i64', 'u64'):
        for a in samples:
            for b in samples:
                lines.append('c %s %s %s' % (t, G.hx(a), G.hx(b)))
    vs = [G.vu64(x) for x in (0, 1, 127, 128, 300, 16383, 16384, 2 ** 21, 2 ** 56 - 1, 2 ** 56, 2 ** 64 - 1)]
    for a in vs:
        for b in vs:
            lines.append('c vu64 %s %s' % (G.hx(a), G.hx(b)))
    # every single-bit difference: x against x with bit b flipped, b = 0..63, on edge and random x, all three integer types
    # (a comparison that looks at only part of an encoding - a word, a prefix - calls two such keys equal)
    flipx = [0, 1, 2 ** 56, 2 ** 56 - 1, 2 ** 63, 2 ** 64 - 1, 0x0102030405060708, 0xfffefdfcfbfaf9f8] + [rng.randrange(2 ** 64) for _ in range(ctx.scale(8, 64))]
    for x in flipx:
        for b in range(64):
            y = x ^ (1 << b)
            for t, enc in (('u64', lambda v: v.to_bytes(8, 'little')), ('i64', lambda v: v.to_bytes(8, 'little')), ('vu64', G.vu64)):
                lines.append('c %s %s %s' % (t, G.hx(enc(x)), G.hx(enc(y))))
                lines.append('c %s %s %s' % (t, G.hx(enc(y)), G.hx(enc(x))))
    for k in samples + [bytes(rng.randrange(256) for _ in range(rng.randrange(0, 70))) for _ in range(300)]:
        lines.append('h %s' % G.hx(k))
    f = os.path.join(d, 'conv.txt')
    open(f, 'w').write('\n'.join(lines) + '\n')

    def norm(l):
        if l.startswith('c '):
            t = l.split()
            return ' '.join(t[:4] + [{'Equal': 'eq', 'Less': 'ne', 'Greater': 'ne', 'panic': 'panic'}[t[4]]])
        return l
    ri = C.sh([C.HARNESS, 'conv', f], timeout=3000)
    il = [l for l in ri.stdout.split('\n') if l]
    # direct oracle on the implementation's own lines
    viol = None
    for l in il:
        t = l.split()
        kv = dict(x.split('=', 1) for x in t[2:] if '=' in x)
        if t[0] == 'u':
            x = int(t[1])
            if not (kv['u64'] == kv['u64r'] and kv['vu64'] == kv['vu64r'] and kv['str'] == kv['strr'] and kv['bytes'] == kv['bytesr']):
                viol = 'by-value and by-reference conversions of %d differ: %s' % (x, l); break
            if int(kv['back']) != x or int(kv['backv']) != x or kv['vback'] != str(x) or kv['vbackv'] != str(x):
                viol = 'integer %d does not convert back to itself: %s' % (x, l); break
            if bytes.fromhex(kv['u64']) != x.to_bytes(8, 'little') or bytes.fromhex(kv['vu64']) != G.vu64(x):
                viol = 'key bytes of %d are not the documented encoding: %s' % (x, l); break
        elif t[0] == 'i':
            x = int(t[1])
            if kv['i64'] != kv['i64r'] or int(kv['back']) != x or int(kv['backv']) != x:
                viol = 'i64 %d does not convert back to itself: %s' % (x, l); break
        elif t[0] == 'c' and len(t) > 4 and t[4] != 'panic' and (t[1] in ('vu64', 'string', 'bytes') or (t[1] in ('u64', 'i64') and len(t[2]) == 16 and len(t[3]) == 16)):
            # distinct integers are distinct keys: the stored-key comparison says Equal exactly for identical encodings
            if (t[4] == 'Equal') != (t[2] == t[3]):
                viol = 'cmp_u8 of the %s keys %s and %s is %s: two different keys are treated as one key (or one key as two)' % (t[1], t[2], t[3], t[4]); break
    if viol:
        ctx.violation('conv', viol, None)
    diff, bad, end = tool_diff(ctx, 'conv', [C.HARNESS, 'conv', f], [C.DRIVER, 'conv', f], normalize=norm, sample=True)
    if diff and not viol:
        ctx.disagreements += 1
        ctx.violation('conv_corr', 'L_conv correspondence (KeyTypes.of_u64/of_i64/of_vu64/cmp_eq, Hash.hash_value vs the crate) breaks: %s\n'
                      'direct oracle (round trips against Python integers): no failing input' % diff, None, found=False)
    # typed maps addressed by integers
    def one(i):
        g = G.G(ctx.seed, 'C10api', i)
        kt = ['u64', 'i64', 'vu64', 'string', 'bytes'][i % 5]
        r = g.rng
        lines = ['db d0 db', 'map m0 d0 %s m %s' % (kt, g.params(bufs=False))]
        universe = [r.choice(G.INT_EDGES) if r.random() < 0.8 else r.randrange(2 ** 64) for _ in range(12)]
        for _ in range(ctx.scale(120, 600)):
            x = r.choice(universe)
            if kt == 'i64':
                x = x - 2 ** 63
            c = r.random()
            if c < 0.45: lines.append('put@ m0 %d %s' % (x, g.value_token(0.0, 200)))
            elif c < 0.65: lines.append('get@ m0 %d' % x)
            elif c < 0.8: lines.append('has@ m0 %d' % x)
            elif c < 0.95: lines.append('del@ m0 %d' % x)
            else: lines.append('iter m0 keys')
            g.count(lines[-1].split()[0])
        lines += ['iter m0 iter', 'len m0', 'closeall']
        pair(ctx, 'intkeys', i, lines, stats=g.stats)
    parallel(one, range(ctx.scale(40, 300)))

    # integer keys at LARGE offsets: a key file past 16 KiB (chain links of 3 bytes) and a value beyond 2 MiB (4-byte value
    # offset), so that an 8-byte integer key record outgrows its 16-byte slot and moves next to other integer keys;
    # every integer put must still be found, by value and through iteration
    def big(i):
        kt = ['u64', 'i64', 'vu64'][i % 3]
        n = 8
        xs = list(range(1, 1101))
        ext = [2 ** 64 - 2, 2 ** 64 - 1] if kt != 'i64' else [2 ** 63 - 2, 2 ** 63 - 1]
        lines = ['db d0 db', 'map m0 d0 %s m B%d' % (kt, n)] + ['put@ m0 %d %02x' % (x, x % 251) for x in xs]
        lines += ['put@ m0 %d 01' % ext[0], 'put@ m0 %d 02' % ext[1], 'put@ m0 7 z2097200x3', 'put@ m0 %d z100x5' % ext[0]]
        lines += ['get@ m0 %d' % x for x in ext + [1, 2, 3, 1099, 1100]] + ['has@ m0 %d' % x for x in (ext[1], 1, 1100)]
        lines += ['len m0', 'iter m0 keys', 'closeall']
        pair(ctx, 'intkeys_large_offsets', i, lines, op_timeout=120)
    parallel(big, range(ctx.scale(1, 3)), workers=3)

    # integer keys that differ in ONE byte only, all in one bucket chain (a one-bucket table): k << 8j for every byte position j,
    # and 2^n - 1; each must stay a key of its own (len, get, delete of one leaves the others)
    def onebyte(i):
        kt = ['u64', 'i64', 'vu64'][i % 3]
        r = G.G(ctx.seed, 'C10onebyte', i).rng
        j = [7, 0, 3, 6, 1, 2, 4, 5][(i // 3) % 8]
        ks = [(k << (8 * j)) for k in r.sample(range(1, 256), 24)] + [2 ** n - 1 for n in range(57, 65)]
        if kt == 'i64':
            ks = [k - 2 ** 63 for k in ks]
        lines = ['db d0 db', 'map m0 d0 %s m B1' % kt]
        for n, k in enumerate(ks):
            lines += ['put@ m0 %d %02x' % (k, n), 'len m0']
        lines += ['get@ m0 %d' % k for k in ks] + ['del@ m0 %d' % ks[3], 'len m0'] + ['has@ m0 %d' % k for k in ks] + ['iter m0 iter', 'closeall']
        pair(ctx, 'intkeys_one_byte_apart', i, lines)
    parallel(onebyte, range(ctx.scale(6, 24)))

    # byte-string keys that are PREFIXES of each other (the empty key included, embedded NULs, bytes that are not UTF-8), all in one
    # bucket chain, through both byte-string key types: each is a key of its own - absent before its put, len grows by one, get
    # returns its own value, a delete removes only it
    def prefixes(i):
        kt = ['bytes', 'string'][i % 2]
        r = G.G(ctx.seed, 'C10prefix', i).rng
        base = bytes(r.choice([107, 0, 255, 0xc3, 101, 121, 0x80, 49]) for _ in range(r.choice([6, 12, 24])))
        ks = [base[:j] for j in range(len(base) + 1)]
        r.shuffle(ks)
        lines = ['db d0 db', 'map m0 d0 %s m B%d' % (kt, r.choice([1, 1, 2]))]
        for n, k in enumerate(ks):
            lines += ['has m0 %s' % G.hx(k), 'put m0 %s %02x' % (G.hx(k), n), 'len m0']
        lines += ['get m0 %s' % G.hx(k) for k in ks] + ['del m0 %s' % G.hx(ks[2]), 'len m0'] + ['has m0 %s' % G.hx(k) for k in ks] + ['iter m0 iter', 'closeall']
        pair(ctx, 'prefix_keys', i, lines)
    parallel(prefixes, range(ctx.scale(6, 24)))


SCENARIOS['C10'] = scen_C10


# ------------------------------------------------------------------ helpers for the remaining scenarios
def mine_keys(n, buckets, rng, lens=(3, 5, 8)):
    """byte keys for the given bucket indices of an n-bucket table"""
    want = {b: None for b in buckets if 0 <= b < n}
    i = 0
    while any(v is None for v in want.values()):
        k = bytes(rng.randrange(256) for _ in range(lens[i % len(lens)]))
        b = O.check_map.__globals__['hash_key'](k) % n
        if b in want and want[b] is None:
            want[b] = k
        i += 1
    return want


FLAVOURS = ['iter', 'iter_mut', 'keys', 'values', 'into_iter', 'ref_into_iter', 'mut_into_iter']


# ------------------------------------------------------------------ C04
def scen_C04(ctx):
    ctx.rule = ('L_api, exact item sequence and size-hint sequence of all seven iterator entry points: `sparse` = tables of every power of two '
                '1..65536 with few occupied buckets incl. 0, 7, 8, 63, 64, n-9, n-8, n-1 (inserted, partly deleted, emptied); `hist` = random '
                'histories with traversals interleaved; distinct = distinct op files')
    import random
    sizes = [1, 2, 4, 8, 16, 32, 64, 128, 256, 512, 1024, 4096, 16384, 65536] if ctx.quick else [2 ** k for k in range(0, 17)]

    def sparse(a):
        i, n = a
        rng = random.Random('%s/C04/%d' % (ctx.seed, i))
        bs = sorted(set(b for b in (0, 1, 7, 8, 9, 63, 64, 65, n - 65, n - 64, n - 9, n - 8, n - 7, n - 1, n // 2, rng.randrange(n)) if 0 <= b < n))
        ks = mine_keys(n, bs, rng)
        keys = [ks[b] for b in bs]
        rng.shuffle(keys)
        lines = ['db d0 db', 'map m0 d0 bytes m B%d' % n, 'iter m0 iter']
        for j, k in enumerate(keys):
            lines.append('put m0 %s %02x' % (k.hex(), j))
            if j % 3 == 0:
                lines.append('iter m0 %s' % FLAVOURS[j % 7])
        for fl in FLAVOURS:
            lines.append('iter m0 %s' % fl)
        # second key in some chains, then delete down to empty
        extra = mine_keys(n, bs[:3], rng, lens=(9, 11))
        for b, k in extra.items():
            lines.append('put m0 %s aa' % k.hex())
        lines.append('iter m0 iter')
        for j, k in enumerate(keys + list(extra.values())):
            lines.append('del m0 %s' % k.hex())
            if j % 2 == 0:
                lines.append('iter m0 %s' % FLAVOURS[(j + 3) % 7])
        lines += ['iter m0 iter', 'len m0', 'closeall']
        pair(ctx, 'sparse', i, lines, op_timeout=30)
    parallel(sparse, list(enumerate(sizes)))

    def hist(i):
        g = G.G(ctx.seed, 'C04', i)
        kt = G.KTS[i % 5]
        lines = ['db d0 db', 'map m0 d0 %s m %s' % (kt, g.params())]
        ks = g.key_universe(kt, g.rng.choice([2, 6, 15, 40]))
        for _ in range(ctx.scale(8, 25)):
            lines += g.hist(kt, g.rng.randrange(1, 30), keys=ks, big=0.01, reads=0.1)
            lines.append('iter m0 %s' % g.rng.choice(FLAVOURS))
            g.count('iter')
        for k in ks:
            lines.append('del m0 %s' % G.hx(k))
        lines += ['iter m0 iter', 'closeall']
        pair(ctx, 'hist', i, lines, stats=g.stats, release=((not ctx.quick and i % 5 == 0) or i % 8 == 1))
    parallel(hist, range(ctx.scale(80, 600)))
    # the scan at byte level: traversals of sparse tables with the fine io-trace on
    io_traces(ctx, ctx.scale(6, 60), 0, 0, ctx.scale(16, 120))


SCENARIOS['C04'] = scen_C04


# ------------------------------------------------------------------ C02
def scen_C02(ctx):
    ctx.rule = ('`reopen`: histories cut into 2..4 sessions; between sessions every handle is dropped and the directory is re-opened with '
                'other parameters (bucket count, buffer modes), alternately in the same process and in a freshly spawned one; after each reopen '
                'every key, len and a traversal are read (L_api) and the closed files are compared byte-exactly with the model (L_img); every third history holds several handles of the map in a session (second lookups with and without parameters, through a cloned FileDb), updated through all of them, before all are dropped; distinct = distinct op files')

    def one(i):
        g = G.G(ctx.seed, 'C02', i)
        kt = G.KTS[i % 5]
        ks = g.key_universe(kt, g.rng.choice([4, 10, 25]))
        nsess = g.rng.randrange(2, 5)
        segs = [[]]
        for sn in range(nsess):
            cur = segs[-1]
            cur += ['db d0 db', 'map m0 d0 %s m %s' % (kt, g.params())]
            if sn > 0:
                for k in ks:
                    cur.append('get m0 %s' % G.hx(k))
                cur += ['len m0', 'iter m0 %s' % g.rng.choice(FLAVOURS)]
            cur += g.hist(kt, g.rng.randrange(5, ctx.scale(60, 200)), keys=ks, big=0.02)
            if g.rng.random() < 0.3:
                cur.append('flush m0')
            if i % 3 == 2:
                # "every handle is dropped": several handles of the one map in this session - a second lookup by name (with
                # parameters, or the plain one), one through a cloned FileDb - updates through all of them, some dropped early
                if g.rng.random() < 0.6:
                    cur.append(g.rng.choice(['syncall m0', 'dbsyncall d0', 'flush m0']))
                cur += ['map m1 d0 %s m %s' % (kt, g.rng.choice([g.params(), 'default'])), 'dbclone d1 d0', 'map m2 d1 %s m %s' % (kt, g.params())]
                for mid in g.rng.sample(['m0', 'm1', 'm2', 'm1', 'm0'], 4):
                    cur += g.hist(kt, g.rng.randrange(3, 15), keys=ks, big=0.0, mid=mid)
                    if g.rng.random() < 0.3 and mid != 'm0':
                        cur += ['get m0 %s' % G.hx(g.rng.choice(ks)), 'len m0']
                if g.rng.random() < 0.5:
                    cur += ['drop m1', 'put m2 %s 6c617374' % G.hx(ks[0]), 'get m0 %s' % G.hx(ks[0])]
            cur += ['closeall', 'snap db']
            if sn < nsess - 1 and g.rng.random() < 0.5:
                segs.append([])         # next session in a new process
        pair(ctx, 'reopen', i, segs, stats=g.stats, files_oracle=True)
    parallel(one, range(ctx.scale(70, 500)))

    # `neighbours`: the directory a map is reopened from holds other maps of the SAME key type whose names are related to its own
    # (equal up to the last dot, one a prefix of the other, one carrying an extension of the file naming): each is written in its
    # own session, every handle dropped, and every later session reopens all of them and reads every key, len and a traversal of
    # each - what was there when its last handle was dropped, nothing of the neighbour's.  (seeded change C02j: the name was
    # reduced to its file stem before the files were opened - "v1.users" and "v1.orders" shared v1.key/.val/.htx after a reopen)
    def neighbours(i):
        g = G.G(ctx.seed, 'C02n', i)
        r = g.rng
        kt = G.KTS[i % 5]
        names = r.choice([['v1.users', 'v1.orders'], ['a.', 'a'], ['m', 'm.key', 'm.val'], ['m.a', 'm.b', 'm.a.b'], ['x.htx', 'x'], ['users.v1', 'users.v2', 'users']])
        ks = g.key_universe(kt, 6)
        segs = [[]]
        written = []
        for sn, nm in enumerate(names + [names[0]]):
            cur = segs[-1]
            cur.append('db d0 db')
            for j, w in enumerate(written):                           # reopen what earlier sessions left and read it completely
                cur.append('map r%d d0 %s %s %s' % (j, kt, w, g.params()))
                cur += ['get r%d %s' % (j, G.hx(k)) for k in ks] + ['len r%d' % j, 'iter r%d %s' % (j, r.choice(FLAVOURS))]
            cur.append('map m0 d0 %s %s %s' % (kt, nm, g.params()))
            cur += g.hist(kt, r.randrange(4, 25), keys=ks, big=0.0)
            cur += ['closeall', 'snap db']
            if nm not in written:
                written.append(nm)
            if r.random() < 0.5:
                segs.append([])
        pair(ctx, 'neighbours', i, segs, stats=g.stats, files_oracle=True)
    parallel(neighbours, range(ctx.scale(12, 80)))

    # `tiny`: the smallest maps - none, one or two entries, values of 0..16 bytes (one slot of the smallest size class in the value
    # file), also reached by deletes - closed and reopened several times, read-only sessions and sessions with one update in
    # between; every close is compared with the model image.  (seeded change C02k: a "torn tail repair" at open cut a value file
    # that holds exactly one 16-byte piece back to its header)
    def tiny(i):
        g = G.G(ctx.seed, 'C02t', i)
        r = g.rng
        kt = G.KTS[i % 5]
        ks = g.key_universe(kt, 3)
        vl = [0, 1, 5, 13, 14, 15, 16][i % 7]
        segs = [[]]
        cur = segs[-1]
        cur += ['db d0 db', 'map m0 d0 %s m %s' % (kt, g.params())]
        if i % 3 == 1:
            cur += ['put m0 %s z9x1' % G.hx(ks[1]), 'put m0 %s z%dx2' % (G.hx(ks[0]), vl), 'del m0 %s' % G.hx(ks[1])]
        elif i % 3 == 2:
            cur += ['put m0 %s z%dx2' % (G.hx(ks[0]), vl), 'del m0 %s' % G.hx(ks[0]), 'put m0 %s z%dx3' % (G.hx(ks[0]), vl)]
        else:
            cur += ['put m0 %s z%dx2' % (G.hx(ks[0]), vl)]
        cur += ['closeall', 'snap db']
        for sn in range(r.randrange(2, 5)):
            if r.random() < 0.5:
                segs.append([])
            cur = segs[-1]
            cur += ['db d0 db', 'map m0 d0 %s m %s' % (kt, g.params())] + ['get m0 %s' % G.hx(k) for k in ks] + ['len m0', 'iter m0 %s' % r.choice(FLAVOURS)]
            if sn % 2 == 1:
                cur += r.choice([['put m0 %s z%dx7' % (G.hx(ks[2]), r.choice([0, 3, 14, 40]))], ['put m0 %s z%dx8' % (G.hx(ks[0]), r.choice([2, 14, 15, 30]))],
                                 ['del m0 %s' % G.hx(ks[0])], ['del m0 %s' % G.hx(ks[0]), 'put m0 %s 01' % G.hx(ks[1])]])
                cur += ['get m0 %s' % G.hx(k) for k in ks] + ['len m0']
            cur += ['closeall', 'snap db']
        pair(ctx, 'tiny', i, segs, stats=g.stats, files_oracle=True)
    parallel(tiny, range(ctx.scale(21, 105)))
    parallel(lambda i: huge_case(ctx, 'C02', i), range(ctx.scale(2, 6)), workers=4)
    # re-opens at byte level: sessions re-opened with other parameters, every I/O event of the open and of the calls after it
    io_traces(ctx, 0, 0, 0, 0, ctx.scale(24, 200))


SCENARIOS['C02'] = scen_C02


# ------------------------------------------------------------------ C03
def scen_C03(ctx):
    ctx.rule = ('every flush/sync_data/sync_all call (on a map and on the database) in a random history is a crash point: right after the call '
                'the files on disk are checksummed while all handles are alive and compared with the model image (L_img), the directory is '
                'copied and the copy later opened and read completely (L_api); in `kill` cases the writer is SIGKILLed right after the call and a '
                'new process opens the directory; the io-trace hook shows each file being OS-synced after its last buffered write (L_trace); '
                'a created-only map is covered; `handles`: several handles of one map (clone, second lookup, through a cloned FileDb), the flush/sync made through another handle than the updates, also one that flushed before; distinct = distinct op files')
    SY = ['flush', 'syncall', 'syncdata']

    def trace_ok(line, kind):
        """each of val,key,htx: a sync event of the right kind after its last write"""
        ev = line.split()[1:]
        last_write = {}
        synced = {}
        for e in ev:
            seq, f, what = e.split(':')
            if what == 'write': last_write[f] = int(seq)
            if what == kind: synced[f] = int(seq)
        for f in ('val', 'key', 'htx'):
            if f not in synced or synced[f] < last_write.get(f, 0):
                return False
        return True

    def one(i):
        g = G.G(ctx.seed, 'C03', i)
        kt = G.KTS[i % 5]
        ks = g.key_universe(kt, g.rng.choice([4, 10, 25]))
        lines = ['db d0 db', 'map m0 d0 %s m %s' % (kt, g.params())]
        if i % 6 == 0:
            lines += ['%s m0' % g.rng.choice(SY), 'snap db', 'cpdir db c0']     # created only, never updated
        ncp = 0
        for _ in range(ctx.scale(5, 14)):
            lines += g.hist(kt, g.rng.randrange(1, 40), keys=ks, big=0.03)
            if g.rng.random() < 0.3:
                lines.append('fill m0')          # read_fill_buffer between the updates and the flush/sync: it must not disturb durability
                g.count('fill')
            lines += ['dirty m0', 'trace']
            op = g.rng.choice(SY + ['dbsyncall', 'dbsyncdata'])
            lines.append('%s %s' % (op, 'd0' if op.startswith('db') else 'm0'))
            g.count(op)
            lines += ['trace', 'dirty m0', 'snap db']
            if g.rng.random() < 0.5:
                ncp += 1
                lines.append('cpdir db c%d' % ncp)
        kill = (i % 3 == 0)
        if kill:
            seg2 = ['db d0 db', 'map m0 d0 %s m default' % kt] + ['get m0 %s' % G.hx(k) for k in ks] + ['len m0', 'iter m0 iter', 'closeall', 'snap db']
            segs = [lines + ['kill9'], seg2]
        else:
            lines += ['closeall']
            segs = [lines]
        # open the copies
        tail = []
        for c in range(0, ncp + 1):
            if c == 0 and i % 6 != 0:
                continue
            tail += ['db dc%d c%d' % (c, c), 'map mc%d dc%d %s m default' % (c, c, kt)] + ['get mc%d %s' % (c, G.hx(k)) for k in ks] + \
                    ['len mc%d' % c, 'iter mc%d keys' % c, 'closeall']
        segs[-1] += tail
        r = pair(ctx, 'kill' if kill else 'sync', i, segs, stats=g.stats)
        # L_trace on the implementation's lines: at every successful sync_all/sync_data each of the
        # three files must have been OS-synced after its last buffered write
        if r.get('ok') and r.get('impl_lines'):
            ops = [l for seg in segs for l in seg]
            il = r['impl_lines']
            last_write, last_sync = {}, {}
            for j, op in enumerate(ops):
                if j >= len(il):
                    break
                k = op.split()[0]
                if k in ('map', 'closeall', 'db') or il[j] in ('killed', 'skipped'):
                    if k == 'closeall':
                        last_write, last_sync = {}, {}
                    continue
                if k == 'trace':
                    for e in il[j].split()[1:]:
                        seq, f, what = e.split(':')
                        if what in ('write', 'set_len'): last_write[f] = int(seq)
                        if what in ('sync_all', 'sync_data'): last_sync[f] = int(seq)
                    if j > 0 and ops[j - 1].split()[0] in ('syncall', 'syncdata', 'dbsyncall', 'dbsyncdata') and il[j - 1] == 'ok' and ops[j].split()[0] == 'trace':
                        missing = [f for f in ('val', 'key', 'htx') if last_write.get(f, 0) > last_sync.get(f, -1)]
                        if missing:
                            ctx.violation('trace_%d' % i, 'after `%s` returned Ok the io-trace shows buffered writes to %s that were never followed by an OS sync request '
                                          '(last write seq %s, last sync seq %s)' % (ops[j - 1], missing, last_write, last_sync), ops[:j + 1])
                            break
    parallel(one, range(ctx.scale(60, 400)))

    # `handles`: several handles of ONE map (a clone, a second lookup by name, one through a cloned FileDb) share one state: a flush
    # or sync through ANY of them - also one that has flushed before and made no update itself - must make the updates made through
    # the others durable.  Every flush/sync is a crash point (files against the model image; copies opened at the end).
    def handles(i):
        g = G.G(ctx.seed, 'C03h', i)
        kt = G.KTS[i % 5]
        ks = g.key_universe(kt, 8)
        lines = ['db d0 db', 'map m0 d0 %s m %s' % (kt, g.params(n=g.rng.choice([8, 64]))), 'mapclone m1 m0', 'dbclone d1 d0', 'map m2 d1 %s m default' % kt]
        hs = ['m0', 'm1', 'm2']
        ncp = 0
        for rnd in range(ctx.scale(5, 12)):
            w = g.rng.choice(hs)                       # the handle that updates
            f = g.rng.choice([h for h in hs if h != w] if rnd % 3 else hs)      # the handle that flushes
            lines += g.hist(kt, g.rng.randrange(1, 12), keys=ks, big=0.0, reads=0.1, mid=w)
            op = g.rng.choice(SY + ['flush'])
            lines += ['%s %s' % (op, f), 'dirty %s' % w, 'snap db']
            if g.rng.random() < 0.4:
                ncp += 1
                lines.append('cpdir db c%d' % ncp)
            if rnd == 1:
                lines += ['flush m1', 'flush m2', 'flush m0', 'snap db']           # every handle has flushed once by now
        lines += ['closeall']
        for c in range(1, ncp + 1):
            lines += ['db dc%d c%d' % (c, c), 'map mc%d dc%d %s m default' % (c, c, kt)] + ['get mc%d %s' % (c, G.hx(k)) for k in ks] + ['len mc%d' % c, 'closeall']
        pair(ctx, 'handles', i, lines, stats=g.stats)
    parallel(handles, range(ctx.scale(20, 120)))

    # `emptied`: the boundary states of the item count - a map filled with a few keys and emptied again one delete at a time, every
    # delete followed by a flush/sync that is a crash point (files against the model image, a copy opened and read: len, is_empty,
    # every key, a traversal); then filled again.  (seeded change C03j: the 1 -> 0 transition of the count never reached the buffer)
    def emptied(i):
        g = G.G(ctx.seed, 'C03e', i)
        kt = G.KTS[i % 5]
        ks = g.key_universe(kt, g.rng.choice([1, 2, 3, 5]))
        lines = ['db d0 db', 'map m0 d0 %s m %s' % (kt, g.params(n=g.rng.choice([1, 8, 64])))]
        ncp = 0
        for rnd in range(2):
            for k in ks:
                lines.append('put m0 %s %s' % (G.hx(k), g.value_token(maxlen=200)))
            lines += ['%s m0' % g.rng.choice(SY), 'snap db']
            order = list(ks)
            g.rng.shuffle(order)
            for k in order:
                ncp += 1
                lines += ['del m0 %s' % G.hx(k), '%s m0' % g.rng.choice(SY), 'len m0', 'empty m0', 'snap db', 'cpdir db c%d' % ncp]
        lines += ['closeall']
        for c in range(1, ncp + 1):
            lines += ['db dc%d c%d' % (c, c), 'map mc%d dc%d %s m default' % (c, c, kt), 'len mc%d' % c, 'empty mc%d' % c] + \
                     ['get mc%d %s' % (c, G.hx(k)) for k in ks] + ['iter mc%d iter' % c, 'closeall']
        pair(ctx, 'emptied', i, lines, stats=g.stats)
    parallel(emptied, range(ctx.scale(10, 60)))


SCENARIOS['C03'] = scen_C03


# ------------------------------------------------------------------ C05 / C06 / C17 (structure, reclamation, statistics)
def structure_history(ctx, g, kt, i, cycles=False, stats_ops=True):
    # every third string/bytes case draws long keys too: large KEY slots are freed and re-used (first fit) for smaller large keys
    ks = g.key_universe(kt, g.rng.choice([3, 8, 20, 50]), long_keys=(i % 3 == 1))
    lines = ['db d0 db', 'map m0 d0 %s m %s' % (kt, g.params(n=g.rng.choice([1, 2, 8, 16, 64, 256])))]
    for _ in range(ctx.scale(6, 20)):
        lines += g.hist(kt, g.rng.randrange(1, 50), keys=ks, big=0.04, reads=0.1)
        if stats_ops:
            lines.append('stats m0')
            g.count('stats')
        # a sync point: through the map or through the database handle (FileDb::sync_all / sync_data walk every open map)
        lines += [g.rng.choice(['flush m0', 'syncall m0', 'syncdata m0', 'dbsyncall d0', 'dbsyncdata d0']), 'snap db']
        if g.rng.random() < 0.25:
            # "any history" includes closing and re-opening with other creation parameters (they must be ignored)
            lines += ['closeall', 'snap db', 'db d0 db', 'map m0 d0 %s m %s' % (kt, g.params(n=g.rng.choice([1, 4, 8, 32, 128, 1024])))]
            g.count('reopen')
    lines += ['stats m0', 'closeall', 'snap db']
    return lines


def scen_C05(ctx):
    ctx.rule = ('L_img: byte-exact comparison of the three files with the model image at every sync point and at close, on random histories '
                '(all key types, tables of 1..256 buckets, large values re-using large free slots); plus the independent decoder (lib/decoder.py, '
                'written from the layout documentation) on the closed files: acyclic chains, keys in their bucket, no key twice, count, bitmap, '
                'value ownership, contents = ideal map; distinct = distinct op files')

    def one(i):
        g = G.G(ctx.seed, 'C05', i)
        kt = G.KTS[i % 5]
        lines = structure_history(ctx, g, kt, i, stats_ops=False)
        pair(ctx, 'struct', i, lines, stats=g.stats, files_oracle=True, oracle=contents_oracle)
    parallel(one, range(ctx.scale(90, 700)))


def contents_oracle(segments, workdir, release=False):
    """api oracle + decoded contents of the closed files = ideal map"""
    v = api_oracle(segments, workdir, release)
    if v:
        return v
    if segments and not isinstance(segments[0], list):
        segments = [segments]
    ops = [l for seg in segments for l in seg if l.strip() and not l.startswith('#')]
    ideal = O.Ideal()
    il, ist = impl_only(segments, workdir, release)
    ideal.check(ops, il, stop_at_first=False)
    impl = os.path.join(workdir, 'impl')
    for (dr, name), st in ideal.files.items():
        p = os.path.join(impl, dr)
        if os.path.exists(os.path.join(p, name + '.htx')):
            probs, reps = O.files_ok(p, {name: st['m']})
            if probs:
                return 'independent decoder on %s: %s' % (dr, '; '.join(probs[:4]))
    return None


SCENARIOS['C05'] = scen_C05


def scen_C06(ctx):
    ctx.rule = ('L_img at every sync point (free-list heads and every slot are in the image, so a wrong slot choice, a missing push or an '
                'extension while a suitable slot is free shows as a byte difference) + independent decoder (orphans, double membership, gaps, '
                'overlaps) + `cyclic`: workloads with a bounded live set run for many rounds, file lengths must stop growing after the first '
                'rounds; statistics calls under a watchdog; distinct = distinct op files')

    def one(i):
        g = G.G(ctx.seed, 'C06', i)
        kt = G.KTS[i % 5]
        lines = structure_history(ctx, g, kt, i)
        pair(ctx, 'struct', i, lines, stats=g.stats, files_oracle=True, oracle=contents_oracle, release=(i % 6 == 2))
    parallel(one, range(ctx.scale(60, 500)))

    def cyclic(i):
        g = G.G(ctx.seed, 'C06cyc', i)
        r = g.rng
        kt = G.KTS[i % 5]
        ks = g.key_universe(kt, 10)
        sizes = [r.choice(G.VAL_EDGES + [1100, 1500, 2000, 3000, 5000]) for _ in range(6)]
        lines = ['db d0 db', 'map m0 d0 %s m B%d' % (kt, r.choice([1, 8, 64]))]
        rounds = ctx.scale(30, 150)
        marks = []
        for rd in range(rounds):
            order = list(ks)
            r.shuffle(order)
            for k in order[:7]:
                lines.append('put m0 %s z%dx%d' % (G.hx(k), sizes[(rd + len(k)) % len(sizes)], rd % 250))
            for k in order[:4]:
                lines.append('del m0 %s' % G.hx(k))
            if rd % 5 == 4:
                lines += ['flush m0', 'snap db']
                marks.append(len(lines) - 1)
        lines += ['stats m0', 'closeall', 'snap db']
        res = pair(ctx, 'cyclic', i, lines, files_oracle=True, oracle=contents_oracle)
        if res.get('ok') and res.get('impl_lines'):
            il = res['impl_lines']
            def sizes_of(line):
                return tuple(int(x.split('=')[1].split(':')[0]) for x in line.split()[1:])
            lens = [sizes_of(il[m]) for m in marks]
            # the live set and the value sizes are periodic: after the first third the files must not grow any more than
            # one slot per size class in use (bounded by the live set, not by the number of rounds)
            third = len(lens) // 3
            if third >= 1 and len(lens) > third:
                grow = [lens[-1][j] - lens[third][j] for j in range(3)]
                bound = 10 * 2 * 6000
                if any(x > bound for x in grow):
                    ctx.violation('cyclic_%d' % i, 'cyclic workload with a bounded live set (10 keys, 6 value sizes): the files kept growing: '
                                  'lengths (htx,key,val) after round %d: %s, at the end: %s' % (5 * third, lens[third], lens[-1]), lines)
    parallel(cyclic, range(ctx.scale(10, 40)))


SCENARIOS['C06'] = scen_C06


def scen_C17(ctx):
    ctx.rule = ('L_api: the statistics lines (free-slot counts per class, key/value length and slot-size histograms, bucket filling) of the crate '
                'vs the model on every state class of random histories (small tables), and recomputed from the closed files by the independent '
                'decoder; every stats call runs under the hang watchdog; distinct = distinct op files')

    def stats_oracle(segments, workdir, release=False):
        v = contents_oracle(segments, workdir, release)
        if v:
            return v
        if segments and not isinstance(segments[0], list):
            segments = [segments]
        ops = [l for seg in segments for l in seg if l.strip() and not l.startswith('#')]
        il, ist = impl_only(segments, workdir, release)
        # the last stats line before closeall against the decoder's figures
        last = None
        for j, op in enumerate(ops):
            if op.split()[0] == 'stats' and j < len(il):
                last = (j, il[j])
        if last is None:
            return None
        impl = os.path.join(workdir, 'impl', 'db')
        if not os.path.isdir(impl):
            return None
        c, rep, probs = O.check_map(impl, 'm')
        want = ('fk=%s fv=%s kps=%s vps=%s kl=%s vl=%s kc=[] fill=(%d, %d)' % (
            str([(a, b) for a, b in zip(O.check_map.__globals__['SIZE_ARY'], rep['free_key'])]),
            str([(a, b) for a, b in zip(O.check_map.__globals__['SIZE_ARY'], rep['free_val'])]),
            str(rep['key_size_hist']), str(rep['val_size_hist']), str(rep['key_len_hist']), str(rep['val_len_hist']),
            rep['nonempty_buckets'], rep['nonempty_buckets'] * 1000 // rep['n']))
        got = last[1][len('stats '):]
        # only valid if no update happened after that stats call
        if any(op.split()[0] in ('put', 'del', 'put@', 'del@', 'bulkput', 'bulkdel', 'putiter') for op in ops[last[0]:]):
            return None
        if got != want:
            return 'statistics at op %d differ from the figures recomputed from the files: got `%s` want `%s`' % (last[0], got[:300], want[:300])
        return None

    def one(i):
        g = G.G(ctx.seed, 'C17', i)
        kt = G.KTS[i % 5]
        lines = structure_history(ctx, g, kt, i)
        r = pair(ctx, 'stats', i, lines, stats=g.stats, oracle=stats_oracle)
        if r.get('ok') and i % 5 == 0:
            # also run the decoder-based recomputation on agreeing cases (the oracle is independent of the model)
            v = stats_oracle([lines], os.path.join(ctx.root, 'so_%d' % i))
            shutil.rmtree(os.path.join(ctx.root, 'so_%d' % i), ignore_errors=True)
            if v:
                ctx.violation('stats_oracle_%d' % i, v, lines)
    parallel(one, range(ctx.scale(70, 500)))


SCENARIOS['C17'] = scen_C17


# ------------------------------------------------------------------ C07
CONFIGS = ['B1,VS0,KS0,HS0', 'B4,VA,KP1000,HP1000', 'B8,VS131072,KS131072,HS131072', 'B128,VS262144,KA,HA',
           'B4096,VS1048576,KS1048576,HS1048576', 'C1,VA,KA,HA', 'C100,VP1000,KP1000,HP1000', 'B3,VP1000,KS0,HA']


def scen_C07(ctx):
    ctx.rule = ('each random history is run under 4 of 8 configurations (1..4096 buckets given as BucketsSize or Capacity; Size(0)/Size(1 chunk)/'
                'Size(2 chunks)/Size(1 MiB)/PerMille(1000)/Auto per file, values up to 200 KB so that the 4 KiB-chunk value buffer evicts) and '
                'each run is compared with the one model (traversals up to permutation across bucket counts are compared per configuration with '
                'the model of that configuration); reopen with other parameters (L_open); L_size: bucket-count derivation for BucketsSize/Capacity '
                'x in 0..2^16 (quick: around every power of two) observed through real creations vs the model; known finding D8 probed in a child; '
                'distinct = distinct (history, configuration) pairs')
    import random

    def one(i):
        g = G.G(ctx.seed, 'C07', i)
        kt = G.KTS[i % 5]
        ks = g.key_universe(kt, g.rng.choice([4, 12, 30]))
        pre = []
        if i % 3 == 0:
            # many keys: the KEY file outgrows one 4 KiB chunk of an Auto-buffered file (and records straddle chunk boundaries)
            more = g.key_universe(kt, 300)
            pre = ['put m0 %s %02x' % (G.hx(k), j % 251) for j, k in enumerate(more)]
            ks = ks + more[::25]
        body = pre + g.hist(kt, ctx.scale(120, 500), keys=ks, big=0.08) + ['len m0', 'iter m0 iter']
        for k in ks:
            body.append('get m0 %s' % G.hx(k))
        cfgs = g.rng.sample(CONFIGS, 4)
        outs = []
        for cfg in cfgs:
            lines = ['db d0 db', 'map m0 d0 %s m %s' % (kt, cfg)] + body + ['closeall',
                     'db d1 db', 'map m1 d1 %s m %s' % (kt, g.rng.choice(CONFIGS))] + ['get m1 %s' % G.hx(k) for k in ks] + ['len m1', 'closeall']
            r = pair(ctx, 'cfg', i * 10 + CONFIGS.index(cfg), lines, stats=g.stats if cfg == cfgs[0] else None, op_timeout=40)
            if r.get('ok') and r.get('impl_lines'):
                # results (except the traversal order) must be identical across configurations
                outs.append([l if not l.startswith('iter') else ' '.join(sorted(l.split()[2::2])) for l in r['impl_lines'][2:2 + len(body)]])
        for o in outs[1:]:
            if o != outs[0]:
                j = next(x for x in range(len(o)) if o[x] != outs[0][x])
                ctx.violation('cfg_cross_%d' % i, 'the same history gives different results under two configurations at op `%s`: `%s` vs `%s`'
                              % (body[j][:100], outs[0][j][:150], o[j][:150]), ['db d0 db', 'map m0 d0 %s m %s' % (kt, cfgs[0])] + body)
                break
    parallel(one, range(ctx.scale(30, 250)))

    # L_size: bucket count derivation
    d = os.path.join(ctx.root, 'bk')
    os.makedirs(d, exist_ok=True)
    mode = [] if ctx.quick else ['all']
    ri = C.sh([C.HARNESS, 'buckets', os.path.join(d, 'w'), str(65536)] + mode, timeout=3000)
    il = [l for l in ri.stdout.split('\n') if l]
    q = os.path.join(d, 'q.txt')
    open(q, 'w').write(''.join(' '.join(l.split()[:2]) + '\n' for l in il))
    rm = C.sh([C.DRIVER, 'buckets', q], timeout=3000)
    ml = [l for l in rm.stdout.split('\n') if l]
    ctx.evaluations += len(il)
    ctx.scen_counts['buckets'] = len(il)
    for l in il:
        ctx.distinct.add(l)
    for a, b in zip(il, ml):
        t = a.split()
        # direct oracle: a power of two >= 1 (Capacity(0) is rejected by a panic), never smaller than asked
        if t[2] != 'panic':
            n = int(t[2])
            if n < 1 or n & (n - 1) or (t[0] == 'b' and n < int(t[1])) or (t[0] == 'c' and n < int(t[1])):
                ctx.violation('buckets_%s_%s' % (t[0], t[1]), 'bucket count derived for %s(%s) is %d: not a power of two >= the request'
                              % ('BucketsSize' if t[0] == 'b' else 'Capacity', t[1], n), None)
                break
        elif not (t[0] == 'c' and t[1] == '0'):
            ctx.violation('buckets_%s_%s' % (t[0], t[1]), 'creating a map with %s(%s) panics' % ('BucketsSize' if t[0] == 'b' else 'Capacity', t[1]), None)
            break
        if a != b:
            # the model's copy of the load-factor rule differs: reported, not a condition (DESIGN.md C07)
            ctx.distribution.setdefault('buckets_rule_differs', {})[a] = 1
    # tables whose FILE outgrows one 128 KiB chunk (16384 .. 65536 buckets) under every buffer kind of the table file: the first
    # access beyond the first chunk happens at creation (the last word of the file) and at any bucket beyond it afterwards
    def bigtable(i):
        g = G.G(ctx.seed, 'C07big', i)
        n = [16384, 32768, 16384, 65536][i % 4]
        hb = ['HA', 'HS0', 'HP1000', 'HA', 'HS262144'][i % 5]
        kt = G.KTS[i % 5]
        ks = g.key_universe(kt, 12)
        lines = ['db d0 db', 'map m0 d0 %s m B%d,VA,KA,%s' % (kt, n, hb)] + g.hist(kt, 40, keys=ks, big=0.0, reads=0.3) + ['len m0', 'iter m0 iter', 'closeall', 'snap db',
                 'db d0 db', 'map m0 d0 %s m B8,VP1000,KP1000,%s' % (kt, ['HA', 'HS0'][i % 2])] + ['get m0 %s' % G.hx(k) for k in ks] + ['put m0 %s 0707' % G.hx(ks[0]), 'len m0', 'closeall', 'snap db']
        pair(ctx, 'big_table', i, lines, op_timeout=120)
    parallel(bigtable, range(ctx.scale(3, 20)), workers=5)

    # `second_lookup`: parameters given for a map that is ALREADY OPEN in this FileDb (or in a clone of it) are ignored as well: the
    # lookup returns the one open map.  Updates through the first handle and through the one obtained with other parameters, each
    # read through the other, then closed, reopened and read.  All five key types.  (seeded change C07j: the with-parameters lookup
    # of a string map built a second, independent map object over the same three files - two buffered views overwriting each other)
    def second_lookup(i):
        g = G.G(ctx.seed, 'C07second', i)
        r = g.rng
        kt = G.KTS[i % 5]
        ks = g.key_universe(kt, 10)
        lines = ['db d0 db', 'map m0 d0 %s m %s' % (kt, r.choice(CONFIGS))]
        lines += g.hist(kt, r.randrange(5, 30), keys=ks, big=0.0, reads=0.2)
        if r.random() < 0.7:
            lines.append(r.choice(['flush m0', 'syncall m0', 'dbsyncall d0']))
        if i % 2:
            lines += ['dbclone d1 d0', 'map m1 d1 %s m %s' % (kt, r.choice(CONFIGS))]
        else:
            lines.append('map m1 d0 %s m %s' % (kt, r.choice(CONFIGS)))
        for rnd in range(r.randrange(2, 6)):
            w, o = ('m0', 'm1') if rnd % 2 else ('m1', 'm0')
            lines += g.hist(kt, r.randrange(3, 20), keys=ks, big=0.02, reads=0.1, mid=w)
            lines += ['get %s %s' % (o, G.hx(k)) for k in r.sample(ks, 4)] + ['len %s' % o, 'len %s' % w]
            if r.random() < 0.4:
                lines.append('%s %s' % (r.choice(['flush', 'syncall']), r.choice(['m0', 'm1'])))
        lines += ['iter m0 iter', 'iter m1 keys', 'closeall', 'snap db', 'db d0 db', 'map m0 d0 %s m %s' % (kt, r.choice(CONFIGS))]
        lines += ['get m0 %s' % G.hx(k) for k in ks] + ['len m0', 'closeall']
        pair(ctx, 'second_lookup', i, lines, stats=g.stats, op_timeout=40)
    parallel(second_lookup, range(ctx.scale(15, 100)))
    io_traces(ctx, ctx.scale(8, 60), ctx.scale(3, 12), 0, 0)
    # L_cache: the model of the buffer cache (Cache.v, proved transparent for >= 2 chunks) against the real rabuf
    import scen_cache as SC
    rule0 = ctx.rule
    SC.scen_cache(ctx, ctx.scale(60, 1000), ctx.scale(30, 500), ctx.scale(30, 400))
    ctx.rule = rule0 + ' || ' + ctx.rule
    if not [k for k in C.known_findings() if k.get('property') == 'C07']:
        ctx.known = [k for k in ctx.known if 'permille-below-1000' not in k]
    # known finding D8: PerMille below 1000 on a file that outgrows one chunk
    kf = [k for k in C.known_findings() if k.get('property') == 'C07']
    if kf:
        lines = ['db d0 db', 'map m0 d0 bytes m B8,VP500'] + ['put m0 %s z300x%d' % (('q%04d' % j).encode().hex(), j % 200) for j in range(800)] + ['len m0', 'closeall']
        il, ist = impl_only(lines, os.path.join(ctx.root, 'd8'), op_timeout=10)
        if ist != 'ok' or any(l in ('panic', 'hang') for l in il):
            ctx.known.append('class=permille-below-1000 `map .. B8,VP500` + 800 puts of 300 bytes ends with %s (rabuf add_chunk recursion, dependency)' % ist)
        shutil.rmtree(os.path.join(ctx.root, 'd8'), ignore_errors=True)


SCENARIOS['C07'] = scen_C07


# ------------------------------------------------------------------ C08
def scen_C08(ctx):
    ctx.rule = ('`collide`: maps whose keys all collide (single bucket, and mined keys in one bucket of a 4-bucket table), key lengths exactly on key-slot '
                'boundaries (so that a wider offset moves the record), value file pushed past the 16 KiB and 2 MiB offset-width boundaries by fillers; '
                'breadth-first exploration of the state graph over an alphabet of 3 keys x 4 value sizes + deletes from three start images, states '
                'identified by the model image, every path executed on the implementation and compared op by op (L_api + L_img at the end); '
                'random collide histories on top, through both byte-string key types (string-keyed maps with keys that are not valid UTF-8) and the three integer key types; distinct = distinct op files')
    import random
    rng0 = random.Random('%s/C08' % ctx.seed)

    def tight_keys(voff_w, noff_w, count, rng):
        # key lengths with zero slack: 1(size)+1(klen)+klen+voff_w+noff_w == a class size
        out = []
        for cls in (16, 24, 32, 48, 64):
            kl = cls - 2 - voff_w - noff_w
            if kl >= 1:
                out.append(kl)
        return out[:count]

    def start_image(kind):
        """setup ops that lead to the start image"""
        lines = ['db d0 db', 'map m0 d0 bytes m B1']
        if kind == 'empty':
            return lines
        if kind == '16k':
            # fillers: value file just below 16 KiB with free slots below
            for j in range(31):
                lines.append('put m0 %s z500x%d' % (('f%02d' % j).encode().hex(), j))
            for j in range(0, 30, 5):
                lines.append('del m0 %s' % ('f%02d' % j).encode().hex())
            return lines
        if kind == '2m':
            lines.append('put m0 %s z2090000x7' % b'big'.hex())
            for j in range(8):
                lines.append('put m0 %s z900x%d' % (('g%02d' % j).encode().hex(), j))
            lines.append('del m0 %s' % b'g03'.hex())
            return lines
        raise ValueError(kind)

    # key lengths whose record fills its slot exactly (size field 1 + length field 1 + key + value offset + next offset):
    # empty bucket (next = 0: 1 byte) and value offsets below 16 KiB (2 bytes): 11, 19, 27; in a non-empty chain (next: 2 bytes): 10, 18, 26;
    # value offsets of 3 bytes (16 KiB..2 MiB) about to become 4: 9, 17, 25
    KL = {'empty': [11, 19, 27], '16k': [10, 18, 26], '2m': [9, 17, 25]}
    klens = [9, 10, 11, 17, 18, 19, 25, 26, 27]
    def alphabet(kind):
        keys = [bytes([65 + j]) * kl for j, kl in enumerate(KL[kind])]
        vals = [0, 14, 600, 1100]
        ops = []
        for k in keys:
            for v in vals:
                ops.append('put m0 %s z%dx%d' % (k.hex(), v, v % 200) if v else 'put m0 %s -' % k.hex())
            ops.append('del m0 %s' % k.hex())
        return keys, ops

    cap = ctx.scale(70, 1500)
    depth = ctx.scale(3, 5)
    for kind in (['empty', '16k'] if ctx.quick else ['empty', '16k', '2m']):
        keys, alpha = alphabet(kind)
        check_tail = ['get m0 %s' % k.hex() for k in keys] + ['len m0', 'iter m0 iter', 'stats m0', 'flush m0', 'snap db']
        setup = start_image(kind)
        frontier = [[]]
        seen = set()
        case_no = [0]
        for dpt in range(depth):
            # model-only pass: identify new states
            cand = [p + [o] for p in frontier for o in alpha]
            if kind == '2m':
                cand = cand[:ctx.scale(20, 60)]
            # run the model on every candidate path (in parallel chunks) to get state ids
            new_frontier = []
            per = len(setup) + dpt + 1 + 3

            def model_chunk(a):
                ck, chunk = a
                f = os.path.join(ctx.root, 'bfs_%s_%d_%d.ops' % (kind, dpt, ck))
                lines = []
                for ci, p in chunk:
                    su = [l.replace('db d0 db', 'db d0 p%d' % ci) for l in setup]
                    lines += su + p + ['flush m0', 'snap p%d' % ci, 'closeall']
                C.write_ops(f, lines)
                ml, mst = C.run_model(f, timeout=1200)
                os.remove(f)
                return [(ci, ml[j * per + per - 2] if j * per + per - 2 < len(ml) else None) for j, (ci, p) in enumerate(chunk)]
            idx = list(enumerate(cand))
            chunks = [idx[c::12] for c in range(12)]
            sids = {}
            for res in parallel(model_chunk, [(ck, ch) for ck, ch in enumerate(chunks) if ch]):
                for ci, sid in res:
                    sids[ci] = sid
            for ci, p in enumerate(cand):
                sid = sids.get(ci)
                if sid and sid not in seen and len(seen) < cap:
                    seen.add(sid)
                    new_frontier.append(p)
            # every new path on the implementation, compared with the model
            def runp(a):
                j, p = a
                pair(ctx, 'bfs_%s_d%d' % (kind, dpt + 1), j, setup + p + check_tail + ['closeall', 'snap db'], files_oracle=(j % 4 == 0), op_timeout=60)
            parallel(runp, list(enumerate(new_frontier)), workers=12 if kind != '2m' else 4)
            frontier = new_frontier
            if not frontier:
                break
        ctx.distribution.setdefault('bfs_states', {})[kind] = len(seen)

    def collide_hist(i):
        g = G.G(ctx.seed, 'C08', i)
        r = g.rng
        n = r.choice([1, 1, 4])
        if n == 1:
            ks = [bytes(r.randrange(256) for _ in range(r.choice(klens + [3, 43, 59]))) for _ in range(r.randrange(2, 7))]
            ks = list(dict.fromkeys(ks))
        else:
            ks = g.colliding_keys(4, r.randrange(4), r.randrange(2, 6), klens)
        # byte-string keys are stored through both byte-string key types (random bytes: mostly not valid UTF-8)
        kt = 'string' if i % 2 else 'bytes'
        lines = ['db d0 db', 'map m0 d0 %s m B%d' % (kt, n)]
        nf = r.choice([0, 28, 33])
        for j in range(nf):
            lines.append('put m0 %s z500x%d' % (('f%02d' % j).encode().hex(), j))
        for j in range(0, nf, 4):
            lines.append('del m0 %s' % ('f%02d' % j).encode().hex())
        lines += g.hist(kt, ctx.scale(150, 600), keys=ks, big=0.0, reads=0.25)
        lines += ['iter m0 iter', 'stats m0', 'closeall', 'snap db']
        pair(ctx, 'collide', i, lines, stats=g.stats, files_oracle=True, release=(not ctx.quick and i % 5 == 0))
    parallel(collide_hist, range(ctx.scale(60, 500)))

    def collide_int(i):
        # the three integer key types in a one-bucket table: 16-byte key slots that fill up when an offset field widens
        g = G.G(ctx.seed, 'C08int', i)
        kt = ['u64', 'i64', 'vu64'][i % 3]
        ks = g.key_universe(kt, g.rng.randrange(3, 8))
        lines = ['db d0 db', 'map m0 d0 %s m B1' % kt]
        nf = g.rng.choice([0, 33])
        for j in range(nf):
            lines.append('put m0 %s z500x%d' % (G.hx(ks[j % len(ks)]), j))
        lines += ['put m0 %s z17000x3' % G.hx(ks[0])] + g.hist(kt, ctx.scale(100, 400), keys=ks, big=0.0, reads=0.25)
        lines += ['iter m0 iter', 'stats m0', 'closeall', 'snap db']
        pair(ctx, 'collide_int', i, lines, stats=g.stats, files_oracle=True)
    parallel(collide_int, range(ctx.scale(9, 60)))
    parallel(lambda i: cascade_case(ctx, 'C08', i), range(ctx.scale(24, 120)))
    # however large the offsets involved: a value beyond 2 MiB (4-byte varint fields), overwritten and followed by chained entries
    parallel(lambda i: huge_case(ctx, 'C08', i, reopen=False), range(ctx.scale(1, 4)), workers=4)
    io_traces(ctx, 0, ctx.scale(1, 6), ctx.scale(12, 80), 0)


SCENARIOS['C08'] = scen_C08


# ------------------------------------------------------------------ C11
def scen_C11(ctx):
    ctx.rule = ('`multi`: 2..5 maps of mixed key types in one directory, interleaved histories, each map against its own model instance; handles are '
                'cloned, looked up again and obtained through a cloned FileDb at random points (all must alias one state); after flushes the files '
                'of every map are compared with the model image, so an update of one map that touches another map\'s files shows as a byte '
                'difference (L_api + L_img); distinct = distinct op files')

    def one(i):
        g = G.G(ctx.seed, 'C11', i)
        r = g.rng
        nm = r.randrange(2, 6)
        # names that are prefixes of each other, differ only after a dot, or look like the crate's own extensions
        pool = ['a', 'b', 'ab', 'a_b', 'map1', 'map10', 'x', 'xy', 'key', 'val', 'm.a', 'm.b', 'm.a.b', 'users.v1', 'users.v2', 'a.key', 'a.val', 'a.htx', 'A']
        names = r.sample(pool, nm) if i % 3 else r.sample(['m.a', 'm.b', 'm.a.b', 'users.v1', 'users.v2', 'a.key', 'a', 'a.val'], nm)
        kts = [r.choice(G.KTS) for _ in range(nm)]
        lines = ['db d0 db']
        handles = {}       # map index -> list of handle ids
        keys = {}
        hid = [0]
        dbn = [0]
        # some maps are opened for the first time only later, through whichever database handle (original or clone) exists by then,
        # and then looked up through the others: all database handles of a directory must share one registry of open maps
        late = set(m for m in range(nm) if i % 2 and r.random() < 0.5)
        for m in range(nm):
            keys[m] = g.key_universe(kts[m], r.choice([3, 8]))
            handles[m] = []
            if m in late:
                continue
            lines.append('map h%d d0 %s %s %s' % (hid[0], kts[m], names[m], g.params(n=r.choice([1, 4, 16, 64]), bufs=False)))
            handles[m] = ['h%d' % hid[0]]
            hid[0] += 1
        dbs = ['d0']

        def again():
            # a repeated lookup of an open map: the plain call, or the one with parameters (an explicit bucket count or
            # capacity, buffer kinds) - the parameters of a map that is already open must not matter
            c2 = r.random()
            if c2 < 0.4:
                return 'default'
            if c2 < 0.7:
                return g.params(n=r.choice([1, 8, 32, 256]), bufs=(c2 < 0.55))
            return 'C%d' % r.choice([1, 5, 100, 1000])
        if late:
            lines.append('dbclone d1 d0'); dbs.append('d1'); dbn[0] = 1
        for _ in range(ctx.scale(120, 500)):
            m = r.randrange(nm)
            c = r.random()
            if not handles[m]:
                # first open of this name, through a random database handle; then immediately a lookup through another one
                first = r.choice(dbs)
                hid[0] += 1
                lines.append('map h%d %s %s %s %s' % (hid[0], first, kts[m], names[m], g.params(n=r.choice([1, 4, 16]), bufs=False)))
                handles[m].append('h%d' % hid[0])
                other = r.choice([d for d in dbs if d != first] or dbs)
                hid[0] += 1
                lines.append('map h%d %s %s %s %s' % (hid[0], other, kts[m], names[m], again()))
                handles[m].append('h%d' % hid[0])
                continue
            if c < 0.05:
                hid[0] += 1
                lines.append('mapclone h%d %s' % (hid[0], r.choice(handles[m])))
                handles[m].append('h%d' % hid[0])
            elif c < 0.10:
                hid[0] += 1
                lines.append('map h%d %s %s %s %s' % (hid[0], r.choice(dbs), kts[m], names[m], again()))
                handles[m].append('h%d' % hid[0])
            elif c < 0.13:
                dbn[0] += 1
                lines.append('dbclone d%d %s' % (dbn[0], r.choice(dbs)))
                dbs.append('d%d' % dbn[0])
            elif c < 0.16 and len(handles[m]) > 1:
                h = handles[m].pop(r.randrange(len(handles[m])))
                lines.append('drop %s' % h)
            elif c < 0.22:
                lines += ['flush %s' % r.choice(handles[mm]) for mm in range(nm) if handles[mm]] + ['snap db']
                # one state behind every handle: is_dirty() asked through two handles of one map, back to back, is one answer
                for mm in range(nm):
                    if len(handles[mm]) > 1:
                        a, b = r.sample(handles[mm], 2)
                        lines += ['dirty %s' % a, 'dirty %s' % b]
            elif c < 0.25 and len(handles[m]) > 1:
                a, b = r.sample(handles[m], 2)
                lines += g.hist(kts[m], 1, keys=keys[m], mid=a, big=0.0, reads=0.0) + ['dirty %s' % a, 'dirty %s' % b]
            else:
                h = r.choice(handles[m])
                lines += g.hist(kts[m], 1, keys=keys[m], mid=h, big=0.01)
        for m in range(nm):
            if not handles[m]:
                continue
            h = r.choice(handles[m])
            lines += ['len %s' % h, 'iter %s iter' % h]
        lines += ['closeall', 'snap db']
        pair(ctx, 'multi', i, lines, stats=g.stats, files_oracle=True, oracle=contents_oracle)
    parallel(one, range(ctx.scale(60, 400)))


SCENARIOS['C11'] = scen_C11


# ------------------------------------------------------------------ C12
def scen_C12(ctx):
    ctx.rule = ('15 golden directories written by the pinned release 4b82afd (5 key types x 3 histories: deletes, re-used large slots, non-empty free '
                'lists, value file past 16 KiB) are opened read-only by the current build (contents = committed expectation, files byte-identical '
                'after close), decoded by the independent decoder, reproduced byte for byte by the model from the committed history (so the model '
                'state equals the golden image), and then driven by further random histories (L_api + L_img); 64 hash vectors of the crate are '
                're-proved in Coq on every run (gen/Hash_vectors.v) and 256 frozen (key, hash) vectors are compared; `dotted`: golden images under dotted map names (derived by renaming the three files - the released naming is <name>.htx/.key/.val) must be found, read, updated and leave exactly those three files; distinct = distinct op files')
    gd = os.path.join(C.VERIF, 'golden')
    names = sorted(n for n in os.listdir(gd) if os.path.isdir(os.path.join(gd, n)))
    import filecmp

    def one(a):
        i, name = a
        kt = name.split('_')[0]
        src = os.path.join(gd, name)
        exp = {}
        for l in open(os.path.join(src, 'expected.txt')):
            k, v = l.split()
            exp[O.unhex(k)] = O.unhex(v)
        # (1) read-only open of the golden files by the current build
        w = os.path.join(ctx.root, 'g_%s' % name)
        shutil.rmtree(w, ignore_errors=True)
        os.makedirs(os.path.join(w, 'impl'))
        shutil.copytree(os.path.join(src, 'db'), os.path.join(w, 'impl', 'db'))
        ro = ['db d0 db', 'map m0 d0 %s gold default' % kt] + ['get m0 %s' % G.hx(k) for k in sorted(exp)] + ['len m0', 'iter m0 iter', 'closeall']
        f = os.path.join(w, 'ro.ops')
        C.write_ops(f, ro)
        il, ist = C.run_impl(f, os.path.join(w, 'impl'))
        ctx.evaluations += 1
        ctx.distinct.add('ro:' + name)
        bad = None
        if ist != 'ok':
            bad = 'opening the golden image ends with %s' % ist
        else:
            for j, k in enumerate(sorted(exp)):
                if il[2 + j] != 'some:' + O.show(exp[k]):
                    bad = 'golden key %s reads `%s`, the pinned release stored `%s`' % (G.hx(k), il[2 + j], 'some:' + O.show(exp[k])); break
            if not bad and il[2 + len(exp)] != str(len(exp)):
                bad = 'len() of the golden image is %s, expected %d' % (il[2 + len(exp)], len(exp))
            if not bad:
                v = O.Ideal.check_iter(None, exp, 'iter', il[3 + len(exp)])
                if v: bad = 'traversal of the golden image: ' + v
        if not bad:
            for fn in ('gold.htx', 'gold.key', 'gold.val'):
                if not filecmp.cmp(os.path.join(src, 'db', fn), os.path.join(w, 'impl', 'db', fn), shallow=False):
                    bad = 'a read-only session changed %s of the golden image' % fn; break
        if not bad:
            probs, reps = O.files_ok(os.path.join(src, 'db'), {'gold': exp})
            if probs: bad = 'independent decoder on the golden image: ' + '; '.join(probs[:3])
        if bad:
            ctx.violation('golden_%s' % name, 'golden image %s (written by abyssiniandb 0.1.4 @ 4b82afd): %s\nreplay: copy /verif/golden/%s/db to <dir>/db and run the ops below with the harness'
                          % (name, bad, name), ro)
            return
        # (2) the model reproduces the golden image byte for byte from the committed history
        hist = [l for l in C.ops_of(os.path.join(src, 'history.ops'))]
        mf = os.path.join(w, 'hist_model.ops')
        C.write_ops(mf, hist + ['snap db'])
        ml, mst = C.run_model(mf)
        want = 'snap ' + ' '.join('%s=%s' % (fn, _sum(os.path.join(src, 'db', fn))) for fn in ('gold.htx', 'gold.key', 'gold.val'))
        if not ml or ml[-1] != want:
            ctx.disagreements += 1
            ctx.violation('golden_model_%s' % name, 'correspondence: the model (Layout.render after the committed history) no longer reproduces the golden image %s written by the '
                          'pinned release: model `%s` vs files `%s`.\nthe current build still reads the image correctly (direct oracle found no failing input)'
                          % (name, ml[-1][:200] if ml else '', want), hist, found=False)
            return
        # (3) further random history on top of the golden image: implementation on the copied files, model continuing from its state
        g = G.G(ctx.seed, 'C12', i)
        ks = list(exp.keys())[:8] + g.key_universe(kt, 6)
        more = ['db d0 db', 'map m0 d0 %s gold default' % kt] + g.hist(kt, ctx.scale(80, 400), keys=ks, big=0.0, maxlen=3000) + \
               ['iter m0 iter', 'stats m0', 'closeall', 'snap db']
        # model: history (closed) then `more`; implementation: only `more`, on the golden files
        mf2 = os.path.join(w, 'more_model.ops')
        C.write_ops(mf2, hist + more)
        ml, mst = C.run_model(mf2)
        shutil.rmtree(os.path.join(w, 'impl'))
        os.makedirs(os.path.join(w, 'impl'))
        shutil.copytree(os.path.join(src, 'db'), os.path.join(w, 'impl', 'db'))
        f2 = os.path.join(w, 'more.ops')
        C.write_ops(f2, more)
        il, ist = C.run_impl(f2, os.path.join(w, 'impl'))
        ctx.evaluations += 1
        ctx.distinct.add(hashlib.sha1('\n'.join(more).encode()).hexdigest())
        mtail = ml[len(hist):]
        for j, op in enumerate(more):
            a_ = il[j] if j < len(il) else ist
            b_ = mtail[j] if j < len(mtail) else 'MISSING'
            if not C.same(op, a_, b_):
                ctx.disagreements += 1
                # direct oracle: ideal map seeded with the golden contents
                ideal = O.Ideal()
                ideal.dbs['d0'] = 'db'
                ideal.files[('db', 'gold')] = {'kt': kt, 'm': dict(exp)}
                badl = ideal.check(more, il)
                probs, _ = O.files_ok(os.path.join(w, 'impl', 'db'))
                text = 'golden image %s updated further: correspondence breaks at op %d `%s`: implementation `%s`, model `%s`' % (name, j, op[:100], a_[:150], b_[:150])
                if badl:
                    text += '\ndirect oracle: op %d `%s` returned `%s`, the ideal map requires `%s`' % (badl[0][0], badl[0][1][:100], badl[0][2][:100], badl[0][3][:100])
                elif probs:
                    text += '\ndirect oracle: independent decoder: ' + '; '.join(probs[:3])
                ctx.violation('golden_more_%s' % name, text + '\nreplay: copy /verif/golden/%s/db to <dir>/db and run the ops below' % name, more, found=bool(badl or probs))
                break
        shutil.rmtree(w, ignore_errors=True)
    parallel(one, list(enumerate(names)))

    # the file NAMES are part of the released format: a map called <name> lives in <name>.htx / <name>.key / <name>.val, whatever
    # the name contains (the pinned release builds them with format!("{name}.htx") ...).  A golden image under a dotted map name
    # is DERIVED from a committed one by renaming its three files (the name is stored nowhere else): the current build must find
    # it under that name, read the committed contents, update it, and leave exactly the three files it found
    def dotted(a):
        i, (name, mapname) = a
        kt = name.split('_')[0]
        src = os.path.join(gd, name)
        exp = {}
        for l in open(os.path.join(src, 'expected.txt')):
            k, v = l.split()
            exp[O.unhex(k)] = O.unhex(v)
        w = os.path.join(ctx.root, 'gd_%d' % i)
        shutil.rmtree(w, ignore_errors=True)
        os.makedirs(os.path.join(w, 'impl', 'db'))
        for ext in ('htx', 'key', 'val'):
            shutil.copy(os.path.join(src, 'db', 'gold.' + ext), os.path.join(w, 'impl', 'db', '%s.%s' % (mapname, ext)))
        ks = sorted(exp)
        ops = ['db d0 db', 'map m0 d0 %s %s default' % (kt, mapname)] + ['get m0 %s' % G.hx(k) for k in ks] + ['len m0', 'put m0 %s 7a7a' % G.hx(ks[0] if ks else b'k'),
               'closeall', 'db d0 db', 'map m0 d0 %s %s default' % (kt, mapname), 'get m0 %s' % G.hx(ks[0] if ks else b'k'), 'len m0', 'closeall']
        f = os.path.join(w, 'dotted.ops')
        C.write_ops(f, ops)
        il, ist = C.run_impl(f, os.path.join(w, 'impl'))
        ctx.evaluations += 1
        ctx.distinct.add('dotted:%s:%s' % (name, mapname))
        bad = None
        if ist != 'ok' or len(il) < len(ops):
            bad = 'the run ends with %s after %d lines' % (ist, len(il))
        else:
            for j, k in enumerate(ks):
                if il[2 + j] != 'some:' + O.show(exp[k]):
                    bad = 'key %s reads `%s`, the pinned release stored `%s`' % (G.hx(k), il[2 + j], 'some:' + O.show(exp[k])); break
            if not bad and il[2 + len(ks)] != str(len(exp)):
                bad = 'len() is %s, the image holds %d entries' % (il[2 + len(ks)], len(exp))
            if not bad and (il[-3] != 'some:' + O.show(b'zz') or il[-2] != str(max(len(exp), 1))):
                bad = 'after an update and a reopen: get `%s`, len `%s`' % (il[-3], il[-2])
            if not bad:
                have = sorted(os.listdir(os.path.join(w, 'impl', 'db')))
                want = sorted('%s.%s' % (mapname, e) for e in ('htx', 'key', 'val'))
                if have != want:
                    bad = 'the directory now holds %s instead of %s' % (have, want)
        if bad:
            ctx.violation('golden_dotted_%s' % name, 'golden image %s (written by the pinned release) under the map name `%s` - files %s.htx/.key/.val, the released naming: %s\n'
                          'replay: copy /verif/golden/%s/db/gold.* to <dir>/db/%s.* and run the ops below with the harness' % (name, mapname, mapname, bad, name, mapname), ops)
        shutil.rmtree(w, ignore_errors=True)
    # the 4-byte forms of the variable-length fields (a value of 2 MiB or more: its length; the offsets behind it) are part of
    # the format: written, closed, and read back in a new process
    parallel(lambda i: huge_case(ctx, 'C12', i, reopen=True), range(ctx.scale(1, 3)), workers=3)
    # every width boundary of the variable-length fields as a LENGTH: values and keys of 127/128/129 and 16383/16384/16385 bytes
    # (1 -> 2 -> 3 byte forms), written, read back, closed, re-opened and read again; the files against the model image
    def widths(i):
        kt = ['bytes', 'string'][i % 2]
        lens = [127, 128, 129, 16383, 16384, 16385]
        lines = ['db d0 db', 'map m0 d0 %s m B4' % kt]
        for L in lens:
            lines += ['put m0 %s z%dx%d' % (('v%05d' % L).encode().hex(), L, L % 200), 'get m0 %s' % ('v%05d' % L).encode().hex()]
        for L in lens[:5]:
            lines += ['put m0 z%dx%d 0%d' % (L, (L + i) % 200, i % 10), 'get m0 z%dx%d' % (L, (L + i) % 200)]
        lines += ['len m0', 'closeall', 'snap db', 'db d0 db', 'map m0 d0 %s m default' % kt]
        lines += ['get m0 %s' % ('v%05d' % L).encode().hex() for L in lens] + ['get m0 z%dx%d' % (L, (L + i) % 200) for L in lens[:5]] + ['len m0', 'iter m0 keys', 'closeall']
        pair(ctx, 'width_boundaries', i, lines, files_oracle=True, op_timeout=120)
    parallel(widths, range(ctx.scale(2, 6)))

    # the header offsets of the free-list heads are part of the format: one head per size class (16 classes and the large list)
    # in the key file and in the value file.  Records of EVERY size class of both files are stored and deleted (one free slot on
    # every list), the files compared with the model image (every head at its documented offset), the slots re-used, the files
    # closed, reopened in a new process and read.  (seeded change C12j: the head of the 768-byte class of the key file was
    # given the offset of the 640-byte class)
    def free_list_heads(i):
        kt = ['bytes', 'string'][i % 2]
        classes = [16, 24, 32, 48, 64, 80, 96, 112, 128, 256, 384, 512, 640, 768, 896, 1024, 1536, 3072]
        lens = sorted(set(max(1, s - d) for s in classes for d in (12, 9)))       # two records per size class, in both files
        keys = ['z%dx%d' % (L, (L + i) % 200) for L in lens]
        lines = ['db d0 db', 'map m0 d0 %s m B%d' % (kt, [4, 64][i % 2])]
        lines += ['put m0 61 62']                                        # one entry that stays
        for k, L in zip(keys, lens):
            lines.append('put m0 %s z%dx%d' % (k, max(0, L - 2), L % 100))
        lines += ['len m0', 'snap db']
        order = list(range(len(keys)))
        if i >= 2:
            random.Random('%s/C12fl/%d' % (ctx.seed, i)).shuffle(order)
        for j in order:
            lines.append('del m0 %s' % keys[j])
        lines += ['len m0', 'flush m0', 'snap db', 'closeall', 'snap db']
        seg2 = ['db d0 db', 'map m0 d0 %s m default' % kt, 'stats m0']
        for j in reversed(order):
            if j % 2 == i % 2:                       # one of the two slots of each class is re-used, the other stays on its free list
                seg2.append('put m0 %s z%dx%d' % (keys[j], max(0, lens[j] - 2), j % 100))
        seg2 += ['get m0 %s' % k for k in keys] + ['get m0 61', 'len m0', 'stats m0', 'closeall', 'snap db']
        pair(ctx, 'free_list_heads', i, [lines, seg2], files_oracle=True, op_timeout=60)
    import random
    parallel(free_list_heads, range(ctx.scale(2, 8)))
    dn = ['v1.0', 'img.2024', 'a.b.c', 'x.htx', 'users.v1']
    parallel(dotted, list(enumerate([(n, dn[j % len(dn)]) for j, n in enumerate(names[::3] if ctx.quick else names)])))
    # frozen hash vectors
    fv = os.path.join(gd, 'hash_vectors.txt')
    if os.path.exists(fv):
        keys = [l.split()[0] for l in open(fv)]
        want = [l.split()[1] for l in open(fv)]
        q = os.path.join(ctx.root, 'hv.txt')
        open(q, 'w').write(''.join('h %s\n' % k for k in keys))
        r = C.sh([C.HARNESS, 'conv', q], check=True)
        got = [l.split()[2] for l in r.stdout.strip().split('\n')]
        ctx.evaluations += len(keys)
        for k, a_, b_ in zip(keys, got, want):
            ctx.distinct.add('hv' + k)
            if a_ != b_:
                ctx.violation('hash_%s' % k[:16], 'placement hash of key %s is %s, the pinned release computes %s: existing files would not be found' % (k, a_, b_),
                              ['db d0 db', 'map m0 d0 bytes m B8', 'put m0 %s 01' % k, 'closeall'])
                break


def _sum(path):
    b = open(path, 'rb').read()
    return '%d:%x' % (len(b), O.csum(b))


SCENARIOS['C12'] = scen_C12


# ------------------------------------------------------------------ C13
def scen_C13(ctx):
    ctx.rule = ('L_open: all 25 ordered pairs (created as / opened as) of the five key types; for every pair of different types and each of the three '
                'files, that file alone replaced by the other type\'s; every single-byte mutation of the 16 signature bytes of each file (quick: 24 '
                'byte values per position incl. +-1, bit flips, 0, 255; thorough: all 255): the open must be rejected before any result and leave all '
                'files byte-identical; the only accepted foreign opens are the known finding (u64 <-> vu64); the matrix runs on maps holding a record and on never-written (header-only) maps; SHORT files (7..200 bytes: another type\'s file, another kind of file, or the own file with a present signature byte mutated, each cut to L bytes) must be refused without a write; distinct = distinct (scenario, case) tuples')
    kf = [k for k in C.known_findings() if k.get('property') == 'C13']
    known_pairs = {('u64', 'vu64'), ('vu64', 'u64')} if kf else set()
    lines = ['db d0 db']
    expect = [None]
    # (a) ordered pairs
    for a in G.KTS:
        lines += ['db d0 db', 'map m0 d0 %s t_%s B8' % (a, a), 'put m0 %s 0102' % G.hx(G.vu64(5)), 'closeall', 'snap db']
        expect += [None] * 5
    for a in G.KTS:
        for b in G.KTS:
            lines += ['db d0 db', 'map m0 d0 %s t_%s default' % (b, a)]
            expect += [None, ('pair', a, b)]
            lines += ['get m0 %s' % G.hx(G.vu64(5))] if a == b or (a, b) in known_pairs else []
            expect += [None] if a == b or (a, b) in known_pairs else []
            lines += ['closeall', 'snap db']
            expect += [None, ('unchanged',)]
    r = pair(ctx, 'pairs', 0, lines)
    il = r.get('impl_lines') or []
    ops = lines
    if r.get('ok'):
        base = None
        for j, (op, e) in enumerate(zip(ops, expect)):
            if j >= len(il): break
            if op == 'snap db' and e is None:
                base = il[j]
            if e and e[0] == 'pair':
                a, b = e[1], e[2]
                if a != b and il[j] == 'ok':
                    if (a, b) in known_pairs:
                        ctx.known.append('class=u64-vs-vu64-signature files created as %s open as %s (identical type signatures)' % (a, b))
                    else:
                        ctx.violation('pair_%s_%s' % (a, b), 'files created for key type %s were opened as %s without being rejected' % (a, b), ops[:j + 1])
                if a == b and il[j] != 'ok':
                    ctx.violation('pair_%s_%s' % (a, b), 'files created for key type %s cannot be opened as %s: %s' % (a, b, il[j]), ops[:j + 1])
            if e and e[0] == 'unchanged' and base and il[j] != base:
                ctx.violation('changed_%d' % j, 'an open (rejected or read-only) changed the files: before `%s` after `%s`' % (base[:200], il[j][:200]), ops[:j + 1])
    # (b) one file replaced by another type's, (c) signature byte mutations: harness only + direct oracle
    import random
    rng = random.Random('%s/C13' % ctx.seed)
    def matrix(populated):
        tag = '' if populated else '_empty'
        base = ['db d0 db'] + sum([['map m%s d0 %s t_%s B8' % (a, a, a)] + (['put m%s %s 0102' % (a, G.hx(G.vu64(5)))] if populated else []) for a in G.KTS], []) + ['closeall', 'snap db']
        cases = []
        for a in G.KTS:
            for b in G.KTS:
                if a == b or (a, b) in known_pairs: continue
                for ext in ('key', 'val', 'htx'):
                    cases.append(('foreign', a, b, ext))
        sig_bytes = {}
        for a in G.KTS:
            for ext in ('key', 'val', 'htx'):
                for pos in range(16):
                    cases.append(('mut', a, ext, pos))
        lines = list(base)
        marks = []
        sigs = {'string': b'string\0\0', 'bytes': b'bytes\0\0\0', 'i64': b'i64_le\0\0', 'u64': b'u64_le\0\0', 'vu64': b'u64_le\0\0'}
        s1 = {'key': b'abysdbK\0', 'val': b'abysdbV\0', 'htx': b'abysdbH\0'}
        for cs in cases:
            if cs[0] == 'foreign':
                _, a, b, ext = cs
                lines += ['cpfile db t_%s.%s keep.%s' % (a, ext, ext), 'cpfile db t_%s.%s t_%s.%s' % (b, ext, a, ext), 'snap db',
                          'db d0 db', 'map mx d0 %s t_%s default' % (a, a)]
                marks.append((len(lines) - 1, cs, None))
                lines += ['closeall', 'snap db', 'cpfile db keep.%s t_%s.%s' % (ext, a, ext)]
            else:
                _, a, ext, pos = cs
                orig = (s1[ext] + sigs[a])[pos]
                vals = set([(orig + 1) % 256, (orig - 1) % 256, 0, 255, orig ^ 1, orig ^ 0x20, orig ^ 0x80] + [rng.randrange(256) for _ in range(17 if populated else 3)]) if (ctx.quick or not populated) else set(range(256))
                vals.discard(orig)
                for v in sorted(vals):
                    # a mutation of a type signature into the other type of the known pair is the known finding, not a new one
                    lines += ['mutate db t_%s.%s %d %d' % (a, ext, pos, v), 'snap db', 'db d0 db', 'map mx d0 %s t_%s default' % (a, a)]
                    marks.append((len(lines) - 1, cs, v))
                    lines += ['closeall', 'snap db', 'mutate db t_%s.%s %d %d' % (a, ext, pos, orig)]
        il, ist = impl_only(lines, os.path.join(ctx.root, 'mx' + tag), op_timeout=30)
        ctx.evaluations += len(marks)
        ctx.scen_counts['foreign+mutations' + tag] = len(marks)
        for j, cs, v in marks:
            ctx.distinct.add(str((tag, cs, v)))
            if j >= len(il):
                ctx.violation('mx_crash' + tag, 'the open matrix ended with %s' % ist, lines[:j + 1]); break
            before, after = il[j - 2], il[j + 2] if j + 2 < len(il) else None
            if il[j] == 'ok' or not (il[j] == 'panic' or il[j].startswith('err')):
                ctx.violation('accepted%s_%s' % (tag, '_'.join(str(x) for x in cs)), 'open accepted files with a foreign/mutated signature: case %s value %s -> `%s`' % (cs, v, il[j]),
                              base[:-1] + lines[j - 3:j + 1]); break
            if after is not None and before != after:
                ctx.violation('rejected_open_wrote%s_%s' % (tag, '_'.join(str(x) for x in cs)), 'a rejected open changed the files: case %s value %s: before `%s` after `%s`' % (cs, v, before[:200], after[:200]),
                              base[:-1] + lines[j - 3:j + 3]); break
        if len(ctx.samples) < 6:
            ctx.samples.append({'scenario': 'mutations', 'ops': lines[len(base):len(base) + 8]})
        shutil.rmtree(os.path.join(ctx.root, 'mx' + tag), ignore_errors=True)
    # (d) SHORT files with a foreign signature: one file of a map replaced by the first L bytes of another key type's file, of
    # another kind of file (.key as .htx ...), or of its own with one of the signature bytes still present mutated.  Direct oracle
    # only (the record-level model does not model files shorter than their header): a signature byte that IS in the file and differs
    # from the expected one must make the open fail before any result, and no file may change.  A short file whose present
    # signature bytes are all right is not a foreign file and is not judged here.
    def short_files():
        base = ['db d0 db'] + sum([['map m%s d0 %s t_%s B8' % (a, a, a), 'put m%s %s 0102' % (a, G.hx(G.vu64(5)))] for a in G.KTS], []) + ['closeall', 'snap db']
        lens = [7, 8, 9, 12, 16, 17, 20, 24, 31, 32, 64, 100, 127, 128, 129, 191, 192, 200]
        lens = lens[::2] + [127] if ctx.quick else lens
        other = {'string': 'i64', 'bytes': 'string', 'i64': 'bytes', 'u64': 'string', 'vu64': 'bytes'}
        kind2 = {'key': 'htx', 'val': 'key', 'htx': 'val'}
        lines = list(base)
        marks = []
        for a in G.KTS:
            for ext in ('key', 'val', 'htx'):
                for L in lens:
                    for kind in ('type', 'kind', 'mut'):
                        pre = ['cpfile db t_%s.%s keep.%s' % (a, ext, ext)]
                        if kind == 'type':
                            if L < 9: continue          # the type signature starts at byte 8
                            pre += ['cpfile db t_%s.%s t_%s.%s' % (other[a], ext, a, ext), 'truncfile db t_%s.%s %d' % (a, ext, L)]
                        elif kind == 'kind':
                            pre += ['cpfile db t_%s.%s t_%s.%s' % (a, kind2[ext], a, ext), 'truncfile db t_%s.%s %d' % (a, ext, L)]
                        else:
                            pos = rng.randrange(min(L, 16))
                            if pos == 7: pos = 6        # byte 7 of every signature1 is NUL already
                            orig = (s1x[ext] + sigsx[a])[pos]
                            v = rng.choice([orig ^ 1, orig ^ 0x20, (orig + 1) % 256, 255 - orig if 255 - orig != orig else 1])
                            pre += ['truncfile db t_%s.%s %d' % (a, ext, L), 'mutate db t_%s.%s %d %d' % (a, ext, pos, v)]
                        lines += pre + ['snap db', 'db d0 db', 'map mx d0 %s t_%s default' % (a, a)]
                        marks.append((len(lines) - 1, (kind, a, ext, L), len(pre)))
                        lines += ['closeall', 'snap db', 'cpfile db keep.%s t_%s.%s' % (ext, a, ext)]
        il, ist = impl_only(lines, os.path.join(ctx.root, 'mxshort'), op_timeout=30)
        ctx.evaluations += len(marks)
        ctx.scen_counts['short_foreign_files'] = len(marks)
        for j, cs, npre in marks:
            ctx.distinct.add(str(('short', cs)))
            if j >= len(il):
                ctx.violation('short_crash', 'the short-file matrix ended with %s' % ist, lines[:j + 1]); break
            before, after = il[j - 2], il[j + 2] if j + 2 < len(il) else None
            rep = base[:-1] + lines[j - 2 - npre:j + 3]
            if il[j] == 'ok' or not (il[j] == 'panic' or il[j].startswith('err')):
                ctx.violation('short_accepted_%s' % '_'.join(str(x) for x in cs), 'open accepted a short file with a foreign signature (case %s: %s of key type %s cut to %d bytes): `%s`'
                              % (cs[0], cs[2], cs[1], cs[3], il[j]), rep); break
            if after is not None and before != after:
                ctx.violation('short_rejected_open_wrote_%s' % '_'.join(str(x) for x in cs), 'a rejected open changed the files: case %s: before `%s` after `%s`' % (cs, before[:200], after[:200]), rep); break
        shutil.rmtree(os.path.join(ctx.root, 'mxshort'), ignore_errors=True)
    sigsx = {'string': b'string\0\0', 'bytes': b'bytes\0\0\0', 'i64': b'i64_le\0\0', 'u64': b'u64_le\0\0', 'vu64': b'u64_le\0\0'}
    s1x = {'key': b'abysdbK\0', 'val': b'abysdbV\0', 'htx': b'abysdbH\0'}
    # maps holding a record, and maps that were created and closed without ever being written (header-only files)
    matrix(True)
    matrix(False)
    short_files()
    # rejected opens at byte level: wrong type / mutated signature byte; the REAL trace of a rejected open must show no write,
    # no set_len and no seek beyond the end, and must equal the trace of Io.open_existing event by event
    io_traces(ctx, 0, 0, 0, 0, ctx.scale(30, 240))


SCENARIOS['C13'] = scen_C13


# ------------------------------------------------------------------ C14
def scen_C14(ctx):
    ctx.rule = ('`bulk`: random histories interleaved with bulk_get (any batch, repeats allowed), bulk_delete / bulk_put / bulk_put_string (batches without '
                'repeated keys), put_from_iter (order kept, repeats allowed) and the *_string variants (valid, invalid and truncated UTF-8 values), batch sizes '
                '0..200 in arbitrary order with present and absent keys, all key types; compared with the model, whose bulk calls are proved equal to the '
                'element-wise calls; string variants are compared with lossy decoding applied to the model\'s bytes (a test); distinct = distinct op files')

    def one(i):
        g = G.G(ctx.seed, 'C14', i)
        r = g.rng
        kt = G.KTS[i % 5]
        ks = g.key_universe(kt, r.choice([6, 20, 80, 250]))
        utf = ['', 'a', 'héllo', '日本語', 'x' * 13, 'é' * 6]
        raw = [b'\xff', b'\xc3', b'ab\xc3', b'\xe6\x97', b'a\x80b', b'\xf0\x9f\x98', b'\xed\xa0\x80', b'ok\xc3\xa9\xff\xfe']
        lines = ['db d0 db', 'map m0 d0 %s m %s' % (kt, g.params(bufs=False))]
        strs = (i % 2 == 1)      # string variants: every value stays <= 40 bytes so that the lossy decoding can be recomputed from the model's bytes
        vmax = 40 if strs else 300
        for _ in range(ctx.scale(25, 80)):
            lines += g.hist(kt, r.randrange(0, 12), keys=ks, big=0.0, maxlen=vmax)
            c = r.random() * (1.0 if strs else 0.7)
            bs = r.choice([0, 1, 2, 5, 17, 60, 200])
            if c < 0.25:
                sel = [r.choice(ks) for _ in range(bs)]
                lines.append(('bulkget m0 ' + ','.join(G.hx(k) for k in sel)).strip())
            elif c < 0.40:
                sel = r.sample(ks, min(bs, len(ks)))
                lines.append(('bulkdel m0 ' + ','.join(G.hx(k) for k in sel)).strip())
            elif c < 0.60:
                sel = r.sample(ks, min(bs, len(ks)))
                lines.append(('bulkput m0 ' + ','.join('%s:%s' % (G.hx(k), g.value_token(0.0, min(200, vmax))) for k in sel)).strip())
            elif c < 0.70:
                sel = [r.choice(ks) for _ in range(bs)]
                lines.append(('putiter m0 ' + ','.join('%s:%s' % (G.hx(k), g.value_token(0.0, min(100, vmax))) for k in sel)).strip())
            elif c < 0.78:
                sel = r.sample(ks, min(bs, len(ks)))
                lines.append(('bulkputstr m0 ' + ','.join('%s:%s' % (G.hx(k), G.hx(r.choice(utf).encode())) for k in sel)).strip())
            elif c < 0.84:
                k = r.choice(ks)
                lines += ['put m0 %s %s' % (G.hx(k), G.hx(r.choice(raw + [u.encode() for u in utf]))), 'getstr m0 %s' % G.hx(k)]
            elif c < 0.88:
                k = r.choice(ks)
                lines += ['putstr m0 %s %s' % (G.hx(k), G.hx(r.choice(utf).encode())), 'getstr m0 %s' % G.hx(k), 'get m0 %s' % G.hx(k)]
            elif c < 0.92:
                for k in r.sample(ks, min(3, len(ks))):
                    lines.append('put m0 %s %s' % (G.hx(k), G.hx(r.choice(raw))))
                sel = [r.choice(ks) for _ in range(min(bs, 20))]
                lines.append(('bulkgetstr m0 ' + ','.join(G.hx(k) for k in sel)).strip())
            elif c < 0.96:
                sel = r.sample(ks, min(bs, len(ks), 20))
                lines.append(('bulkdelstr m0 ' + ','.join(G.hx(k) for k in sel)).strip())
            else:
                lines.append('delstr m0 %s' % G.hx(r.choice(ks)))
            g.count(lines[-1].split()[0])
        # the order of traversal is not part of this property: read every key instead of comparing item sequences
        lines += ['len m0'] + ['get m0 %s' % G.hx(k) for k in ks] + ['closeall']
        pair(ctx, 'bulk', i, lines, stats=g.stats)
    parallel(one, range(ctx.scale(70, 500)))

    # the std function the *_string variants compose with: String::from_utf8_lossy (crate side) vs Utf8.lossy (model) vs Python's
    # 'replace' decoder (used above to post-process the model's bytes), EXHAUSTIVELY on all byte strings of length <= 2 and on all
    # 3- and 4-byte strings built from one representative per byte class, plus seeded random strings up to 12 bytes
    import random, itertools
    rng = random.Random('%s/C14lossy' % ctx.seed)
    reps = [0x00, 0x41, 0x7f, 0x80, 0x8f, 0x90, 0x9f, 0xa0, 0xbf, 0xc0, 0xc1, 0xc2, 0xdf, 0xe0, 0xe1, 0xec, 0xed, 0xee, 0xef, 0xf0, 0xf1, 0xf3, 0xf4, 0xf5, 0xff]
    strs = [b''] + [bytes([a]) for a in range(256)] + [bytes([a, b]) for a in range(256) for b in range(256)]
    strs += [bytes(t) for t in itertools.product(reps, repeat=3)]
    if not ctx.quick:
        strs += [bytes(t) for t in itertools.product(reps, repeat=4)]
    strs += [bytes(rng.choice(reps + [rng.randrange(256)]) for _ in range(rng.randrange(3, 13))) for _ in range(ctx.scale(3000, 100000))]
    f = os.path.join(ctx.root, 'lossy.txt')
    open(f, 'w').write(''.join((b.hex() or '-') + '\n' for b in strs))
    ri = C.sh([C.HARNESS, 'lossy', f], timeout=1200)
    rm = C.sh(['bash', '-c', 'ulimit -s unlimited 2>/dev/null; exec "$0" lossy "$1"', C.DRIVER, f], timeout=1200)
    il, ml = ri.stdout.split('\n'), rm.stdout.split('\n')
    ctx.evaluations += len(strs)
    ctx.scen_counts['lossy_strings'] = len(strs)
    for j, b in enumerate(strs):
        py = b.decode('utf-8', errors='replace').encode('utf-8').hex() or '-'
        a_ = il[j].split()[1] if j < len(il) and len(il[j].split()) == 2 else 'MISSING'
        m_ = ml[j].split()[1] if j < len(ml) and len(ml[j].split()) == 2 else 'MISSING'
        if a_ != m_ or a_ != py:
            ctx.disagreements += 1
            ctx.violation('lossy_%s' % (b.hex() or 'empty'), 'String::from_utf8_lossy(%s): crate side `%s`, model Utf8.lossy `%s`, Python decoder `%s`: the lossy decoding used to '
                          'compare the *_string variants is not the one the crate performs (a correspondence of the test machinery, no failing input of the crate)'
                          % (b.hex(), a_, m_, py), None, found=False)
            break


SCENARIOS['C14'] = scen_C14


# ------------------------------------------------------------------ C15
def scen_C15(ctx):
    ctx.rule = ('`readonly`: every state class reached by an update history (all key types, tables of 1..4096 buckets) is closed and checksummed; then a '
                'session of only read-only calls (get/includes_key/len/is_empty/bulk_get incl. absent keys, all seven traversals, all statistics, '
                'read_fill_buffer, flush/sync on the unmodified map) runs and the files are checksummed again after close: both must be identical '
                '(direct byte oracle) and equal to the model image, whose read operations provably leave the state unchanged; distinct = distinct op files')

    def one(i):
        g = G.G(ctx.seed, 'C15', i)
        kt = G.KTS[i % 5]
        ks = g.key_universe(kt, g.rng.choice([1, 4, 12, 40]))
        p = g.params()
        lines = ['db d0 db', 'map m0 d0 %s m %s' % (kt, p)] + g.hist(kt, g.rng.randrange(0, ctx.scale(150, 600)), keys=ks, big=0.03, reads=0.05) + ['closeall', 'snap db']
        a = len(lines) - 1
        lines += ['db d0 db', 'map m0 d0 %s m %s' % (kt, g.params())] + g.read_only_session(kt, ks, n=ctx.scale(25, 80)) + ['closeall', 'snap db']
        b = len(lines) - 1
        r = pair(ctx, 'readonly', i, lines, stats=g.stats, oracle=readonly_oracle)
        il = r.get('impl_lines') or []
        if len(il) > b and il[a].startswith('snap') and il[b].startswith('snap') and il[a] != il[b]:
            ctx.violation('readonly_bytes_%d' % i, 'the files differ before and after a read-only session: `%s` vs `%s`' % (il[a][:200], il[b][:200]), lines)
    parallel(one, range(ctx.scale(80, 600)))

    # `small_records`: many short keys with one-byte values (all key and value pieces in the smallest size class, the value file
    # smaller than the key file), several of them deleted so that free lists of one class hold two and more pieces; then the
    # read-only session with every statistics call.  (seeded change C15k: a statistics walker decoded the free-list link of a
    # free key piece as a value offset and sought there - beyond the end of the small value file, which grew)
    def small_records(i):
        g = G.G(ctx.seed, 'C15s', i)
        r = g.rng
        kt = G.KTS[i % 5]
        ks = g.key_universe(kt, r.choice([20, 30, 45]))
        lines = ['db d0 db', 'map m0 d0 %s m %s' % (kt, g.params(n=r.choice([4, 64, 256])))]
        lines += ['put m0 %s %02x' % (G.hx(k), j % 200) for j, k in enumerate(ks)]
        dels = r.sample(ks, r.randrange(2, 8))
        lines += ['del m0 %s' % G.hx(k) for k in dels] + ['closeall', 'snap db']
        a = len(lines) - 1
        lines += ['db d0 db', 'map m0 d0 %s m %s' % (kt, g.params())] + g.read_only_session(kt, ks, n=ctx.scale(12, 40)) + ['stats m0', 'closeall', 'snap db']
        b = len(lines) - 1
        rr = pair(ctx, 'small_records', i, lines, stats=g.stats, oracle=readonly_oracle)
        il = rr.get('impl_lines') or []
        if len(il) > b and il[a].startswith('snap') and il[b].startswith('snap') and il[a] != il[b]:
            ctx.violation('small_records_bytes_%d' % i, 'the files differ before and after a read-only session: `%s` vs `%s`' % (il[a][:200], il[b][:200]), lines)
    parallel(small_records, range(ctx.scale(15, 90)))
    # read-only calls at byte level: no write, no set_len, no seek beyond the end of a file in the REAL trace of any read-only call
    io_traces(ctx, ctx.scale(30, 300), ctx.scale(2, 12), ctx.scale(4, 30), ctx.scale(10, 80))


UPDATING = ('put', 'del', 'bulkput', 'bulkdel', 'putiter', 'putstr', 'delstr', 'bulkdelstr', 'bulkputstr', 'putint', 'delint', 'mutate', 'cpfile', 'truncfile', 'writefile')


def readonly_oracle(segments, workdir, release=False):
    """the property statement of C15 on the implementation alone: the ideal maps (api_oracle), and the three files of every map are
    byte for byte the same at two closes (`closeall; snap`) between which no updating call was made."""
    v = api_oracle(segments, workdir, release)
    if v:
        return v
    if segments and not isinstance(segments[0], list):
        segments = [segments]
    il, ist = impl_only(segments, os.path.join(workdir, 'ro'), release)
    ops = [l for seg in segments for l in seg if l.strip() and not l.startswith('#')]
    last = None
    for j, op in enumerate(ops[:len(il)]):
        k = op.split()[0]
        if k in UPDATING:
            last = None
        elif k == 'snap' and j > 0 and ops[j - 1].split()[0] == 'closeall':
            if last is not None and il[last] != il[j]:
                return ('the files differ before and after a session of read-only calls only: op %d `%s` vs op %d `%s`'
                        % (last, il[last][:200], j, il[j][:200]))
            last = j
    return None


SCENARIOS['C15'] = scen_C15


# ------------------------------------------------------------------ C16
def scen_C16(ctx):
    ctx.rule = ('`fault`: a random history leaves unflushed updates; RLIMIT_FSIZE (SIGXFSZ ignored) is lowered to each threshold of a ladder from 0 to beyond '
                'the largest file (so that each of the three files and each chunk is in turn the first refused write), flush/sync_all/sync_data is '
                'called, the limit is lifted, everything is read back (memory view must equal the ideal map), a second flush must succeed and the '
                'files must then equal the model image byte for byte; an Ok under the limit must mean the snapshot is complete (checked with a snap '
                'right after); an error when every file fits below the limit is flagged; `table first`: small key and value files with a 2048/8192-bucket table and a limit between them, so that the table file - the last one written - is the first refused write of flush, sync_all and sync_data each; `key first`: long keys, one-byte values, a small table and a limit between the value and the key file, so that the key file - the second one written - is the first refused write of each call; `db level`: FileDb::sync_all/sync_data over three maps of which one (visited neither first nor last) is refused: the error must be reported, the map stay dirty, and the call succeed after the limit is lifted; L_cache class fault: real rabuf under a file-size limit switched on and off in the middle of random call sequences vs the model Cache_fault.v, line by line (the state a refused call leaves, the file the OS sees, the recovery flush); distinct = distinct (history, threshold) pairs')
    ladder = [0, 1, 100, 128, 129, 192, 193, 200, 256, 400, 1000, 2000, 4095, 4096, 4097, 5000, 8192, 8193, 12288, 16384, 20000, 40000, 100000,
              131071, 131072, 131073, 200000, 262144, 300000, 1 << 20, 1 << 24]

    SYNCS = ('flush', 'syncall', 'syncdata', 'dbsyncall', 'dbsyncdata')
    UPD = ('put', 'del', 'bulkput', 'bulkdel', 'putiter', 'putstr', 'delstr', 'bulkdelstr', 'putint', 'delint')

    def c16_oracle(segments, workdir, release=False):
        """the property statement on the implementation alone: the ideal maps (api_oracle), and: a flush/sync that answers Ok under
        a file-size limit has made everything durable - the files right after it are already the files after the next successful
        flush/sync when no update lies between the two (that second call has nothing left to write)."""
        v = api_oracle(segments, workdir, release)
        if v:
            return v
        il, ist = impl_only(segments, os.path.join(workdir, 'c16'), release)
        ops = [l for seg in segments for l in seg if l.strip() and not l.startswith('#')]
        limited, ok_at, snap_then = False, None, None
        for j, op in enumerate(ops[:len(il)]):
            k = op.split()[0]
            if k == 'limit': limited = True
            elif k == 'unlimit': limited = False
            elif k in UPD or k in ('closeall', 'map', 'db'):
                ok_at = snap_then = None
            elif k in SYNCS:
                if limited and il[j] == 'ok':
                    ok_at, snap_then = j, None
                elif not limited and il[j] == 'ok' and ok_at is not None and snap_then is not None:
                    nxt = next((x for x in range(j + 1, len(il)) if ops[x].split()[0] == 'snap'), None)
                    if nxt is not None and il[nxt] != il[snap_then] and not any(ops[x].split()[0] in UPD for x in range(j, nxt)):
                        return ('op %d `%s` under the file-size limit returned Ok, but the files right after it (op %d: `%s`) are not the files after the '
                                'next successful `%s` (op %d: `%s`) although no update lies between: the Ok was given before everything was written'
                                % (ok_at, ops[ok_at], snap_then, il[snap_then][:200], ops[j], nxt, il[nxt][:200]))
                    ok_at = snap_then = None
            elif k == 'snap' and ok_at is not None and snap_then is None:
                snap_then = j
        return None

    def one(a):
        i, h, L = a[:3]
        g = G.G(ctx.seed, 'C16', h)
        kt = G.KTS[h % 5]
        ks = g.key_universe(kt, 8)
        sy = ['flush', 'syncall', 'syncdata'][i % 3]
        big = 0.15 if h % 2 else 0.0
        if len(a) > 3:
            # `table first`: small key and value files, a table file larger than the limit, so that the TABLE file is the
            # first (and only) refused write of each of the three calls (the files are written in the order val, key, htx)
            sy, n = a[3], a[4]
            pre = ['db d0 db', 'map m0 d0 %s m %s' % (kt, g.params(n=n))] + g.hist(kt, 12, keys=ks, big=0.0, reads=0.0)
        else:
            pre = ['db d0 db', 'map m0 d0 %s m %s' % (kt, g.params(n=g.rng.choice([1, 8, 64, 2048, 8192])))] + g.hist(kt, ctx.scale(40, 150), keys=ks, big=big, reads=0.05)
        if h % 3 == 0:
            pre += ['flush m0'] + g.hist(kt, 10, keys=ks, big=big, reads=0.0)      # some chunks already clean
        # after the limit is lifted the same call must succeed and make everything durable: the files are checksummed and
        # the directory is copied while the handles are alive; the copy is opened and read completely at the end
        lines = pre + ['limit %d' % L, '%s m0' % sy, 'dirty m0', 'snap db', 'unlimit'] + ['get m0 %s' % G.hx(k) for k in ks] + ['len m0', 'iter m0 iter',
                 '%s m0' % sy, 'snap db', 'cpdir db c1'] + g.hist(kt, 10, keys=ks, big=0.0) + ['flush m0', 'snap db', 'closeall', 'snap db'] + \
                ['db dc c1', 'map mc dc %s m default' % kt] + ['get mc %s' % G.hx(k) for k in ks] + ['len mc', 'closeall']
        r = pair(ctx, 'fault', i, lines, stats=g.stats if i % 4 == 0 else None, oracle=c16_oracle)
        il = r.get('impl_lines') or []
        if r.get('ok') and len(il) == len(lines):
            j = len(pre) + 1
            res = il[j]
            final = il[lines.index('closeall') + 1]
            maxlen = max(int(x.split('=')[1].split(':')[0]) for x in final.split()[1:])
            ctx.distribution.setdefault('flush_under_limit', {})
            key = 'err' if res.startswith('err') else 'ok'
            ctx.distribution['flush_under_limit'][key] = ctx.distribution['flush_under_limit'].get(key, 0) + 1
            flag = il[j + 1]
            if res.startswith('err') and flag != 'true':
                ctx.violation('fault_flag_%d' % i, '%s under the file-size limit returned `%s` but the map reports is_dirty() = %s: the next flush would have nothing to do and the '
                              'unwritten updates would never become durable' % (sy, res, flag), lines[:j + 2])
            rec = il[len(pre) + 5 + len(ks) + 2]
            if rec != 'ok':
                ctx.violation('fault_recovery_%d' % i, 'after the file-size limit was lifted, %s still returns `%s`' % (sy, rec), lines)
    cases = []
    nh = ctx.scale(6, 40)
    for h in range(nh):
        for L in (ladder if not ctx.quick else ladder[h % 2::2]):
            cases.append((len(cases), h, L))
    # `db level`: FileDb::sync_all / sync_data walk every open map; one map whose value file lies beyond the limit and has unwritten
    # updates there (the refused one), other maps that sync fine, visited before AND after it: the call must report the error,
    # the refused map must stay dirty, and after the limit is lifted the same call must make everything durable
    def dblevel(j):
        sy = ['dbsyncdata', 'dbsyncall'][j % 2]
        types = [('bytes', 'string', 'u64'), ('string', 'bytes', 'vu64'), ('i64', 'bytes', 'vu64'), ('bytes', 'bytes', 'bytes')][(j // 2) % 4]
        big_kt, s1_kt, s2_kt = types
        g = G.G(ctx.seed, 'C16db', j)
        kb = g.key_universe(big_kt, 24)
        k1 = g.key_universe(s1_kt, 3)
        k2 = g.key_universe(s2_kt, 3)
        # names chosen so that within one registry the refused map is neither first nor last
        lines = ['db d0 db', 'map mb d0 %s m_big B64,VS1048576,KP1000,HP1000' % big_kt, 'map m1 d0 %s a_small B8' % s1_kt, 'map m2 d0 %s z_small B8' % s2_kt]
        lines += ['put mb %s z1000x%d' % (G.hx(k), n) for n, k in enumerate(kb)] + ['put m1 %s 01' % G.hx(k) for k in k1] + ['put m2 %s 02' % G.hx(k) for k in k2]
        lines += ['%s d0' % sy]
        lines += ['put mb %s z1000x%d' % (G.hx(k), n + 100) for n, k in enumerate(kb)] + ['put m1 %s 0303' % G.hx(k1[0]), 'put m2 %s 0404' % G.hx(k2[0])]
        at = len(lines)
        lines += ['limit 8192', '%s d0' % sy, 'dirty mb', 'unlimit'] + ['get mb %s' % G.hx(k) for k in kb[:6]] + ['get m1 %s' % G.hx(k1[0]), 'get m2 %s' % G.hx(k2[0])]
        lines += ['%s d0' % sy, 'snap db', 'cpdir db c1', 'closeall', 'snap db', 'db dc c1', 'map mc dc %s m_big default' % big_kt] + ['get mc %s' % G.hx(k) for k in kb] + ['len mc', 'closeall']
        r = pair(ctx, 'db_level', j, lines, oracle=c16_oracle)
        il = r.get('impl_lines') or []
        if r.get('ok') and len(il) == len(lines):
            if not il[at + 1].startswith('err'):
                ctx.violation('db_level_report_%d' % j, '%s under a file-size limit of 8192 bytes returned `%s` although the value file of map m_big (24 values of 1000 bytes, all '
                              'rewritten since the last sync) lies beyond the limit; is_dirty(m_big) = %s' % (sy, il[at + 1], il[at + 2]), lines[:at + 3])
            elif il[at + 2] != 'true':
                ctx.violation('db_level_flag_%d' % j, '%s failed (`%s`) but map m_big reports is_dirty() = %s' % (sy, il[at + 1], il[at + 2]), lines[:at + 3])
            elif il[at + 4 + 8] != 'ok':
                ctx.violation('db_level_recovery_%d' % j, 'after the limit was lifted %s still returns `%s`' % (sy, il[at + 12]), lines)
    parallel(dblevel, range(ctx.scale(8, 32)))

    # `key first`: long keys and one-byte values under a small table, and a limit between the value file and the key file: the KEY
    # file - written second - is the first and only refused write of flush, sync_all and sync_data each.  The error must be
    # reported, the map stay dirty, and the same call succeed and complete the files once the limit is lifted.
    # (seeded change C16j: the key file's sync_all swallowed every error kind but three - EFBIG was not among them)
    def keyfirst(j):
        sy = ['syncall', 'flush', 'syncdata'][j % 3]
        kt = ['bytes', 'string'][(j // 3) % 2]
        L = [8192, 20000, 5000, 12288][(j // 3) % 4]
        nk = 150
        keys = ['z%dx%d' % (200 + (n * 7 + j) % 90, n) for n in range(nk)]
        lines = ['db d0 db', 'map m0 d0 %s m B%d' % (kt, [8, 64][j % 2])]
        lines += ['put m0 %s %02x' % (k, n % 251) for n, k in enumerate(keys)]
        if j % 4 == 1:
            lines += ['flush m0'] + ['put m0 %s %02x' % (k, (n + 1) % 251) for n, k in enumerate(keys) if n % 3 == 0] + ['del m0 %s' % keys[1], 'put m0 %s 77' % ('z260x%d' % (nk + 1))]
        at = len(lines)
        lines += ['limit %d' % L, '%s m0' % sy, 'dirty m0', 'snap db', 'unlimit'] + ['get m0 %s' % k for k in keys[:8]] + ['len m0']
        lines += ['%s m0' % sy, 'snap db', 'cpdir db c1', 'closeall', 'snap db', 'db dc c1', 'map mc dc %s m default' % kt] + ['get mc %s' % k for k in keys[::10]] + ['len mc', 'closeall']
        r = pair(ctx, 'key_first', j, lines, oracle=c16_oracle)
        il = r.get('impl_lines') or []
        if r.get('ok') and len(il) == len(lines):
            if not il[at + 1].startswith('err'):
                ctx.violation('key_first_report_%d' % j, '%s under a file-size limit of %d bytes returned `%s` although the key file (%d keys of 200..290 bytes, all unwritten) lies '
                              'beyond the limit; is_dirty = %s' % (sy, L, il[at + 1], nk, il[at + 2]), lines[:at + 4])
            elif il[at + 2] != 'true':
                ctx.violation('key_first_flag_%d' % j, '%s failed (`%s`) but the map reports is_dirty() = %s' % (sy, il[at + 1], il[at + 2]), lines[:at + 4])
            elif il[at + 5 + 8 + 1] != 'ok':
                ctx.violation('key_first_recovery_%d' % j, 'after the limit was lifted %s still returns `%s`' % (sy, il[at + 14]), lines)
    parallel(keyfirst, range(ctx.scale(6, 24)))
    for sy in ('flush', 'syncall', 'syncdata'):
        for n, Ls in ((2048, (6000, 12288, 16700)), (8192, (8192, 40000, 66600))):
            for L in (Ls if not ctx.quick else Ls[1:]):
                cases.append((len(cases), 100 + len(cases) % 7, L, sy, n))
    parallel(one, cases)
    # the buffer itself under a refused write: real rabuf vs Cache_fault.v (what a refused call leaves, what the recovery flush writes)
    import scen_cache as SC
    SC.scen_cache(ctx, 0, 0, ctx.scale(80, 800), probes=False)


SCENARIOS['C16'] = scen_C16


# ------------------------------------------------------------------ C18
def scen_C18(ctx):
    ctx.rule = ('each random update history is executed twice by the implementation: run A in one process and directory; run B in a new process and another '
                'directory with random read-only calls (lookups incl. absent keys, traversals, statistics, flush) spliced in; the three files after close '
                'must be byte-identical between A and B (direct oracle) and equal to the model image, which is a function of the update history by '
                'construction and provably insensitive to read-only calls; distinct = distinct op files')

    def one(i):
        g = G.G(ctx.seed, 'C18', i)
        r = g.rng
        kt = G.KTS[i % 5]
        ks = g.key_universe(kt, r.choice([3, 10, 30]))
        p = g.params()
        upd = g.hist(kt, ctx.scale(120, 500), keys=ks, big=0.03, reads=0.0)
        # every updating call of the API belongs to "the update history": bulk_put / bulk_delete / put_from_iter batches too
        for _ in range(r.randrange(2, 7)):
            sel = r.sample(ks, min(len(ks), r.choice([2, 5, 12])))
            c = r.random()
            if c < 0.5:
                op = 'bulkput m0 ' + ','.join('%s:%s' % (G.hx(k), g.value_token(0.0, 200)) for k in sel)
            elif c < 0.75:
                op = 'putiter m0 ' + ','.join('%s:%s' % (G.hx(k), g.value_token(0.0, 100)) for k in sel)
            else:
                op = 'bulkdel m0 ' + ','.join(G.hx(k) for k in sel)
            upd.insert(r.randrange(len(upd) + 1), op)
            g.count(op.split()[0])
        a = ['db d0 dirA', 'map m0 d0 %s m %s' % (kt, p)] + upd + ['closeall', 'snap dirA']
        b = ['db d0 dirB', 'map m0 d0 %s m %s' % (kt, p)]
        for u in upd:
            if r.random() < 0.3:
                b += g.read_only_session(kt, ks, n=r.randrange(1, 4))
            b.append(u)
        b += ['closeall', 'snap dirB']
        res = pair(ctx, 'twice', i, [a, b], stats=g.stats, oracle=twice_oracle)
        il = res.get('impl_lines') or []
        if res.get('ok') and len(il) == len(a) + len(b):
            if il[len(a) - 1].split()[1:] != il[-1].split()[1:]:
                ctx.violation('twice_%d' % i, 'two executions of the same update history left different files: run A `%s`, run B (new process, read-only calls spliced in) `%s`'
                              % (il[len(a) - 1][:200], il[-1][:200]), a + ['# --- process 1 ---'] + b)
    parallel(one, range(ctx.scale(60, 400)))
    io_traces(ctx, ctx.scale(10, 100), ctx.scale(1, 6), ctx.scale(2, 20), ctx.scale(8, 60))


def twice_oracle(segments, workdir, release=False):
    """the property statement itself: run A and run B (new process, other directory, read-only calls spliced in) must leave
    byte-identical files; also repeated a few times, since run-to-run nondeterminism need not show on the first pair"""
    v = api_oracle(segments, workdir, release, files=False)
    if v:
        return v
    if len(segments) < 2:
        return None
    for attempt in range(3):
        il, ist = impl_only(segments, workdir, release)
        ops = [l for seg in segments for l in seg if l.strip() and not l.startswith('#')]
        snaps = [il[j].split()[1:] for j, op in enumerate(ops) if op.split()[0] == 'snap' and j < len(il)]
        if len(snaps) >= 2 and snaps[0] != snaps[-1]:
            return 'two executions of the same update history left different files: run A `%s`, run B `%s`' % (' '.join(snaps[0])[:200], ' '.join(snaps[-1])[:200])
    return None


SCENARIOS['C18'] = scen_C18
