#!/usr/bin/env python3
"""Per-property correspondence scenarios, direct oracles and proof bookkeeping."""
import os, sys, re, json, shutil, time, subprocess, hashlib
from concurrent.futures import ThreadPoolExecutor
sys.path.insert(0, os.path.dirname(__file__))
import common as C
import gen as G
import oracle as O

TRUSTED_BASE = [
    'Coq 8.16.1 kernel via coqc (full .vo builds), including its VM (vm_compute); no native_compute',
    'std++ 1.8.0 and the Coq standard library (axioms, if any, as listed per theorem under assumptions_reported)',
    'hand-written Gallina model of the crate (coq/theories/*.v, definitions), tied to /repo by the regenerated '
    'coq/gen/Consts.v + Hash_vectors.v and by the differential runs counted in this file',
    'extraction with ExtrOcamlBasic only (bool, option, unit, list, prod, sumbool, sumor to OCaml types; andb/orb inlined), '
    'ocamlfind ocamlopt 4.13.1, ocaml/driver.ml (parser/printer) - used for the correspondence and oracles only',
    'the Rust runner /verif/harness (maps API calls, panics, hangs to canonical lines) and lib/*.py (generator, diff, shrinker)',
    'the layout-probe and io-trace hooks in /repo (cfg abyssiniandb_verif)',
    'modelled, not verified: rabuf 0.1.20 and vu64 0.1.11 (dependencies), the OS and file system, Rc/RefCell glue',
]
LEVEL = {}
ASSUMPTIONS = {}
EXPLANATION = {}
NEEDS_RELEASE = set()
SCENARIOS = {}


class Ctx:
    def __init__(self, pid, tier, seed):
        self.pid, self.tier, self.seed = pid, tier, seed
        self.evaluations = 0
        self.distinct = set()
        self.samples = []
        self.disagreements = 0
        self.violations = []
        self.known = []
        self.distribution = {}
        self.scen_counts = {}
        self.rule = ''
        self.proof = None
        self.root = os.path.join(C.WORK, pid)
        shutil.rmtree(self.root, ignore_errors=True)
        os.makedirs(self.root, exist_ok=True)
        os.makedirs(C.REPLAYS, exist_ok=True)
        self.quick = tier != 'thorough'

    def scale(self, q, t):
        return q if self.quick else t

    def merge_stats(self, st):
        for k, d in st.items():
            tgt = self.distribution.setdefault(k, {})
            for a, b in d.items():
                tgt[str(a)] = tgt.get(str(a), 0) + b

    def violation(self, name, text, ops, found=True):
        """records a violation; writes the replay file"""
        path = os.path.join(C.REPLAYS, '%s-%s-%s.ops' % (self.pid, self.seed, re.sub(r'[^A-Za-z0-9_]+', '_', name)))
        with open(path, 'w') as f:
            for l in text.split('\n'):
                f.write('# ' + l + '\n')
            if ops:
                f.write('\n'.join(ops) + '\n')
        line = 'VIOLATION property=%s replay=%s' % (self.pid, path)
        if not found:
            line += ' no-failing-input-found'
        if line not in self.violations:
            self.violations.append(line)
        return path


# ------------------------------------------------------------------ proofs
def thm_names(path):
    src = open(path).read()
    return re.findall(r'^(?:Theorem|Lemma|Corollary|Example|Proposition)\s+([A-Za-z0-9_\']+)', src, re.M)


def deps_of(vfile):
    """transitive .v dependencies inside the project, from coqdep"""
    r = C.sh(['coqdep', '-f', '_CoqProject', '-sort'] , cwd=C.COQ)
    # simple approach: parse the Makefile dependency file
    dep = {}
    r = C.sh(['coqdep', '-f', '_CoqProject'], cwd=C.COQ)
    for l in r.stdout.split('\n'):
        if ':' not in l: continue
        lhs, rhs = l.split(':', 1)
        tg = [x for x in lhs.split() if x.endswith('.vo')]
        if not tg: continue
        ds = [x[:-1] for x in rhs.split() if x.endswith('.vo') and not x.startswith('/')]
        dep[tg[0][:-1]] = ds
    seen = set()
    todo = [vfile]
    while todo:
        x = todo.pop()
        if x in seen: continue
        seen.add(x)
        todo += dep.get(x, [])
    return sorted(seen)


def proofs(ctx):
    """make the property's theorem file (+ Pins), report assumptions; never raises on proof failure"""
    pid = ctx.pid
    vf = 'Props/%s.v' % pid
    res = {'ok': True, 'obligations': 0, 'discharged': 0, 'theorems': [], 'assumptions': {}, 'log': ''}
    bad = C.grep_forbidden()
    if bad:
        res.update(ok=False, log='forbidden constructs in the development: ' + '; '.join(bad))
        return res
    if not os.path.exists(os.path.join(C.COQ, vf)):
        res.update(ok=False, log='no theorem file ' + vf)
        return res
    targets = [vf + 'o']
    if os.path.exists(os.path.join(C.COQ, 'Pins.v')):
        targets.append('Pins.vo')
    t0 = time.time()
    ok, lg = C.coq_make(targets)
    deps = deps_of(vf)
    nob = sum(len(thm_names(os.path.join(C.COQ, d))) for d in deps if os.path.exists(os.path.join(C.COQ, d)))
    res['obligations'] = nob
    res['deps'] = deps
    if not ok:
        # count what did compile
        done = sum(len(thm_names(os.path.join(C.COQ, d))) for d in deps if os.path.exists(os.path.join(C.COQ, d + 'o')))
        m = re.findall(r'File "([^"]+)", line (\d+)[^\n]*\n((?:.*\n){0,8})', lg)
        res.update(ok=False, discharged=done, log='make failed: ' + (('%s line %s: %s' % (m[0][0], m[0][1], m[0][2][:500])) if m else lg[-800:]))
        return res
    res['discharged'] = nob
    names = thm_names(os.path.join(C.COQ, vf))
    res['theorems'] = names
    # Print Assumptions, always executed (the .vo may be cached)
    q = os.path.join(C.BUILD, 'assume_%s.v' % pid)
    with open(q, 'w') as f:
        f.write('From Aby.Props Require Import %s.\n' % pid)
        for n in names:
            f.write('Print Assumptions %s.\n' % n)
    r = C.sh(['timeout', '600', 'coqc', '-Q', 'gen', 'Aby', '-Q', 'theories', 'Aby', '-Q', 'Props', 'Aby.Props', q], cwd=C.COQ)
    for junk in ('.vo', '.glob', '.vok', '.vos'):
        try: os.remove(q[:-2] + junk)
        except OSError: pass
    try: os.remove(os.path.join(C.BUILD, '.assume_%s.aux' % pid))
    except OSError: pass
    if r.returncode != 0:
        res.update(ok=False, log='Print Assumptions failed: ' + (r.stdout + r.stderr)[-800:])
        return res
    blocks = [b.strip() for b in re.split(r'\n(?=Closed under|Axioms:)', '\n' + r.stdout) if b.strip()]
    allow = ALLOWED_AXIOMS
    for n, b in zip(names, blocks):
        if b.startswith('Closed under the global context'):
            res['assumptions'][n] = 'Closed under the global context'
        else:
            axs = re.findall(r'^([A-Za-z0-9_.\']+)\s*:', b, re.M)
            res['assumptions'][n] = axs
            extra = [a for a in axs if a.split('.')[-1] not in allow]
            if extra:
                res.update(ok=False, log='theorem %s depends on axioms outside the allowlist: %s' % (n, extra))
    if len(blocks) != len(names):
        res.update(ok=False, log='could not match Print Assumptions output to theorems (%d vs %d)' % (len(blocks), len(names)))
    res['make_s'] = round(time.time() - t0, 1)
    return res


# axioms of the standard library that may appear (named in DESIGN.md section 8); none is expected
ALLOWED_AXIOMS = {'functional_extensionality_dep', 'proof_irrelevance', 'classic', 'JMeq_eq', 'propositional_extensionality',
                  'constructive_definite_description', 'excluded_middle_informative'}


# ------------------------------------------------------------------ paired runs
def pair(ctx, scen, idx, lines, stats=None, release=False, oracle=None, files_oracle=False, op_timeout=20):
    """one correspondence case. on disagreement: shrink, direct oracle, record the violation."""
    d = os.path.join(ctx.root, '%s_%s' % (scen, idx))
    os.makedirs(d, exist_ok=True)
    opsfile = os.path.join(d, 'case.ops')
    C.write_ops(opsfile, lines)
    r = C.compare(opsfile, os.path.join(d, 'w'), release=release, op_timeout=op_timeout)
    ctx.evaluations += 1
    ctx.scen_counts[scen] = ctx.scen_counts.get(scen, 0) + 1
    h = hashlib.sha1('\n'.join(lines).encode()).hexdigest()
    if len(lines) >= 4:
        ctx.distinct.add(h)
    if len(ctx.samples) < 6 and idx % 7 == 0:
        ctx.samples.append({'scenario': scen, 'index': idx, 'ops': lines[:12] + (['... (%d ops)' % len(lines)] if len(lines) > 12 else [])})
    if stats:
        ctx.merge_stats(stats)
    extra_problem = None
    if r['ok'] and files_oracle:
        # structural oracle on the real files left behind (closed)
        for sub in sorted(os.listdir(os.path.join(d, 'w', 'impl'))) if os.path.isdir(os.path.join(d, 'w', 'impl')) else []:
            p = os.path.join(d, 'w', 'impl', sub)
            if os.path.isdir(p):
                probs, _ = O.files_ok(p)
                if probs:
                    extra_problem = 'independent decoder on %s: %s' % (sub, '; '.join(probs[:4]))
                    break
    if r['ok'] and not extra_problem:
        shutil.rmtree(d, ignore_errors=True)
        return r
    ctx.disagreements += 1
    handle_disagreement(ctx, scen, idx, lines, r, extra_problem, release, oracle, op_timeout)
    return r


def impl_only(lines, workdir, release=False, op_timeout=20):
    shutil.rmtree(workdir, ignore_errors=True)
    os.makedirs(workdir, exist_ok=True)
    f = os.path.join(workdir, 'case.ops')
    C.write_ops(f, lines)
    il, ist = C.run_impl(f, os.path.join(workdir, 'impl'), release=release, op_timeout=op_timeout)
    return il, ist


def api_oracle(lines, workdir, release=False, files=True, op_timeout=20):
    """the property statement itself on the implementation: ideal maps + decoder. returns text or None"""
    il, ist = impl_only(lines, workdir, release, op_timeout)
    ops = [l for l in lines if l.strip() and not l.startswith('#')]
    bad = O.Ideal().check(ops, il)
    if bad:
        i, op, got, exp = bad[0]
        return 'op %d `%s` returned `%s`, the ideal map requires `%s`' % (i, op[:120], got[:160], exp[:160])
    if ist != 'ok' and not (ops and ops[len(il)].split()[0] == 'kill9' if len(il) < len(ops) else False):
        i = len(il)
        return 'the implementation ended with %s at op %d `%s`' % (ist, i, ops[min(i, len(ops) - 1)][:120])
    for i, l in enumerate(il):
        if l in ('panic', 'hang') or l.startswith('err'):
            if ops[i].split()[0] == 'map':
                continue
            return 'op %d `%s` returned `%s`' % (i, ops[i][:120], l)
    if files:
        impl = os.path.join(workdir, 'impl')
        for sub in sorted(os.listdir(impl)) if os.path.isdir(impl) else []:
            p = os.path.join(impl, sub)
            if os.path.isdir(p):
                probs, _ = O.files_ok(p)
                if probs:
                    return 'independent decoder on %s: %s' % (sub, '; '.join(probs[:4]))
    return None


def handle_disagreement(ctx, scen, idx, lines, r, extra_problem, release, oracle, op_timeout):
    d = os.path.join(ctx.root, '%s_%s_shrink' % (scen, idx))
    n = [0]

    def failing(cand):
        n[0] += 1
        f = os.path.join(d, 'c%d.ops' % n[0])
        os.makedirs(d, exist_ok=True)
        C.write_ops(f, cand)
        rr = C.compare(f, os.path.join(d, 'w%d' % n[0]), release=release, op_timeout=op_timeout)
        shutil.rmtree(os.path.join(d, 'w%d' % n[0]), ignore_errors=True)
        return not rr['ok']
    small = lines
    if not extra_problem and len(lines) <= 4000:
        try:
            small = C.shrink(lines, failing, budget=ctx.scale(60, 200))
        except Exception as e:
            C.log('shrink failed', e)
    f = os.path.join(d, 'final.ops')
    os.makedirs(d, exist_ok=True)
    C.write_ops(f, small)
    rr = C.compare(f, os.path.join(d, 'wf'), release=release, op_timeout=op_timeout) if not extra_problem else r
    verdict = (oracle or api_oracle)(small, os.path.join(d, 'or'), release) if True else None
    head = ['property %s, scenario %s #%d, seed %s' % (ctx.pid, scen, idx, ctx.seed)]
    if extra_problem:
        head.append(extra_problem)
    if not rr.get('ok', True):
        head.append('correspondence Model(Db.step) vs implementation breaks at op %s: `%s`' % (rr.get('index'), rr.get('op', '')[:200]))
        head.append('  implementation: %s' % str(rr.get('impl'))[:300])
        head.append('  model        : %s' % str(rr.get('model'))[:300])
    if verdict or extra_problem:
        head.append('direct oracle: ' + (verdict or extra_problem))
        head.append('replay: /verif/build/cargo-target/debug/harness run <this file> <empty dir>')
        ctx.violation('%s_%s' % (scen, idx), '\n'.join(head), small, found=True)
    else:
        head.append('direct oracle: found no failing input (the implementation satisfies the property statement on this history); '
                    'the correspondence named above no longer checks, so the property is no longer shown to hold')
        ctx.violation('%s_%s' % (scen, idx), '\n'.join(head), small, found=False)
    shutil.rmtree(d, ignore_errors=True)


def parallel(fn, items, workers=12):
    with ThreadPoolExecutor(max_workers=workers) as ex:
        return list(ex.map(fn, items))


def run_corpus(ctx):
    """minimised failures ever found and the defect witnesses run first, for every property"""
    cd = os.path.join(C.VERIF, 'corpus')
    files = sorted(f for f in os.listdir(cd) if f.endswith('.ops'))
    sel = [f for f in files if CORPUS_FOR.get(f.split('_')[0], None) is None or ctx.pid in CORPUS_FOR[f.split('_')[0]]]

    def one(a):
        i, f = a
        lines = C.ops_of(os.path.join(cd, f))
        pair(ctx, 'corpus_' + f[:-4], i, lines, op_timeout=8)
    parallel(one, list(enumerate(sel)))


CORPUS_FOR = {'D1': ['C03', 'C16', 'C02'], 'D2': ['C04', 'C07', 'C01'], 'D3': ['C06', 'C17', 'C05'], 'D4': ['C08', 'C01'],
              'D5': ['C07'], 'D7': ['C01', 'C09']}


def proof_broken(ctx, proof):
    """a proof obligation no longer checks. the scenarios above already searched the implementation;
    if they found nothing, report no-failing-input-found naming the obligation."""
    if any('no-failing-input-found' not in v for v in ctx.violations):
        # a concrete failing input was found by the scenarios: report it and the broken obligation together
        ctx.violation('proof', 'proof obligation broken (see also the concrete replay reported for this run):\n' + proof['log'], None, found=False)
        return
    ctx.violation('proof', 'a proof obligation of %s no longer checks against the model regenerated from /repo:\n%s\n'
                  'the correspondence scenarios and direct oracles of this run found no failing input' % (ctx.pid, proof['log']), None, found=False)


def replay(ctx, path):
    lines = C.ops_of(path)
    d = os.path.join(ctx.root, 'replay')
    r = C.compare(_tmp_ops(d, lines), os.path.join(d, 'w'))
    v = api_oracle(lines, os.path.join(d, 'or'))
    print('correspondence:', 'agrees' if r['ok'] else 'breaks at op %s `%s`: impl=%s model=%s' % (r.get('index'), r.get('op'), r.get('impl'), r.get('model')))
    print('direct oracle :', v or 'no failing input')
    return 1 if (v or not r['ok']) else 0


def _tmp_ops(d, lines):
    os.makedirs(d, exist_ok=True)
    f = os.path.join(d, 'case.ops')
    C.write_ops(f, lines)
    return f


# ------------------------------------------------------------------ C01
def scen_C01(ctx):
    ctx.rule = ('seeded random histories (put/get/delete/includes_key/len/is_empty) over small key universes, all five key types, '
                'tables of 1..4096 buckets, value lengths biased to slot-class edges and to the 4 KiB / 16 KiB / 128 KiB boundaries; '
                'a case is non-trivial when it has >= 4 ops; distinct = distinct op files (sha1)')
    n_hist = ctx.scale(160, 1500)

    def one(i):
        g = G.G(ctx.seed, 'C01', i)
        kt = G.KTS[i % 5]
        nops = g.rng.choice([60, 150, 300]) if ctx.quick else g.rng.choice([200, 600, 2000])
        big = 0.03 if i % 4 == 0 else 0.0
        lines = ['db d0 db', 'map m0 d0 %s m %s' % (kt, g.params())]
        lines += g.hist(kt, nops, universe=g.rng.choice([3, 8, 20, 60]), big=big)
        lines.append('closeall')
        pair(ctx, 'hist', i, lines, stats=g.stats)
    parallel(one, range(n_hist))
    if not ctx.quick:
        # long histories (1e5 calls), API level against the ideal map only (values small)
        def long(i):
            g = G.G(ctx.seed, 'C01long', i)
            kt = G.KTS[i % 5]
            lines = ['db d0 db', 'map m0 d0 %s m %s' % (kt, g.params(n=64))]
            lines += g.hist(kt, 100000, universe=200, big=0.0, maxlen=300)
            lines.append('closeall')
            pair(ctx, 'long', i, lines, stats=g.stats, op_timeout=60)
        parallel(long, range(4), workers=4)


SCENARIOS['C01'] = scen_C01
