#!/usr/bin/env python3
"""Per-property correspondence scenarios, direct oracles and proof bookkeeping."""
import os, sys, re, json, shutil, time, subprocess, hashlib
from concurrent.futures import ThreadPoolExecutor
sys.path.insert(0, os.path.dirname(__file__))
import common as C
import gen as G
import oracle as O

TRUSTED_BASE = [
    'Coq 8.16.1 kernel via coqc (full .vo builds), including its VM (vm_compute); no native_compute',
    'std++ 1.8.0 and the Coq standard library (axioms, if any, as listed per theorem under assumptions_reported)',
    'hand-written Gallina model of the crate (coq/theories/*.v, definitions), tied to /repo by the regenerated '
    'coq/gen/Consts.v + Hash_vectors.v and by the differential runs counted in this file',
    'extraction with ExtrOcamlBasic only (bool, option, unit, list, prod, sumbool, sumor to OCaml types; andb/orb inlined), '
    'ocamlfind ocamlopt 4.13.1, ocaml/driver.ml (parser/printer) - used for the correspondence and oracles only',
    'the Rust runner /verif/harness (maps API calls, panics, hangs to canonical lines) and lib/*.py (generator, diff, shrinker)',
    'the layout-probe and io-trace hooks in /repo (cfg abyssiniandb_verif)',
    'modelled, not verified: rabuf 0.1.20 and vu64 0.1.11 (dependencies), the OS and file system, Rc/RefCell glue',
]
LEVEL = {}
ASSUMPTIONS = {}
EXPLANATION = {}
NEEDS_RELEASE = set()
SCENARIOS = {}


class Ctx:
    def __init__(self, pid, tier, seed):
        self.pid, self.tier, self.seed = pid, tier, seed
        self.evaluations = 0
        self.distinct = set()
        self.samples = []
        self.disagreements = 0
        self.violations = []
        self.known = []
        self.distribution = {}
        self.scen_counts = {}
        self.rule = ''
        self.proof = None
        self.root = os.path.join(C.WORK, pid)
        shutil.rmtree(self.root, ignore_errors=True)
        os.makedirs(self.root, exist_ok=True)
        os.makedirs(C.REPLAYS, exist_ok=True)
        self.quick = tier != 'thorough'

    def scale(self, q, t):
        return q if self.quick else t

    def merge_stats(self, st):
        for k, d in st.items():
            tgt = self.distribution.setdefault(k, {})
            for a, b in d.items():
                tgt[str(a)] = tgt.get(str(a), 0) + b

    def violation(self, name, text, ops, found=True):
        """records a violation; writes the replay file"""
        path = os.path.join(C.REPLAYS, '%s-%s-%s.ops' % (self.pid, self.seed, re.sub(r'[^A-Za-z0-9_]+', '_', name)))
        with open(path, 'w') as f:
            for l in text.split('\n'):
                f.write('# ' + l + '\n')
            if ops:
                f.write('\n'.join(ops) + '\n')
        line = 'VIOLATION property=%s replay=%s' % (self.pid, path)
        if not found:
            line += ' no-failing-input-found'
        if line not in self.violations:
            self.violations.append(line)
        return path


# ------------------------------------------------------------------ proofs
def thm_names(path):
    src = open(path).read()
    return re.findall(r'^(?:Theorem|Lemma|Corollary|Example|Proposition)\s+([A-Za-z0-9_\']+)', src, re.M)


def deps_of(vfile):
    """transitive .v dependencies inside the project, from coqdep"""
    r = C.sh(['coqdep', '-f', '_CoqProject', '-sort'] , cwd=C.COQ)
    # simple approach: parse the Makefile dependency file
    dep = {}
    r = C.sh(['coqdep', '-f', '_CoqProject'], cwd=C.COQ)
    for l in r.stdout.split('\n'):
        if ':' not in l: continue
        lhs, rhs = l.split(':', 1)
        tg = [x for x in lhs.split() if x.endswith('.vo')]
        if not tg: continue
        ds = [x[:-1] for x in rhs.split() if x.endswith('.vo') and not x.startswith('/')]
        dep[tg[0][:-1]] = ds
    seen = set()
    todo = [vfile]
    while todo:
        x = todo.pop()
        if x in seen: continue
        seen.add(x)
        todo += dep.get(x, [])
    return sorted(seen)


def proofs(ctx):
    """make the property's theorem file (+ Pins), report assumptions; never raises on proof failure"""
    pid = ctx.pid
    vf = 'Props/%s.v' % pid
    res = {'ok': True, 'obligations': 0, 'discharged': 0, 'theorems': [], 'assumptions': {}, 'log': ''}
    bad = C.grep_forbidden()
    if bad:
        res.update(ok=False, log='forbidden constructs in the development: ' + '; '.join(bad))
        return res
    if not os.path.exists(os.path.join(C.COQ, vf)):
        res.update(ok=False, log='no theorem file ' + vf)
        return res
    targets = [vf + 'o', 'gen/Hash_vectors.vo']
    if os.path.exists(os.path.join(C.COQ, 'Pins.v')):
        targets.append('Pins.vo')
    t0 = time.time()
    ok, lg = C.coq_make(targets)
    deps = deps_of(vf)
    nob = sum(len(thm_names(os.path.join(C.COQ, d))) for d in deps if os.path.exists(os.path.join(C.COQ, d)))
    res['obligations'] = nob
    res['deps'] = deps
    if not ok:
        # count what did compile
        done = sum(len(thm_names(os.path.join(C.COQ, d))) for d in deps if os.path.exists(os.path.join(C.COQ, d + 'o')))
        m = re.findall(r'File "([^"]+)", line (\d+)[^\n]*\n((?:.*\n){0,8})', lg)
        res.update(ok=False, discharged=done, log='make failed: ' + (('%s line %s: %s' % (m[0][0], m[0][1], m[0][2][:500])) if m else lg[-800:]))
        return res
    res['discharged'] = nob
    names = thm_names(os.path.join(C.COQ, vf))
    res['theorems'] = names
    # Print Assumptions, always executed (the .vo may be cached)
    q = os.path.join(C.BUILD, 'assume_%s.v' % pid)
    with open(q, 'w') as f:
        f.write('From Aby.Props Require Import %s.\n' % pid)
        for n in names:
            f.write('Print Assumptions %s.\n' % n)
    r = C.sh(['timeout', '600', 'coqc', '-Q', 'gen', 'Aby', '-Q', 'theories', 'Aby', '-Q', 'Props', 'Aby.Props', q], cwd=C.COQ)
    for junk in ('.vo', '.glob', '.vok', '.vos'):
        try: os.remove(q[:-2] + junk)
        except OSError: pass
    try: os.remove(os.path.join(C.BUILD, '.assume_%s.aux' % pid))
    except OSError: pass
    if r.returncode != 0:
        res.update(ok=False, log='Print Assumptions failed: ' + (r.stdout + r.stderr)[-800:])
        return res
    blocks = [b.strip() for b in re.split(r'\n(?=Closed under|Axioms:)', '\n' + r.stdout) if b.strip()]
    allow = ALLOWED_AXIOMS
    for n, b in zip(names, blocks):
        if b.startswith('Closed under the global context'):
            res['assumptions'][n] = 'Closed under the global context'
        else:
            axs = re.findall(r'^([A-Za-z0-9_.\']+)\s*:', b, re.M)
            res['assumptions'][n] = axs
            extra = [a for a in axs if a.split('.')[-1] not in allow]
            if extra:
                res.update(ok=False, log='theorem %s depends on axioms outside the allowlist: %s' % (n, extra))
    if len(blocks) != len(names):
        res.update(ok=False, log='could not match Print Assumptions output to theorems (%d vs %d)' % (len(blocks), len(names)))
    res['make_s'] = round(time.time() - t0, 1)
    return res


# axioms of the standard library that may appear (named in DESIGN.md section 8); none is expected
ALLOWED_AXIOMS = {'functional_extensionality_dep', 'proof_irrelevance', 'classic', 'JMeq_eq', 'propositional_extensionality',
                  'constructive_definite_description', 'excluded_middle_informative'}


# ------------------------------------------------------------------ paired runs
def pair(ctx, scen, idx, lines, stats=None, release=False, oracle=None, files_oracle=False, op_timeout=20):
    """one correspondence case. on disagreement: shrink, direct oracle, record the violation."""
    d = os.path.join(ctx.root, '%s_%s' % (scen, idx))
    os.makedirs(d, exist_ok=True)
    opsfile = os.path.join(d, 'case.ops')
    C.write_ops(opsfile, lines)
    r = C.compare(opsfile, os.path.join(d, 'w'), release=release, op_timeout=op_timeout)
    ctx.evaluations += 1
    ctx.scen_counts[scen] = ctx.scen_counts.get(scen, 0) + 1
    h = hashlib.sha1('\n'.join(lines).encode()).hexdigest()
    if len(lines) >= 4:
        ctx.distinct.add(h)
    if len(ctx.samples) < 6 and idx % 7 == 0:
        ctx.samples.append({'scenario': scen, 'index': idx, 'ops': lines[:12] + (['... (%d ops)' % len(lines)] if len(lines) > 12 else [])})
    if stats:
        ctx.merge_stats(stats)
    extra_problem = None
    if r['ok'] and files_oracle:
        # structural oracle on the real files left behind (closed)
        for sub in sorted(os.listdir(os.path.join(d, 'w', 'impl'))) if os.path.isdir(os.path.join(d, 'w', 'impl')) else []:
            p = os.path.join(d, 'w', 'impl', sub)
            if os.path.isdir(p):
                probs, _ = O.files_ok(p)
                if probs:
                    extra_problem = 'independent decoder on %s: %s' % (sub, '; '.join(probs[:4]))
                    break
    if r['ok'] and not extra_problem:
        shutil.rmtree(d, ignore_errors=True)
        return r
    ctx.disagreements += 1
    handle_disagreement(ctx, scen, idx, lines, r, extra_problem, release, oracle, op_timeout)
    return r


def impl_only(lines, workdir, release=False, op_timeout=20):
    shutil.rmtree(workdir, ignore_errors=True)
    os.makedirs(workdir, exist_ok=True)
    f = os.path.join(workdir, 'case.ops')
    C.write_ops(f, lines)
    il, ist = C.run_impl(f, os.path.join(workdir, 'impl'), release=release, op_timeout=op_timeout)
    return il, ist


def api_oracle(lines, workdir, release=False, files=True, op_timeout=20):
    """the property statement itself on the implementation: ideal maps + decoder. returns text or None"""
    il, ist = impl_only(lines, workdir, release, op_timeout)
    ops = [l for l in lines if l.strip() and not l.startswith('#')]
    bad = O.Ideal().check(ops, il)
    if bad:
        i, op, got, exp = bad[0]
        return 'op %d `%s` returned `%s`, the ideal map requires `%s`' % (i, op[:120], got[:160], exp[:160])
    if ist != 'ok' and not (ops and ops[len(il)].split()[0] == 'kill9' if len(il) < len(ops) else False):
        i = len(il)
        return 'the implementation ended with %s at op %d `%s`' % (ist, i, ops[min(i, len(ops) - 1)][:120])
    for i, l in enumerate(il):
        if l in ('panic', 'hang') or l.startswith('err'):
            if ops[i].split()[0] == 'map':
                continue
            return 'op %d `%s` returned `%s`' % (i, ops[i][:120], l)
    if files:
        impl = os.path.join(workdir, 'impl')
        for sub in sorted(os.listdir(impl)) if os.path.isdir(impl) else []:
            p = os.path.join(impl, sub)
            if os.path.isdir(p):
                probs, _ = O.files_ok(p)
                if probs:
                    return 'independent decoder on %s: %s' % (sub, '; '.join(probs[:4]))
    return None


def handle_disagreement(ctx, scen, idx, lines, r, extra_problem, release, oracle, op_timeout):
    d = os.path.join(ctx.root, '%s_%s_shrink' % (scen, idx))
    n = [0]

    def failing(cand):
        n[0] += 1
        f = os.path.join(d, 'c%d.ops' % n[0])
        os.makedirs(d, exist_ok=True)
        C.write_ops(f, cand)
        rr = C.compare(f, os.path.join(d, 'w%d' % n[0]), release=release, op_timeout=op_timeout)
        shutil.rmtree(os.path.join(d, 'w%d' % n[0]), ignore_errors=True)
        return not rr['ok']
    small = lines
    if not extra_problem and len(lines) <= 4000:
        try:
            small = C.shrink(lines, failing, budget=ctx.scale(60, 200))
        except Exception as e:
            C.log('shrink failed', e)
    f = os.path.join(d, 'final.ops')
    os.makedirs(d, exist_ok=True)
    C.write_ops(f, small)
    rr = C.compare(f, os.path.join(d, 'wf'), release=release, op_timeout=op_timeout) if not extra_problem else r
    verdict = (oracle or api_oracle)(small, os.path.join(d, 'or'), release) if True else None
    head = ['property %s, scenario %s #%d, seed %s' % (ctx.pid, scen, idx, ctx.seed)]
    if extra_problem:
        head.append(extra_problem)
    if not rr.get('ok', True):
        head.append('correspondence Model(Db.step) vs implementation breaks at op %s: `%s`' % (rr.get('index'), rr.get('op', '')[:200]))
        head.append('  implementation: %s' % str(rr.get('impl'))[:300])
        head.append('  model        : %s' % str(rr.get('model'))[:300])
    if verdict or extra_problem:
        head.append('direct oracle: ' + (verdict or extra_problem))
        head.append('replay: /verif/build/cargo-target/debug/harness run <this file> <empty dir>')
        ctx.violation('%s_%s' % (scen, idx), '\n'.join(head), small, found=True)
    else:
        head.append('direct oracle: found no failing input (the implementation satisfies the property statement on this history); '
                    'the correspondence named above no longer checks, so the property is no longer shown to hold')
        ctx.violation('%s_%s' % (scen, idx), '\n'.join(head), small, found=False)
    shutil.rmtree(d, ignore_errors=True)


def parallel(fn, items, workers=12):
    with ThreadPoolExecutor(max_workers=workers) as ex:
        return list(ex.map(fn, items))


def run_corpus(ctx):
    """minimised failures ever found and the defect witnesses run first, for every property"""
    cd = os.path.join(C.VERIF, 'corpus')
    files = sorted(f for f in os.listdir(cd) if f.endswith('.ops'))
    sel = [f for f in files if CORPUS_FOR.get(f.split('_')[0], None) is None or ctx.pid in CORPUS_FOR[f.split('_')[0]]]

    def one(a):
        i, f = a
        lines = C.ops_of(os.path.join(cd, f))
        pair(ctx, 'corpus_' + f[:-4], i, lines, op_timeout=8)
    parallel(one, list(enumerate(sel)))


CORPUS_FOR = {'D1': ['C03', 'C16', 'C02'], 'D2': ['C04', 'C07', 'C01'], 'D3': ['C06', 'C17', 'C05'], 'D4': ['C08', 'C01'],
              'D5': ['C07'], 'D7': ['C01', 'C09']}


def proof_broken(ctx, proof):
    """a proof obligation no longer checks. the scenarios above already searched the implementation;
    if they found nothing, report no-failing-input-found naming the obligation."""
    if any('no-failing-input-found' not in v for v in ctx.violations):
        # a concrete failing input was found by the scenarios: report it and the broken obligation together
        ctx.violation('proof', 'proof obligation broken (see also the concrete replay reported for this run):\n' + proof['log'], None, found=False)
        return
    ctx.violation('proof', 'a proof obligation of %s no longer checks against the model regenerated from /repo:\n%s\n'
                  'the correspondence scenarios and direct oracles of this run found no failing input' % (ctx.pid, proof['log']), None, found=False)


def replay(ctx, path):
    lines = C.ops_of(path)
    d = os.path.join(ctx.root, 'replay')
    r = C.compare(_tmp_ops(d, lines), os.path.join(d, 'w'))
    v = api_oracle(lines, os.path.join(d, 'or'))
    print('correspondence:', 'agrees' if r['ok'] else 'breaks at op %s `%s`: impl=%s model=%s' % (r.get('index'), r.get('op'), r.get('impl'), r.get('model')))
    print('direct oracle :', v or 'no failing input')
    return 1 if (v or not r['ok']) else 0


def _tmp_ops(d, lines):
    os.makedirs(d, exist_ok=True)
    f = os.path.join(d, 'case.ops')
    C.write_ops(f, lines)
    return f


# ------------------------------------------------------------------ C01
def scen_C01(ctx):
    ctx.rule = ('seeded random histories (put/get/delete/includes_key/len/is_empty) over small key universes, all five key types, '
                'tables of 1..4096 buckets, value lengths biased to slot-class edges and to the 4 KiB / 16 KiB / 128 KiB boundaries; '
                'a case is non-trivial when it has >= 4 ops; distinct = distinct op files (sha1)')
    n_hist = ctx.scale(160, 1500)

    def one(i):
        g = G.G(ctx.seed, 'C01', i)
        kt = G.KTS[i % 5]
        nops = g.rng.choice([60, 150, 300]) if ctx.quick else g.rng.choice([200, 600, 2000])
        big = 0.03 if i % 4 == 0 else 0.0
        lines = ['db d0 db', 'map m0 d0 %s m %s' % (kt, g.params())]
        lines += g.hist(kt, nops, universe=g.rng.choice([3, 8, 20, 60]), big=big)
        lines.append('closeall')
        pair(ctx, 'hist', i, lines, stats=g.stats)
    parallel(one, range(n_hist))
    if not ctx.quick:
        # long histories (1e5 calls), API level against the ideal map only (values small)
        def long(i):
            g = G.G(ctx.seed, 'C01long', i)
            kt = G.KTS[i % 5]
            lines = ['db d0 db', 'map m0 d0 %s m %s' % (kt, g.params(n=64))]
            lines += g.hist(kt, 100000, universe=200, big=0.0, maxlen=300)
            lines.append('closeall')
            pair(ctx, 'long', i, lines, stats=g.stats, op_timeout=60)
        parallel(long, range(4), workers=4)


SCENARIOS['C01'] = scen_C01


# ------------------------------------------------------------------ generic line-diff of two tools
def tool_diff(ctx, scen, impl_cmd, model_cmd, normalize=None, oracle_lines=None, sample=None):
    """runs a harness command and the corresponding driver command, compares line by line.
    returns (ok, first_difference_text, n_lines). BAD lines printed by the harness are the direct oracle."""
    ri = C.sh(impl_cmd, timeout=3000)
    rm = C.sh(model_cmd, timeout=3000)
    il = [l for l in ri.stdout.split('\n') if l]
    ml = [l for l in rm.stdout.split('\n') if l]
    bad = [l for l in il if l.startswith('BAD')]
    il2 = [l for l in il if not l.startswith(('BAD', 'end '))]
    if normalize:
        il2 = [normalize(l) for l in il2]
    ctx.evaluations += len(il2)
    ctx.scen_counts[scen] = ctx.scen_counts.get(scen, 0) + len(il2)
    for l in il2[:60000]:
        ctx.distinct.add(l)
    if sample and len(ctx.samples) < 6:
        ctx.samples.append({'scenario': scen, 'lines': il2[:3] + il2[-2:]})
    diff = None
    if ri.returncode != 0:
        diff = 'harness command failed: ' + (ri.stderr or ri.stdout)[-400:]
    elif rm.returncode != 0:
        diff = 'model command failed: ' + (rm.stderr or rm.stdout)[-400:]
    else:
        for i in range(max(len(il2), len(ml))):
            a = il2[i] if i < len(il2) else 'MISSING'
            b = ml[i] if i < len(ml) else 'MISSING'
            if a != b:
                diff = 'line %d: implementation `%s` / model `%s`' % (i, a[:200], b[:200])
                break
    end = [l for l in il if l.startswith('end ')]
    return diff, bad, end


# ------------------------------------------------------------------ C09
def scen_C09(ctx):
    ctx.rule = ('L_size: the crate\'s own slot-size decision (layout-probe hook) vs the model for value lengths 0..N (quick N=2^18, '
                'thorough N=2^24, exhaustive) and key lengths 0..K (quick 1500, thorough 65536) x 35^2 offset-width representatives, '
                'each also checked by the direct oracle "real encoded length <= slot"; L_img: sentinel sweep storing each length between '
                'two sentinel entries and overwriting it one byte shorter/longer; distinct = distinct lines / op files')
    nmax = ctx.scale(1 << 18, 1 << 24)
    d = os.path.join(ctx.root, 'size')
    os.makedirs(d, exist_ok=True)
    diff, bad, end = tool_diff(ctx, 'sizing_val', [C.HARNESS, 'sizing-val', str(nmax)], [C.DRIVER, 'sizing-val', str(nmax)], sample=True)
    if bad:
        ln = int(re.search(r'len=(\d+)', bad[0]).group(1))
        ctx.violation('value_len_%d' % ln, 'value length %d: %s\n(the record really written is longer than the slot the crate reserves)' % (ln, bad[0]),
                      ['db d0 db', 'map m0 d0 bytes m B8', 'put m0 61 z10x1', 'put m0 62 z%dx2' % ln, 'put m0 63 z10x3', 'get m0 61', 'get m0 62', 'get m0 63', 'closeall'])
    elif diff:
        ctx.disagreements += 1
        ctx.violation('sizing_val', 'L_size correspondence (value slot sizes, crate vs model Sizing.val_need/roundup) breaks: %s\n'
                      'direct oracle (real encoded length <= slot for every length 0..%d): no failing input' % (diff, nmax), None, found=False)
    ctx.distribution['sizing_val_end'] = {'line': end[0] if end else ''}
    # keys
    reps = os.path.join(d, 'reps.txt')
    open(reps, 'w').write(C.sh([C.HARNESS, 'offset-reps'], check=True).stdout)
    kmax = ctx.scale(1500, 65536)
    diff, bad, end = tool_diff(ctx, 'sizing_key', [C.HARNESS, 'sizing-key-sweep', str(kmax)], [C.DRIVER, 'sizing-key-sweep', str(kmax), reps], sample=True)
    if bad:
        m = re.search(r'klen=(\d+) voff=(\d+) noff=(\d+)', bad[0])
        ctx.violation('key_len_%s' % m.group(1), 'key sizing: %s\n(the key record really written is longer than the slot the crate reserves)' % bad[0], None)
    elif diff:
        ctx.disagreements += 1
        ctx.violation('sizing_key', 'L_size correspondence (key slot sizes) breaks: %s\ndirect oracle: no failing input' % diff, None, found=False)
    ctx.distribution['sizing_key_end'] = {'line': end[0] if end else ''}
    # sentinel sweep, end to end
    edges = sorted(set(x + dlt for x in G.VAL_EDGES for dlt in (-1, 0, 1) if x + dlt >= 0))
    lens = edges if ctx.quick else sorted(set(list(range(0, 4201)) + [x + dlt for x in (131072 - 8, 131072, 1 << 20) for dlt in (-2, -1, 0, 1, 2)]))
    groups = [lens[i:i + 12] for i in range(0, len(lens), 12)]

    def one(a):
        i, grp = a
        g = G.G(ctx.seed, 'C09', i)
        lines = ['db d0 db', 'map m0 d0 bytes m B8']
        for L in grp:
            k = ('k%05d' % L).encode().hex()
            lines += ['put m0 %s z24x1' % ('a%05d' % L).encode().hex(), 'put m0 %s z%dx%d' % (k, L, L % 250), 'put m0 %s z24x2' % ('b%05d' % L).encode().hex()]
            for L2 in (L + 1, max(L - 1, 0), L):
                lines += ['put m0 %s z%dx%d' % (k, L2, (L2 + 7) % 250), 'get m0 %s' % k,
                          'get m0 %s' % ('a%05d' % L).encode().hex(), 'get m0 %s' % ('b%05d' % L).encode().hex()]
        lines += ['flush m0', 'snap db', 'closeall', 'snap db']
        pair(ctx, 'sentinel', i, lines, files_oracle=True)
    parallel(one, list(enumerate(groups)))
    # key lengths end to end
    klens = [x for x in G.KEY_EDGES] + ([] if ctx.quick else list(range(0, 1200, 7)) + [4090, 4096, 4097, 65535, 65536])

    def onek(a):
        i, grp = a
        lines = ['db d0 db', 'map m0 d0 bytes m B2']
        for L in grp:
            k = 'z%dx%d' % (L, L % 200) if L > 0 else '-'
            lines += ['put m0 %s 01' % k, 'get m0 %s' % k, 'put m0 %s z300x3' % k, 'get m0 %s' % k]
        lines += ['iter m0 keys', 'closeall', 'snap db']
        pair(ctx, 'keylen', i, lines, files_oracle=True)
    parallel(onek, list(enumerate([klens[i:i + 10] for i in range(0, len(klens), 10)])))


SCENARIOS['C09'] = scen_C09


# ------------------------------------------------------------------ C10
def scen_C10(ctx):
    ctx.rule = ('L_conv: integer -> key -> integer conversions (by value and by reference), cmp_u8 and placement hashes, crate vs model, on every '
                'power of two +-1, extremes and seeded random 64-bit values; plus the direct oracle (Python integers); '
                'L_api: typed-map histories addressed by integers; distinct = distinct input lines / op files')
    import random
    rng = random.Random('%s/C10' % ctx.seed)
    d = os.path.join(ctx.root, 'conv')
    os.makedirs(d, exist_ok=True)
    ints = list(G.INT_EDGES) + [rng.randrange(2 ** 64) for _ in range(ctx.scale(3000, 1000000))]
    lines = []
    for x in ints:
        lines.append('u %d' % x)
        s = x - 2 ** 63
        lines.append('i %d' % s)
        if x < 2 ** 63:
            lines.append('i %d' % x)
    # cmp_u8: prefixes, embedded NULs, non-UTF-8; vu64 on canonical encodings
    samples = [b'', b'a', b'ab', b'a\x00', b'\x00', b'\x00\x00', b'\xff\xfe', b'abc', b'abd', b'\xc3\x28', b'ab\x00c']
    for t in ('string', 'bytes', 'i64', 'u64'):
        for a in samples:
            for b in samples:
                lines.append('c %s %s %s' % (t, G.hx(a), G.hx(b)))
    vs = [G.vu64(x) for x in (0, 1, 127, 128, 300, 16383, 16384, 2 ** 21, 2 ** 56 - 1, 2 ** 56, 2 ** 64 - 1)]
    for a in vs:
        for b in vs:
            lines.append('c vu64 %s %s' % (G.hx(a), G.hx(b)))
    for k in samples + [bytes(rng.randrange(256) for _ in range(rng.randrange(0, 70))) for _ in range(300)]:
        lines.append('h %s' % G.hx(k))
    f = os.path.join(d, 'conv.txt')
    open(f, 'w').write('\n'.join(lines) + '\n')

    def norm(l):
        if l.startswith('c '):
            t = l.split()
            return ' '.join(t[:4] + [{'Equal': 'eq', 'Less': 'ne', 'Greater': 'ne', 'panic': 'panic'}[t[4]]])
        return l
    ri = C.sh([C.HARNESS, 'conv', f], timeout=3000)
    il = [l for l in ri.stdout.split('\n') if l]
    # direct oracle on the implementation's own lines
    viol = None
    for l in il:
        t = l.split()
        kv = dict(x.split('=', 1) for x in t[2:] if '=' in x)
        if t[0] == 'u':
            x = int(t[1])
            if not (kv['u64'] == kv['u64r'] and kv['vu64'] == kv['vu64r'] and kv['str'] == kv['strr'] and kv['bytes'] == kv['bytesr']):
                viol = 'by-value and by-reference conversions of %d differ: %s' % (x, l); break
            if int(kv['back']) != x or int(kv['backv']) != x or kv['vback'] != str(x) or kv['vbackv'] != str(x):
                viol = 'integer %d does not convert back to itself: %s' % (x, l); break
            if bytes.fromhex(kv['u64']) != x.to_bytes(8, 'little') or bytes.fromhex(kv['vu64']) != G.vu64(x):
                viol = 'key bytes of %d are not the documented encoding: %s' % (x, l); break
        elif t[0] == 'i':
            x = int(t[1])
            if kv['i64'] != kv['i64r'] or int(kv['back']) != x or int(kv['backv']) != x:
                viol = 'i64 %d does not convert back to itself: %s' % (x, l); break
    if viol:
        ctx.violation('conv', viol, None)
    diff, bad, end = tool_diff(ctx, 'conv', [C.HARNESS, 'conv', f], [C.DRIVER, 'conv', f], normalize=norm, sample=True)
    if diff and not viol:
        ctx.disagreements += 1
        ctx.violation('conv_corr', 'L_conv correspondence (KeyTypes.of_u64/of_i64/of_vu64/cmp_eq, Hash.hash_value vs the crate) breaks: %s\n'
                      'direct oracle (round trips against Python integers): no failing input' % diff, None, found=False)
    # typed maps addressed by integers
    def one(i):
        g = G.G(ctx.seed, 'C10api', i)
        kt = ['u64', 'i64', 'vu64', 'string', 'bytes'][i % 5]
        r = g.rng
        lines = ['db d0 db', 'map m0 d0 %s m %s' % (kt, g.params(bufs=False))]
        universe = [r.choice(G.INT_EDGES) if r.random() < 0.8 else r.randrange(2 ** 64) for _ in range(12)]
        for _ in range(ctx.scale(120, 600)):
            x = r.choice(universe)
            if kt == 'i64':
                x = x - 2 ** 63
            c = r.random()
            if c < 0.45: lines.append('put@ m0 %d %s' % (x, g.value_token(0.0, 200)))
            elif c < 0.65: lines.append('get@ m0 %d' % x)
            elif c < 0.8: lines.append('has@ m0 %d' % x)
            elif c < 0.95: lines.append('del@ m0 %d' % x)
            else: lines.append('iter m0 keys')
            g.count(lines[-1].split()[0])
        lines += ['iter m0 iter', 'len m0', 'closeall']
        pair(ctx, 'intkeys', i, lines, stats=g.stats)
    parallel(one, range(ctx.scale(40, 300)))


SCENARIOS['C10'] = scen_C10
