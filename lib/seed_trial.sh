#!/bin/bash
# run checks against a seeded change: apply the patch to /repo, run the quick checks of the given properties, undo.
# usage: lib/seed_trial.sh <patch.diff> <outdir> P1 [P2 ...]
set -u
PATCH=$1; OUT=$2; shift 2
mkdir -p "$OUT"
cd /repo || exit 2
if [ -n "$(git status --porcelain)" ]; then echo "/repo not clean"; exit 2; fi
git apply "$PATCH" || { echo "patch does not apply"; exit 2; }
cd /verif
for P in "$@"; do
  VERIF_EVIDENCE_DIR=$OUT/evidence VERIF_REPLAY_DIR=$OUT/replays timeout 3000 ./check $P --tier quick > "$OUT/$P.log" 2>&1
  echo "$P rc=$? $(grep -c '^VIOLATION' $OUT/$P.log) violation lines: $(grep '^VIOLATION' $OUT/$P.log | head -2 | tr '\n' ' ')"
done | tee "$OUT/summary.txt"
git -C /repo checkout -- .
git -C /repo status --porcelain
