#!/usr/bin/env python3
"""Builds the runner and the extracted model, then runs lib/scen_cache.py for N seeds.
usage: lib/run_cache_scen.py [N seeds (default 1)] [--dom K] [--wild K] [--tier quick|thorough]
Exit 0 when nothing was reported."""
import os, sys, time
sys.path.insert(0, os.path.dirname(os.path.abspath(__file__)))
import common as C
import scenarios as S
import scen_cache as SC


def main():
    args = sys.argv[1:]
    nseeds, dom, wild, tier = 1, None, None, 'quick'
    i = 0
    while i < len(args):
        if args[i] == '--dom': dom = int(args[i + 1]); i += 2
        elif args[i] == '--wild': wild = int(args[i + 1]); i += 2
        elif args[i] == '--tier': tier = args[i + 1]; i += 2
        else: nseeds = int(args[i]); i += 1
    ok, lg = C.build_harness()
    if not ok:
        print(lg[-3000:]); return 2
    # Extract.v needs Cache.vo, which build_driver's `make theories/Db.vo` does not produce
    ok, lg = C.coq_make(['theories/Cache.vo'])
    if not ok:
        print(lg[-3000:]); return 2
    ok, lg = C.build_driver()
    if not ok:
        print(lg[-3000:]); return 2
    rc = 0
    for seed in range(1, nseeds + 1):
        t0 = time.time()
        ctx = S.Ctx('CACHE', tier, seed)
        SC.scen_cache(ctx, dom, wild)
        print('seed %d: %d sequences (%s), %d result lines compared, %.1fs' % (seed, sum(ctx.scen_counts.values()), ctx.scen_counts, ctx.evaluations, time.time() - t0))
        for k in ('cache_dom', 'cache_wild', 'cache_d8_probe', 'cache_shrink_probe'):
            print('  %s: %s' % (k, ctx.distribution.get(k)))
        for k in ctx.known:
            print('KNOWN-FINDING: property=C07 %s' % k)
        for v in ctx.violations:
            print(v); rc = 1
    return rc


if __name__ == '__main__':
    sys.exit(main())
