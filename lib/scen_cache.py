#!/usr/bin/env python3
"""Correspondence of the model of rabuf::BufFile (coq/theories/Cache.v, extracted) with the real
rabuf 0.1.20 in the feature set abyssiniandb enables: `harness rabuf` vs `driver rabuf` on seeded
random operation sequences, plus the direct oracle (a plain Python bytearray with a position).

Two classes of sequences:
  dom   every operation is inside the domain of the flat reference model (Cache.v `fstep`): no read
        beyond the end, no shrinking set_len, no "small" call longer than a chunk.  Three-way
        comparison: real rabuf / extracted model / Python bytearray.  A mismatch of the real
        rabuf against the bytearray is a violation WITH a failing input.
  wild  anything goes (reads beyond the end, shrinking set_len, seeks before 0, asserted sizes):
        real rabuf / extracted model only; this validates the model's reading of the code
        outside the domain (panics, stale bytes after a shrink).
A sequence ends at the first `panic`/`err`/`hang` line (both sides stop there)."""
import os, sys, random, resource, subprocess, shutil
sys.path.insert(0, os.path.dirname(__file__))
import common as C

ABY_CS = 131072


def fnv(b):
    a, c = 1, 0
    for x in b:
        a = (a + x) % 16777213
        c = (c + a) % 16777213
    return (c << 24) | a


def show(b):
    if len(b) <= 40:
        return b.hex() if b else '-'
    return '#%d:%x' % (len(b), fnv(b))


def payload(tok):
    if tok == '-':
        return b''
    if tok[0] == 'z':
        ln, seed = tok[1:].split('x')
        x = int(seed) % 251
        out = bytearray()
        for _ in range(int(ln)):
            out.append(x)
            x = (x * 109 + 89) % 251
        return bytes(out)
    return bytes.fromhex(tok)


def buffer_size(pm, fsz):
    if pm > 0:
        v = fsz if pm >= 1000 else (fsz // 1000) * pm
        return v if v > 32768 else 32768
    return 32768


class FlatSim:
    """the direct oracle: a byte string and a position (the same domain as Cache.v `fstep`);
    `step` returns the expected output line, or None when the op leaves the domain."""

    def __init__(self):
        self.disk = bytearray()
        self.open = False
        self.pos = 0
        self.cs = 1

    def step(self, line):
        t = line.split()
        k = t[0]
        if k == 'open':
            self.open = True
            self.pos = 0
            if t[1] in ('cap', 'permille'):
                self.cs = int(t[2])
            elif t[1] == 'auto':
                self.cs = 4096
            else:
                self.cs = ABY_CS
            return 'ok'
        if k == 'close':
            self.open = False
            return 'ok'
        if k == 'disk':
            return None if self.open else '%d:%x' % (len(self.disk), fnv(self.disk))
        d = self.disk
        if k == 'seek':
            n = int(t[2])
            if t[1] == 'start':
                np = n
            elif t[1] == 'end':
                np = len(d) - abs(n)
            else:
                np = self.pos + n
            if np < 0:
                return None
            if np > len(d):
                d.extend(bytes(np - len(d)))
            self.pos = np
            return str(np)
        if k in ('read', 'reads', 'readu', 'readm', 'readms', 'readp'):
            n = int(t[1])
            if k == 'reads' and n > self.cs:
                return None
            if k == 'readm' and n > 8:
                return None
            if k == 'readp':
                n = min(n, self.cs - self.pos % self.cs)
            if self.pos + n > len(d):
                return None
            r = bytes(d[self.pos:self.pos + n])
            self.pos += n
            return show(r)
        if k in ('write', 'writes', 'writeu', 'write64', 'writez', 'writep'):
            b = bytes(int(t[1])) if k == 'writez' else payload(t[1])
            if k == 'writes' and len(b) > self.cs:
                return None
            if k == 'writep':
                b = b[:min(len(b), self.cs - self.pos % self.cs)]
            if self.pos > len(d):
                return None
            d[self.pos:self.pos + len(b)] = b
            self.pos += len(b)
            return str(len(b)) if k == 'writep' else 'ok'
        if k in ('flush', 'syncall', 'syncdata', 'clear'):
            return 'ok'
        if k == 'setlen':
            n = int(t[1])
            if n < len(d):
                return None
            d.extend(bytes(n - len(d)))
            return 'ok'
        if k == 'prepare':
            return 'ok' if int(t[1]) <= len(d) else None
        if k == 'fill':
            self.pos = len(d)
            return 'ok'
        raise ValueError(line)


CONFIGS_SMALL = [lambda r: 'open cap %d %d' % (r.choice([1, 2, 4, 8, 16, 16, 64]), r.choice([2, 2, 3, 4, 8])),
                 lambda r: 'open permille %d %d' % (r.choice([8, 16, 64]), r.choice([1, 20, 500, 1000, 1000, 2000])),
                 lambda r: 'open permille %d 0' % r.choice([16, 64])]
CONFIGS_REAL = [lambda r: 'open size %d' % r.choice([0, 1, 131072, 262144, 393216, 524288, 1048576]),
                lambda r: 'open cap 131072 %d' % r.choice([2, 3, 4, 8]),
                lambda r: 'open cap 4096 %d' % r.choice([2, 3, 4, 8]),
                lambda r: 'open pm %d' % r.choice([1000, 1000, 1500]),
                lambda r: 'open auto']


def near(r, cs, hi):
    """an offset biased to chunk boundaries +-8"""
    c = r.random()
    if c < 0.65:
        k = r.randrange(0, hi // cs + 2)
        return max(0, k * cs + r.choice([-8, -7, -3, -2, -1, 0, 0, 0, 1, 2, 3, 7, 8]))
    if c < 0.8:
        return r.randrange(0, hi + 1)
    return r.randrange(0, max(1, min(hi + 1, 3 * cs)))


def tok(r, ln):
    if ln == 0:
        return '-'
    if ln <= 12 and r.random() < 0.5:
        return bytes(r.randrange(256) for _ in range(ln)).hex()
    return 'z%dx%d' % (ln, r.randrange(251))


def gen_seq(r, nops, wild, real_sizes):
    """returns the op lines; in the dom class every op is kept inside the flat domain by
    consulting the simulation while generating."""
    sim = FlatSim()
    lines = []

    def emit(l):
        if sim.step(l) is None and l.split()[0] != 'disk':
            # outside the flat domain: never in the dom class; in the wild class shrinking set_len
            # always (it does not stop the run), anything else now and then
            if not wild or (l.split()[0] != 'setlen' and r.random() < 0.9):
                return False
        lines.append(l)
        return True

    def reopen():
        cfg = r.choice(CONFIGS_REAL if real_sizes else CONFIGS_SMALL)(r)
        emit(cfg)

    reopen()
    span = (5 if real_sizes else 7) * sim.cs          # files of a few chunks
    i = 0
    while i < nops:
        i += 1
        cs = sim.cs
        end = len(sim.disk)
        c = r.random()
        snapshot = (bytearray(sim.disk), sim.pos, sim.open, sim.cs)
        if c < 0.20:
            how = r.random()
            if how < 0.6:
                l = 'seek start %d' % near(r, cs, min(end + (2 * cs if r.random() < 0.25 else 0), span))
            elif how < 0.8:
                l = 'seek end %d' % r.choice([0, 0, -1, 1, -8, 8, -cs, cs, -(cs + 1)])
            else:
                l = 'seek cur %d' % r.choice([0, 0, 1, -1, 7, -7, 8, -8, cs, -cs, cs + 3, -(cs + 3)])
        elif c < 0.45:
            kind = r.choice(['read', 'read', 'read', 'reads', 'readu', 'readm', 'readms', 'readp'])
            room = max(0, end - sim.pos)
            if kind == 'readu':
                n = r.choice([1, 2, 4, 8])
            elif kind == 'readm':
                n = r.choice([1, 2, 3, 5, 7, 8] + ([9] if wild else []))
            else:
                n = r.choice([0, 1, 2, 7, 8, 9, 16, cs - 1, cs, cs + 1, 2 * cs + 3, r.randrange(0, 3 * cs + 1)])
                if kind == 'reads' and not wild:
                    n = min(n, cs)
            if not wild or r.random() < 0.8:
                n = min(n, room) if kind not in ('readu',) else n
            l = '%s %d' % (kind, n)
        elif c < 0.78:
            kind = r.choice(['write', 'write', 'write', 'writes', 'writeu', 'writez', 'write64', 'writep'])
            if kind == 'writeu':
                n = r.choice([1, 2, 4, 8])
            elif kind == 'write64':
                n = 8 * r.choice([1, 2, 3, 4, 5])
            else:
                n = r.choice([0, 1, 2, 7, 8, 9, 16, cs - 1, cs, cs + 1, 2 * cs + 3, r.randrange(0, 2 * cs + 1)])
                if kind == 'writes' and not wild:
                    n = min(n, cs)
            if sim.pos + n > span:
                n = max(0, span - sim.pos) if kind not in ('writeu', 'write64') else n
            l = '%s %d' % (kind, n) if kind == 'writez' else '%s %s' % (kind, tok(r, n))
        elif c < 0.84:
            l = r.choice(['flush', 'flush', 'syncall', 'syncdata', 'clear', 'fill'])
        elif c < 0.90:
            if wild and r.random() < 0.6:
                n = near(r, cs, end)          # may shrink
            else:
                n = min(span, end + r.choice([0, 1, 7, 8, cs, cs + 5, 2 * cs]))
            l = 'setlen %d' % n
        elif c < 0.93:
            l = 'prepare %d' % near(r, cs, end if not wild else end + cs)
        elif c < 0.96:
            l = 'disk'
        else:
            if r.random() < 0.5:
                emit('close')
                emit('disk')
            reopen()
            continue
        if not emit(l):
            sim.disk, sim.pos, sim.open, sim.cs = snapshot
    emit('close')
    emit('disk')
    return lines


def _unlimit_stack():
    try:
        resource.setrlimit(resource.RLIMIT_STACK, (resource.RLIM_INFINITY, resource.RLIM_INFINITY))
    except Exception:
        pass


def run_pair(opsfile, workdir, timeout=600):
    """returns (impl_lines, model_lines, problem)"""
    ri = subprocess.run([C.HARNESS, 'rabuf', opsfile, workdir], capture_output=True, text=True, timeout=timeout, env=C.ENV)
    rm = subprocess.run([C.DRIVER, 'rabuf', opsfile], capture_output=True, text=True, timeout=timeout, preexec_fn=_unlimit_stack)
    il = [l for l in ri.stdout.split('\n') if l]
    ml = [l for l in rm.stdout.split('\n') if l]
    prob = None
    if ri.returncode != 0:
        prob = 'harness rabuf failed rc=%s %s' % (ri.returncode, ri.stderr[-300:])
    elif rm.returncode != 0:
        prob = 'driver rabuf failed rc=%s %s' % (rm.returncode, rm.stderr[-300:])
    return il, ml, prob


def same_line(impl, model):
    if impl == model:
        return True
    if model.startswith('panic:') and impl == 'panic':
        return True
    if model == 'err' and impl.startswith('err') and impl != 'err:FileTooLarge':
        return True
    if model == 'hang' and impl in ('hang', 'crash'):
        return True
    return False


def check_seq(ctx, scen, idx, lines, oracle):
    """runs one sequence on both tools; `oracle`: also against the bytearray. Returns True when all agree."""
    d = os.path.join(ctx.root, '%s_%d' % (scen, idx))
    os.makedirs(d, exist_ok=True)
    f = os.path.join(d, 'ops')
    C.write_ops(f, lines)
    il, ml, prob = run_pair(f, os.path.join(d, 'w'))
    ctx.evaluations += len(il)
    ctx.scen_counts[scen] = ctx.scen_counts.get(scen, 0) + 1
    ctx.distinct.add('\n'.join(lines))
    ok = True
    # direct oracle first: a mismatch here is a failing input of the implementation itself
    if oracle:
        sim = FlatSim()
        for i, l in enumerate(lines):
            want = sim.step(l)
            if i >= len(il):
                ctx.violation('%s_%d' % (scen, idx), 'real rabuf stops after %d of %d operations (last line `%s`) on a sequence inside '
                              'the flat domain; next op `%s`' % (len(il), len(lines), il[-1] if il else '', l), lines)
                ok = False
                break
            if want is not None and il[i] != want:
                ctx.violation('%s_%d' % (scen, idx), 'direct oracle (plain byte array with a position): op %d `%s` returns `%s` on real rabuf, '
                              'the byte array gives `%s`' % (i, l[:80], il[i][:120], want[:120]), lines[:i + 1])
                ok = False
                break
    if prob and ok:
        ctx.disagreements += 1
        ctx.violation('%s_%d' % (scen, idx), 'rabuf correspondence could not run: ' + prob, lines, found=False)
        ok = False
    if ok:
        for i in range(max(len(il), len(ml))):
            a = il[i] if i < len(il) else 'MISSING'
            b = ml[i] if i < len(ml) else 'MISSING'
            if not same_line(a, b):
                ctx.disagreements += 1
                ctx.violation('%s_%d' % (scen, idx), 'model of rabuf (Cache.v) and real rabuf differ at op %d `%s`: real `%s` / model `%s`\n'
                              'direct oracle: %s' % (i, (lines[i] if i < len(lines) else '')[:80], a[:150], b[:150],
                                                     'agrees with real rabuf' if oracle else 'not applicable (sequence leaves the flat domain)'),
                              lines[:i + 1], found=False)
                ok = False
                break
    if ok:
        shutil.rmtree(d, ignore_errors=True)
    return ok, il


def probe_d8(ctx):
    """known finding D8: PerMille(500) on a file growing past one 128 KiB chunk"""
    lines = ['open pm 500', 'write z131072x5', 'write 0102', 'close', 'disk']
    d = os.path.join(ctx.root, 'd8')
    os.makedirs(d, exist_ok=True)
    f = os.path.join(d, 'ops')
    C.write_ops(f, lines)
    il, ml, prob = run_pair(f, os.path.join(d, 'w'))
    ctx.evaluations += len(il)
    real = il[-1] if il else 'nothing'
    model = ml[-1] if ml else 'nothing'
    shutil.rmtree(d, ignore_errors=True)
    return real, model


def probe_shrink(ctx):
    """observation: set_len below the end keeps the cut-off bytes in cached chunks; growing again
    shows them (a plain file shows zeros), and what is shown depends on what is cached."""
    outs = []
    for cfg in ('open cap 16 2', 'open cap 16 8'):
        lines = [cfg, 'write z40x7', 'setlen 10', 'setlen 40', 'seek start 0', 'read 40', 'close', 'disk']
        d = os.path.join(ctx.root, 'shr')
        os.makedirs(d, exist_ok=True)
        f = os.path.join(d, 'ops')
        C.write_ops(f, lines)
        il, ml, prob = run_pair(f, os.path.join(d, 'w'))
        ctx.evaluations += len(il)
        sim = FlatSim()
        sim.step(cfg); sim.step('write z40x7')
        del sim.disk[10:]; sim.step('setlen 40'); sim.step('seek start 0')
        outs.append({'cfg': cfg, 'real': il[5] if len(il) > 5 else '', 'model': ml[5] if len(ml) > 5 else '', 'plain_file': sim.step('read 40')})
        shutil.rmtree(d, ignore_errors=True)
    return outs


def gen_fault(r, nops, real_sizes):
    """a sequence of the dom class with `limit L` ... `unlimit` stretches laid over it (L near a chunk boundary inside the file
    span): writes, evictions, flushes, growing seeks and set_len calls are refused by the file-size limit in the middle of the
    sequence; every stretch ends with `unlimit`, `flush`, `disk` (recovery: the flush must succeed, and both sides must show the
    same file).  Only real rabuf vs the model (Cache_fault.v): after a refused call the sequence may leave the flat domain."""
    base = gen_seq(r, nops, False, real_sizes)
    out = []
    cs = 16
    left = 0
    for l in base:
        t = l.split()
        if t[0] == 'open':
            cs = int(t[2]) if t[1] in ('cap', 'permille') else (4096 if t[1] == 'auto' else ABY_CS)
        if left == 0 and t[0] not in ('open', 'close', 'disk') and r.random() < 0.18:
            span = (5 if real_sizes else 7) * cs
            out.append('limit %d' % near(r, cs, span))
            left = r.randrange(1, 7)
        out.append(l)
        if left > 0:
            left -= 1
            if left == 0 or t[0] in ('close',):
                out += ['unlimit', 'flush', 'disk'] if t[0] != 'close' else ['unlimit']
                left = 0
    if left > 0:
        out.append('unlimit')
    return out


def scen_cache(ctx, n_dom=None, n_wild=None, n_fault=0, probes=True):
    rule = ('L_cache: real rabuf::BufFile (0.1.20, features of abyssiniandb) vs the extracted model Cache.v, line by line, on seeded '
                'random call sequences (chunk sizes 1..64 and the real 4096/131072, 2..8 chunks or per-mille/auto, files of a few chunks, '
                'accesses at chunk boundaries +-8, straddling writes, seeks past the end, set_len, flushes, mid-run checksums of the file '
                'as the OS sees it, close/reopen under another configuration); sequences inside the flat domain are also compared with a '
                'plain Python byte array (direct oracle); class fault: the same under a file-size limit switched on and off in the middle (writes, evictions, flushes, growing seeks refused: real rabuf vs Cache_fault.v, incl. the state a refused call leaves and the recovery flush); distinct = distinct sequences')
    if probes:
        ctx.rule = rule
    n_dom = n_dom if n_dom is not None else ctx.scale(120, 1500)
    n_wild = n_wild if n_wild is not None else ctx.scale(60, 700)

    def one(a):
        cls, i = a
        r = random.Random('%s/cache-%s/%d' % (ctx.seed, cls, i))
        real_sizes = (i % 5 == 4)
        if cls == 'fault':
            lines = gen_fault(r, 25 if real_sizes else r.choice([30, 60, 120]), real_sizes)
        else:
            lines = gen_seq(r, 25 if real_sizes else r.choice([30, 60, 120]), cls == 'wild', real_sizes)
        ok, il = check_seq(ctx, cls, i, lines, oracle=(cls == 'dom'))
        if cls == 'fault':
            d = ctx.distribution.setdefault('cache_fault_calls', {})
            for l, o in zip(lines, il):
                if o == 'err:FileTooLarge':
                    k = l.split()[0]
                    d[k] = d.get(k, 0) + 1
        last = il[-1] if il else ''
        return (cls, 'stopped:' + last.split(':')[0] if last in ('panic', 'hang', 'crash') or last.startswith('err') else 'completed')
    jobs = [('dom', i) for i in range(n_dom)] + [('wild', i) for i in range(n_wild)] + [('fault', i) for i in range(n_fault)]
    from concurrent.futures import ThreadPoolExecutor
    with ThreadPoolExecutor(max_workers=8) as ex:
        res = list(ex.map(one, jobs))
    for cls, how in res:
        d = ctx.distribution.setdefault('cache_' + cls, {})
        d[how] = d.get(how, 0) + 1
    if not probes:
        return
    # known finding D8
    real, model = probe_d8(ctx)
    ctx.distribution['cache_d8_probe'] = {'real': real, 'model': model}
    if real in ('hang', 'crash', 'panic'):
        ctx.known.append('class=permille-below-1000 rabuf level: `open pm 500; write 131072 bytes; write 2 bytes` ends with %s on real rabuf '
                         '(model: %s = fuel exhausted; Cache_proofs.single_chunk_diverges)' % (real, model))
        if model != 'hang':
            ctx.violation('d8_model', 'the model does not reproduce the known finding D8: real `%s` / model `%s`' % (real, model), None, found=False)
    elif model == 'hang':
        ctx.violation('d8_model', 'real rabuf no longer shows D8 (`%s`) but the model still does' % real, None, found=False)
    # observation (not a property of the crate's normal operation: abyssiniandb shrinks only in an error path)
    ctx.distribution['cache_shrink_probe'] = {str(i): str(o) for i, o in enumerate(probe_shrink(ctx))}
