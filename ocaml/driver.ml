(* Driver for the extracted model: reads the same operation file as the Rust runner and prints
   one canonical line per operation.  Everything semantic is in Model (extracted from Coq);
   this file only parses op lines into Model.op values and prints Model.out values. *)
open Model

(* ---- conversions between OCaml ints / strings and the extracted binary numbers ---- *)
let rec pos_of_int (i : int) : positive =
  if i = 1 then XH else if i land 1 = 1 then XI (pos_of_int (i lsr 1)) else XO (pos_of_int (i lsr 1))
let n_of_int (i : int) : n = if i = 0 then N0 else Npos (pos_of_int i)
let rec int_of_pos (p : positive) : int =
  match p with XH -> 1 | XO q -> 2 * int_of_pos q | XI q -> 2 * int_of_pos q + 1
let int_of_n (x : n) : int = match x with N0 -> 0 | Npos p -> int_of_pos p

(* decimal strings of arbitrary size (u64 / i64 extremes) <-> positive, via Z-free long arithmetic *)
let pos_of_decimal (s : string) : n =
  (* schoolbook: repeated divide-by-2 of the decimal string *)
  let digits = ref (List.init (String.length s) (fun i -> Char.code s.[i] - 48)) in
  let bits = ref [] in
  let is_zero l = List.for_all (fun d -> d = 0) l in
  while not (is_zero !digits) do
    let carry = ref 0 in
    let q = List.map (fun d -> let v = !carry * 10 + d in carry := v mod 2; v / 2) !digits in
    bits := !carry :: !bits;
    digits := q
  done;
  (* bits: most significant first *)
  match !bits with
  | [] -> N0
  | _ :: rest -> Npos (List.fold_left (fun acc b -> if b = 1 then XI acc else XO acc) XH rest)
let z_of_decimal (s : string) : z =
  if String.length s > 0 && s.[0] = '-' then
    (match pos_of_decimal (String.sub s 1 (String.length s - 1)) with N0 -> Z0 | Npos p -> Zneg p)
  else (match pos_of_decimal s with N0 -> Z0 | Npos p -> Zpos p)
let decimal_of_n (x : n) : string =
  (* numbers printed by the runner fit OCaml ints except hashes, which are printed in hex elsewhere *)
  string_of_int (int_of_n x)

let hexval c = match c with
  | '0'..'9' -> Char.code c - 48 | 'a'..'f' -> Char.code c - 87 | 'A'..'F' -> Char.code c - 55
  | _ -> failwith "hex"

let gen_payload len seed =
  let rec go i x acc = if i = len then List.rev acc else go (i + 1) ((x * 109 + 89) mod 251) (n_of_int x :: acc) in
  go 0 (seed mod 251) []

let unhex (s : string) : bytes =
  if s = "-" then []
  else if s.[0] = 'z' then begin
    match String.split_on_char 'x' (String.sub s 1 (String.length s - 1)) with
    | [l; sd] -> gen_payload (int_of_string l) (int_of_string sd)
    | _ -> failwith "payload"
  end else begin
    let l = String.length s / 2 in
    List.init l (fun i -> n_of_int (hexval s.[2 * i] * 16 + hexval s.[2 * i + 1]))
  end

let hex (b : bytes) : string =
  if b = [] then "-" else String.concat "" (List.map (fun x -> Printf.sprintf "%02x" (int_of_n x)) b)

let fnv (b : bytes) : int =
  let a = ref 1 and c = ref 0 in
  List.iter (fun x -> a := (!a + int_of_n x) mod 16777213; c := (!c + !a) mod 16777213) b;
  (!c lsl 24) lor !a

let show (b : bytes) : string =
  let l = List.length b in
  if l <= 40 then hex b else Printf.sprintf "#%d:%x" l (fnv b)

let bytes_of_string (s : string) : bytes = List.init (String.length s) (fun i -> n_of_int (Char.code s.[i]))
let string_of_bytes (b : bytes) : string = String.concat "" (List.map (fun x -> String.make 1 (Char.chr (int_of_n x))) b)

(* ---- parsing ---- *)
let idtab : (string, int) Hashtbl.t = Hashtbl.create 16
let id_of (s : string) : n =
  match Hashtbl.find_opt idtab s with
  | Some i -> n_of_int i
  | None -> let i = Hashtbl.length idtab + 1 in Hashtbl.add idtab s i; n_of_int i

let parse_buf (s : string) : bufparam =
  if s = "A" then BAuto
  else if s.[0] = 'S' then BSize (pos_of_decimal (String.sub s 1 (String.length s - 1)))
  else if s.[0] = 'P' then BPerMille (pos_of_decimal (String.sub s 1 (String.length s - 1)))
  else failwith "buf"

let parse_params (s : string) : params =
  let p = ref { p_buckets = BDefault; p_val = BAuto; p_key = BPerMille (n_of_int 1000); p_htx = BPerMille (n_of_int 1000) } in
  if s <> "default" then
    List.iter (fun part ->
      let r = String.sub part 1 (String.length part - 1) in
      match part.[0] with
      | 'B' -> p := { !p with p_buckets = BucketsSize (pos_of_decimal r) }
      | 'C' -> p := { !p with p_buckets = Capacity (pos_of_decimal r) }
      | 'D' -> p := { !p with p_buckets = BDefault }
      | 'V' -> p := { !p with p_val = parse_buf r }
      | 'K' -> p := { !p with p_key = parse_buf r }
      | 'H' -> p := { !p with p_htx = parse_buf r }
      | _ -> failwith "param") (String.split_on_char ',' s);
  !p

let parse_kt = function
  | "string" -> KString | "bytes" -> KBytes | "i64" -> KI64 | "u64" -> KU64 | "vu64" -> KVu64
  | _ -> failwith "ktype"

let parse_flavour = function
  | "iter" -> FIter | "iter_mut" -> FIterMut | "into_iter" -> FIntoIter | "ref_into_iter" -> FRefIntoIter
  | "mut_into_iter" -> FMutIntoIter | "keys" -> FKeys | "values" -> FValues | _ -> failwith "flavour"

let keys_of t = if List.length t > 2 then List.map unhex (String.split_on_char ',' (List.nth t 2)) else []
let kvs_of t =
  if List.length t > 2 then
    List.map (fun kv -> match String.split_on_char ':' kv with [k; v] -> (unhex k, unhex v) | _ -> failwith "kv")
      (String.split_on_char ',' (List.nth t 2))
  else []

(* StrOp: the *_string variant of a byte call (get_string, delete_string, bulk_get_string, bulk_delete_string): executed by
   Strings.sstep, which passes every returned value through Utf8.lossy *)
type parsed = Op of op | StrOp of op | Flavoured of op * flavour | Skip of string

let parse (line : string) : parsed =
  let t = List.filter (fun s -> s <> "") (String.split_on_char ' ' line) in
  let a i = List.nth t i in
  match a 0 with
  | "db" -> Op (ODb (id_of ("d:" ^ a 1), bytes_of_string (a 2)))
  | "dbclone" -> Op (ODbClone (id_of ("d:" ^ a 1), id_of ("d:" ^ a 2)))
  | "map" -> Op (OMap (id_of ("m:" ^ a 1), id_of ("d:" ^ a 2), parse_kt (a 3), bytes_of_string (a 4), parse_params (a 5)))
  | "mapclone" -> Op (OMapClone (id_of ("m:" ^ a 1), id_of ("m:" ^ a 2)))
  | "drop" -> Op (ODrop (id_of ("m:" ^ a 1)))
  | "dropdb" -> Op (ODropDb (id_of ("d:" ^ a 1)))
  | "closeall" -> Op OCloseAll
  | "put" | "putstr" -> Op (OPut (id_of ("m:" ^ a 1), unhex (a 2), unhex (a 3)))
  | "get" -> Op (OGet (id_of ("m:" ^ a 1), unhex (a 2)))
  | "del" -> Op (ODel (id_of ("m:" ^ a 1), unhex (a 2)))
  | "getstr" -> StrOp (OGet (id_of ("m:" ^ a 1), unhex (a 2)))
  | "delstr" -> StrOp (ODel (id_of ("m:" ^ a 1), unhex (a 2)))
  | "has" -> Op (OHas (id_of ("m:" ^ a 1), unhex (a 2)))
  | "len" -> Op (OLen (id_of ("m:" ^ a 1)))
  | "empty" -> Op (OEmpty (id_of ("m:" ^ a 1)))
  | "flush" -> Op (OFlush (id_of ("m:" ^ a 1)))
  | "syncall" -> Op (OSyncAll (id_of ("m:" ^ a 1)))
  | "syncdata" -> Op (OSyncData (id_of ("m:" ^ a 1)))
  | "fill" -> Op (OFill (id_of ("m:" ^ a 1)))
  | "dbsyncall" | "dbsyncdata" -> Op (ODbSync (id_of ("d:" ^ a 1)))
  | "dirty" -> Op (ODirty (id_of ("m:" ^ a 1)))
  | "iter" -> let f = parse_flavour (a 2) in Flavoured (OIter (id_of ("m:" ^ a 1), f), f)
  | "stats" -> Op (OStats (id_of ("m:" ^ a 1)))
  | "bulkget" -> Op (OBulkGet (id_of ("m:" ^ a 1), keys_of t))
  | "bulkdel" -> Op (OBulkDel (id_of ("m:" ^ a 1), keys_of t))
  | "bulkgetstr" -> StrOp (OBulkGet (id_of ("m:" ^ a 1), keys_of t))
  | "bulkdelstr" -> StrOp (OBulkDel (id_of ("m:" ^ a 1), keys_of t))
  | "bulkput" | "bulkputstr" -> Op (OBulkPut (id_of ("m:" ^ a 1), kvs_of t))
  | "putiter" -> Op (OPutIter (id_of ("m:" ^ a 1), kvs_of t))
  | "put@" -> Op (OPutInt (id_of ("m:" ^ a 1), z_of_decimal (a 2), unhex (a 3)))
  | "get@" -> Op (OGetInt (id_of ("m:" ^ a 1), z_of_decimal (a 2)))
  | "del@" -> Op (ODelInt (id_of ("m:" ^ a 1), z_of_decimal (a 2)))
  | "has@" -> Op (OHasInt (id_of ("m:" ^ a 1), z_of_decimal (a 2)))
  | "snap" -> Op (OSnap (bytes_of_string (a 1)))
  | "cpdir" -> Op (OCpDir (bytes_of_string (a 1), bytes_of_string (a 2)))
  | other -> Skip other       (* limit, unlimit, kill9, trace, mutate, cpfile, cpdir: runtime-only *)

(* ---- printing ---- *)
let tagname = function
  | Overflow -> "Overflow" | Corrupt -> "Corrupt" | Unimplemented -> "Unimplemented" | Misaligned -> "Misaligned"
  | BadSig -> "BadSig" | DebugAssert -> "DebugAssert" | BadParam -> "BadParam"

let pairs (l : (n * n) list) : string =
  "[" ^ String.concat ", " (List.map (fun (a, b) -> Printf.sprintf "(%s, %s)" (decimal_of_n a) (decimal_of_n b)) l) ^ "]"

let item fl (k, v) = match fl with
  | FKeys -> show k ^ "="
  | FValues -> "=" ^ show v
  | _ -> show k ^ "=" ^ show v

let dumpdir : string option ref = ref None
let snapno = ref 0

let write_file path (b : bytes) =
  let oc = open_out_bin path in
  List.iter (fun x -> output_char oc (Char.chr (int_of_n x))) b;
  close_out oc

let print_out (fl : flavour) (o : out) : string =
  match o with
  | RUnit -> "ok"
  | RPanic t -> "panic:" ^ tagname t
  | RErr -> "err"
  | RFuel -> "hang"
  | RNoHandle -> "nohandle"
  | ROpt None -> "none"
  | ROpt (Some v) -> "some:" ^ show v
  | RBool b -> if b then "true" else "false"
  | RNum x -> decimal_of_n x
  | RIter (items, last, extras) ->
    let b = Buffer.create 256 in
    Buffer.add_string b "iter";
    List.iter (fun (h, kv) -> Buffer.add_string b (Printf.sprintf " %s %s" (decimal_of_n h) (item fl kv))) items;
    Buffer.add_string b (Printf.sprintf " %s ." (decimal_of_n last));
    List.iter (fun e -> match e with None -> Buffer.add_string b " ." | Some kv -> Buffer.add_string b (" again:" ^ item fl kv)) extras;
    Buffer.contents b
  | RStats st ->
    let (c, pm) = st.st_fill in
    Printf.sprintf "stats fk=%s fv=%s kps=%s vps=%s kl=%s vl=%s kc=[] fill=(%s, %s)"
      (pairs st.st_free_key) (pairs st.st_free_val) (pairs st.st_key_sizes) (pairs st.st_val_sizes)
      (pairs st.st_key_lens) (pairs st.st_val_lens) (decimal_of_n c) (decimal_of_n pm)
  | RVec l ->
    "vec" ^ String.concat "" (List.map (fun e -> match e with None -> " none" | Some v -> " some:" ^ show v) l)
  | RSnap l ->
    incr snapno;
    let l = List.sort (fun (a, _) (b, _) -> compare (string_of_bytes a) (string_of_bytes b)) l in
    let sum b = Printf.sprintf "%d:%x" (List.length b) (fnv b) in
    "snap" ^ String.concat "" (List.map (fun (name, r) ->
      let nm = string_of_bytes name in
      match r with
      | None -> Printf.sprintf " %s.htx=? %s.key=? %s.val=?" nm nm nm
      | Some ((h, k), v) ->
        (match !dumpdir with
         | Some d ->
           let dir = Printf.sprintf "%s/snap%d" d !snapno in
           (try Unix.mkdir dir 0o755 with _ -> ());
           write_file (dir ^ "/" ^ nm ^ ".htx") h; write_file (dir ^ "/" ^ nm ^ ".key") k; write_file (dir ^ "/" ^ nm ^ ".val") v
         | None -> ());
        (* file names through the extracted Names.file_name *)
               let fname kd = string_of_bytes (file_name (bytes_of_string nm) kd) in
               Printf.sprintf " %s=%s %s=%s %s=%s" (fname KHtx) (sum h) (fname KKey) (sum k) (fname KVal) (sum v)) l)

(* ---- which paths of the model a history exercised (written to $VERIF_FEATURES, aggregated into the evidence) ---- *)
let features : (string, int) Hashtbl.t = Hashtbl.create 32
let feat name = Hashtbl.replace features name (1 + (try Hashtbl.find features name with Not_found -> 0))

let position (prev, next) =
  match (prev = N0, next = N0) with
  | (true, true) -> "only" | (true, false) -> "first" | (false, true) -> "last" | (false, false) -> "middle"

let observe_update (w : world) (w' : world) (m : n) (k : bytes) (is_put : bool) =
  match store_at w m, store_at w' m with
  | Some s, Some s' ->
    let a = shape_of s and b = shape_of s' in
    let before = find_at s k and after = find_at s' k in
    let mv = int_of_n (moved a.sh_koffs b.sh_koffs) in
    if is_put then begin
      (match before, after with
       | None, Some _ -> feat "put:new_key"
       | Some (((o, p), nx), v), Some (((o', _), _), v') ->
         feat ("put:overwrite_" ^ position (p, nx));
         if v = v' then feat "put:value_in_place" else feat "put:value_moved";
         if o <> o' then feat "put:key_record_moved"
       | _ -> feat "put:other");
      if mv >= 2 then feat (Printf.sprintf "put:cascade_moved_%s_records" (if mv >= 4 then "4+" else string_of_int mv))
    end else begin
      (match before with
       | Some (((_, p), nx), _) -> feat ("del:present_" ^ position (p, nx))
       | None -> feat "del:absent");
      if mv >= 2 then feat (Printf.sprintf "del:cascade_moved_%s_records" (if mv >= 4 then "4+" else string_of_int (mv - 1)))
    end;
    if b.sh_kfend <> a.sh_kfend then feat "key_file:extended";
    if b.sh_vfend <> a.sh_vfend then feat "val_file:extended";
    if int_of_n b.sh_kfree < int_of_n a.sh_kfree then feat "key_file:free_slot_reused";
    if int_of_n b.sh_vfree < int_of_n a.sh_vfree then feat "val_file:free_slot_reused";
    if int_of_n b.sh_vfend >= 16384 && int_of_n a.sh_vfend < 16384 then feat "val_file:crossed_16KiB";
    if int_of_n b.sh_kfend >= 16384 && int_of_n a.sh_kfend < 16384 then feat "key_file:crossed_16KiB";
    if int_of_n b.sh_vfend >= 2097152 && int_of_n a.sh_vfend < 2097152 then feat "val_file:crossed_2MiB"
  | _ -> ()

let observe (w : world) (w' : world) (o : op) =
  match o with
  | OPut (m, k, _) -> observe_update w w' m k true
  | ODel (m, k) -> observe_update w w' m k false
  | OPutInt (m, x, _) -> observe_update w w' m (key_of_handle w m x) true
  | ODelInt (m, x) -> observe_update w w' m (key_of_handle w m x) false
  | OBulkPut _ | OPutIter _ -> feat "bulk:put"
  | OBulkDel _ -> feat "bulk:delete"
  | OMap _ -> feat "open_or_create"
  | _ -> ()

let run_ops file =
  let ic = open_in file in
  let w = ref world0 in
  let watch = Sys.getenv_opt "VERIF_FEATURES" <> None in
  let inside = ref true in     (* is every call so far inside the domain of the world-level refinement theorem (World_refine.ops_okb)? *)
  (try
     while true do
       let line = String.trim (input_line ic) in
       if line <> "" && line.[0] <> '#' then begin
         (match parse line with
          | Op o ->
            (if watch && !inside && not (op_okb !w o && api_op o) then begin inside := false; feat ("theorem_domain:first_call_outside_" ^ List.hd (String.split_on_char ' ' line)) end);
            let (w', r) = step !w o in (if watch then (try observe !w w' o with _ -> ())); w := w'; print_endline (print_out FIter r)
          | StrOp o ->
            (if watch && !inside && not (op_okb !w o && api_op o) then begin inside := false; feat ("theorem_domain:first_call_outside_" ^ List.hd (String.split_on_char ' ' line)) end);
            feat "string_variant";
            let (w', r) = sstep !w (SStr o) in (if watch then (try observe !w w' o with _ -> ())); w := w'; print_endline (print_out FIter r)
          | Flavoured (o, f) ->
            (if watch && !inside && not (op_okb !w o && api_op o) then inside := false);
            let (w', r) = step !w o in w := w'; print_endline (print_out f r)
          | Skip name -> print_endline ("skip:" ^ name));
         Stdlib.flush stdout
       end
     done
   with End_of_file -> ());
  close_in ic;
  if watch then feat (if !inside then "theorem_domain:history_inside_world_run_refines" else "theorem_domain:history_outside");
  match Sys.getenv_opt "VERIF_FEATURES" with
  | Some path ->
    let oc = open_out path in
    Hashtbl.iter (fun k v -> Printf.fprintf oc "%s %d\n" k v) features;
    close_out oc
  | None -> ()

(* ---- iorun: the byte-level Io model (Io.v) on the same op files.  Per op the API result in the
   format of `run`; `iotrace on|off` / `iodrain` as the Rust runner (the fine I/O event list).
   The record-level model (Model.step) runs alongside: results are compared per call and the Io
   files with Layout.render of the record-level state at every `snap` and at the end; what does
   not agree is written to $VERIF_IO_XCHECK. *)
let io_file_name = function Io.FKey -> "key" | Io.FVal -> "val" | Io.FHtx -> "htx"
let io_event (e : Io.ev) : string =
  match e with
  | Io.EvSeek (f, t) -> Printf.sprintf "%s:s:%s" (io_file_name f) (decimal_of_n t)
  | Io.EvRead (f, p, l) -> Printf.sprintf "%s:r:%s:%s" (io_file_name f) (decimal_of_n p) (decimal_of_n l)
  | Io.EvWrite (f, p, l) -> Printf.sprintf "%s:w:%s:%s" (io_file_name f) (decimal_of_n p) (decimal_of_n l)
  | Io.EvSetLen (f, l) -> Printf.sprintf "%s:l:%s" (io_file_name f) (decimal_of_n l)
  | Io.EvFlush f -> Printf.sprintf "%s:f" (io_file_name f)

let io_run_ops file =
  let ic = open_in file in
  let w = ref world0 in
  let maps : (string, (Io.mp * string * string)) Hashtbl.t = Hashtbl.create 8 in   (* open handles: mid -> state, dir, name *)
  let disk : (string * string, Io.st) Hashtbl.t = Hashtbl.create 8 in             (* (dir, name) -> the files a closed session left *)
  let mutated : (string * string, ((string * int) * n) list) Hashtbl.t = Hashtbl.create 8 in   (* outstanding `mutate`s: (ext, pos) -> original byte *)
  let n_open = ref 0 and n_open_bad = ref 0 and n_open_rej = ref 0 and n_open_mut = ref 0 in
  let dbdirs : (string, string) Hashtbl.t = Hashtbl.create 4 in
  let tracing = ref false in
  let pending : string list ref = ref [] in      (* events since the last drain, newest first *)
  let xc = Buffer.create 256 in
  let n_api = ref 0 and n_api_bad = ref 0 and n_render = ref 0 and n_render_bad = ref 0 in
  let sum b = Printf.sprintf "%d:%x" (List.length b) (fnv b) in
  (* the domain of the cache theorem, decided by the extracted [Io_flat.evs_ok] on the events of each call, started at the
     positions and lengths of the three files before the call (Io_cache.checked_step_in_domain) *)
  let cur_kind = ref "" in
  let open_prev : Io.st option ref = ref None in
  let dom_check (prev : Io.st) (evs : Io.ev list) =
    List.iter (fun f ->
      let x = Io.get_file prev f in
      let ok = evs_ok x.Io.fcs f x.Io.fp (n_of_int (List.length x.Io.fb)) evs in
      feat (Printf.sprintf "cache_domain:%s:%s" !cur_kind (if ok then "in" else "OUT:" ^ io_file_name f)))
      [Io.FKey; Io.FVal; Io.FHtx] in
  let collect mid (m : Io.mp) =
    let (evs, m') = Io.drain m in
    (match Hashtbl.find_opt maps mid, !open_prev with
     | _, Some st -> dom_check st evs; open_prev := None
     | Some (mp, _, _), None -> dom_check mp.Io.m_st evs
     | None, None -> ());
    (if !tracing then pending := List.rev_append (List.map io_event evs) !pending);
    (match Hashtbl.find_opt maps mid with Some (_, d, nm) -> Hashtbl.replace maps mid (m', d, nm) | None -> ());
    m' in
  let render_check why =
    Hashtbl.iter (fun mid (m, _, _) ->
      match store_at !w (id_of ("m:" ^ mid)) with
      | Some s ->
        incr n_render;
        let ((ih, ik), iv) = Io.images m in
        (match render s with
         | Ok ((rh, rk), rv) ->
           if not (ih = rh && ik = rk && iv = rv) then begin
             incr n_render_bad;
             Buffer.add_string xc (Printf.sprintf "render_differs %s map=%s io=(%s %s %s) render=(%s %s %s)\n" why mid (sum ih) (sum ik) (sum iv) (sum rh) (sum rk) (sum rv))
           end
         | _ -> incr n_render_bad; Buffer.add_string xc (Printf.sprintf "render_failed %s map=%s\n" why mid))
      | None -> ()) maps;
    (* the files of closed maps against the record-level model's closed stores (not while a `mutate` is outstanding) *)
    Hashtbl.iter (fun (d, nm) (st : Io.st) ->
      if not (Hashtbl.mem mutated (d, nm)) then
        match snd (step !w (OSnap (bytes_of_string d))) with
        | RSnap l ->
          (match List.assoc_opt (bytes_of_string nm) l with
           | Some (Some ((rh, rk), rv)) ->
             incr n_render;
             let ((ih, ik), iv) = Io.st_images st in
             if not (ih = rh && ik = rk && iv = rv) then begin
               incr n_render_bad;
               Buffer.add_string xc (Printf.sprintf "render_differs(closed) %s map=%s/%s io=(%s %s %s) render=(%s %s %s)\n" why d nm (sum ih) (sum ik) (sum iv) (sum rh) (sum rk) (sum rv))
             end
           | Some None -> incr n_render; incr n_render_bad; Buffer.add_string xc (Printf.sprintf "render_failed(closed) %s map=%s/%s\n" why d nm)
           | None -> ())
        | _ -> ()) disk in
  let lineno = ref 0 in
  let record_level line (mine : string) =
    (* the same call on the record-level model *)
    match parse line with
    | Op o | Flavoured (o, _) ->
      let fl = (match parse line with Flavoured (_, f) -> f | _ -> FIter) in
      let (w', r) = step !w o in
      (if Sys.getenv_opt "VERIF_FEATURES" <> None then (try observe !w w' o with _ -> ()));
      w := w';
      let theirs = print_out fl r in
      incr n_api;
      if theirs <> mine then begin
        incr n_api_bad;
        Buffer.add_string xc (Printf.sprintf "api_differs line=%d op=%s io=%s record=%s\n" !lineno (String.sub line 0 (min 60 (String.length line))) (String.sub mine 0 (min 200 (String.length mine))) (String.sub theirs 0 (min 200 (String.length theirs))))
      end
    | StrOp _ | Skip _ -> () in
  let of_res : 'a. 'a res -> ('a -> string) -> string = fun r f ->
    match r with Ok a -> f a | Panic t -> "panic:" ^ tagname t | IoErr -> "err" | OutOfFuel -> "hang" in
  (try
     while true do
       let line = String.trim (input_line ic) in
       if line <> "" && line.[0] <> '#' then begin
         incr lineno;
         let t = List.filter (fun s -> s <> "") (String.split_on_char ' ' line) in
         let a i = List.nth t i in
         cur_kind := a 0;
         let on_map f =
           match Hashtbl.find_opt maps (a 1) with
           | Some (m, _, _) -> let out = f (a 1) m in record_level line out; out
           | None -> "nohandle" in
         let out =
           match a 0 with
           | "db" -> Hashtbl.replace dbdirs (a 1) (a 2); record_level line "ok"; "ok"
           | "map" ->
             let p = parse_params (a 5) in
             let bk = function BAuto -> Io.BufAuto | _ -> Io.BufSized in
             let dir = Hashtbl.find dbdirs (a 2) and nm = a 4 and t0 = parse_kt (a 3) in
             if Hashtbl.fold (fun _ (_, d, nm') acc -> acc || (d = dir && nm' = nm)) maps false then "unsupported:share"
             else if Hashtbl.mem disk (dir, nm) then begin
               (* the files of an earlier session: Io.open_existing; the bucket parameter is not even passed, the buffer
                  parameters give the chunk sizes of this session *)
               let old = Hashtbl.find disk (dir, nm) in
               let s0 = Io.reopen_st old.Io.s_key.Io.fb old.Io.s_val.Io.fb old.Io.s_htx.Io.fb (bk p.p_key) (bk p.p_val) (bk p.p_htx) in
               let verdict = open_files t0 (Io.st_images s0) in
               let pristine = not (Hashtbl.mem mutated (dir, nm)) in
               match Io.open_existing t0 s0 with
               | Ok (o, s1) ->
                 incr n_open;
                 let agree = (match o, verdict with
                   | Io.Opened _, Accepted | Io.RejectedAt _, Rejected | Io.FreshFile _, Fresh -> true
                   (* a file shorter than 24 bytes: Open.v says ShortRead (its reader has no zero padding), the byte-level
                      model follows the crate (zeros beyond the end): not a disagreement between the two for a refusal *)
                   | Io.RejectedAt _, ShortRead -> true
                   | _ -> false) in
                 (if not agree then begin
                    incr n_open_bad;
                    Buffer.add_string xc (Printf.sprintf "open_differs line=%d Io.open_existing=%s Open.open_files=%s\n" !lineno
                      (match o with Io.Opened _ -> "Opened" | Io.RejectedAt f -> "RejectedAt:" ^ io_file_name f | Io.FreshFile f -> "FreshFile:" ^ io_file_name f)
                      (match verdict with Accepted -> "Accepted" | Rejected -> "Rejected" | ShortRead -> "ShortRead" | Fresh -> "Fresh"))
                  end);
                 (match o with
                  | Io.Opened m ->
                    Hashtbl.remove disk (dir, nm);
                    Hashtbl.replace maps (a 1) (m, dir, nm);
                    cur_kind := "reopen"; open_prev := Some s0;
                    ignore (collect (a 1) m); record_level line "ok"; "ok"
                  | Io.RejectedAt _ | Io.FreshFile _ ->
                    cur_kind := "rejected_open"; dom_check s0 (List.rev s1.Io.s_log);
                    (if !tracing then pending := List.rev_append (List.map io_event (List.rev s1.Io.s_log)) !pending);
                    Hashtbl.replace disk (dir, nm) (Io.clear_log s1);    (* what the model says the rejected open left *)
                    let out = (match o with Io.RejectedAt _ -> incr n_open_rej; "panic:BadSig" | Io.FreshFile f -> "unsupported:fresh:" ^ io_file_name f | _ -> assert false) in
                    (* a mutated byte is unknown to the record-level model: its world stays as it is, as after a panic *)
                    (if pristine then record_level line out else incr n_open_mut);
                    out)
               | Panic tg -> "panic:" ^ tagname tg | IoErr -> "err" | OutOfFuel -> "hang"
             end
             else
             (match buckets_of_param p.p_buckets with
              | Ok nb ->
                of_res (Io.create (parse_kt (a 3)) nb (bk p.p_key) (bk p.p_val) (bk p.p_htx)) (fun m ->
                  Hashtbl.replace maps (a 1) (m, dir, nm);
                  cur_kind := "create"; open_prev := Some (Io.empty_st (bk p.p_key) (bk p.p_val) (bk p.p_htx));
                  ignore (collect (a 1) m); record_level line "ok"; "ok")
              | Panic tg -> "panic:" ^ tagname tg | _ -> "err")
           | "put" -> on_map (fun mid m -> of_res (Io.put m (unhex (a 2)) (unhex (a 3))) (fun m' -> ignore (collect mid m'); "ok"))
           | "get" -> on_map (fun mid m -> of_res (Io.get m (unhex (a 2))) (fun (o, m') -> ignore (collect mid m'); print_out FIter (ROpt o)))
           | "del" -> on_map (fun mid m -> of_res (Io.del m (unhex (a 2))) (fun (o, m') -> ignore (collect mid m'); print_out FIter (ROpt o)))
           | "has" -> on_map (fun mid m -> of_res (Io.has m (unhex (a 2))) (fun (b, m') -> ignore (collect mid m'); print_out FIter (RBool b)))
           | "len" -> on_map (fun mid m -> of_res (Io.len m) (fun (c, m') -> ignore (collect mid m'); print_out FIter (RNum c)))
           | "empty" -> on_map (fun mid m -> of_res (Io.len m) (fun (c, m') -> ignore (collect mid m'); print_out FIter (RBool (c = N0))))
           | "iter" ->
             let fl = parse_flavour (a 2) in
             on_map (fun mid m -> of_res (Io.iter_run m) (fun (((items, h), ex), m') -> ignore (collect mid m'); print_out fl (RIter (items, h, ex))))
           | "stats" -> on_map (fun mid m -> of_res (Io.stats_of m) (fun (st, m') -> ignore (collect mid m'); print_out FIter (RStats st)))
           | "iotrace" -> tracing := (a 1 = "on"); pending := []; "ok"
           | "iodrain" -> let l = List.rev !pending in pending := []; String.concat " " ("io" :: l)
           | "closeall" ->
             render_check (Printf.sprintf "line=%d" !lineno);
             (* the drop of the handles performs no traced I/O; the files stay as they are *)
             Hashtbl.iter (fun _ ((m : Io.mp), d, nm) -> Hashtbl.replace disk (d, nm) (Io.clear_log m.Io.m_st)) maps;
             Hashtbl.reset maps;
             record_level line "ok"; "ok"
           | "drop" | "dropdb" -> render_check (Printf.sprintf "line=%d" !lineno); record_level line "ok"; "ok"
           | "mutate" ->
             (* mutate <dir> <name>.<ext> <pos> <byte>: one byte of a closed file *)
             let d = a 1 in
             (match String.rindex_opt (a 2) '.' with
              | None -> "skip:mutate"
              | Some i ->
                let nm = String.sub (a 2) 0 i and ext = String.sub (a 2) (i + 1) (String.length (a 2) - i - 1) in
                let pos = int_of_string (a 3) and nb = n_of_int (int_of_string (a 4)) in
                (match Hashtbl.find_opt disk (d, nm) with
                 | None -> "skip:mutate"
                 | Some st ->
                   let orig = ref N0 in
                   let chg (f : Io.file) = { f with Io.fb = List.mapi (fun j x -> if j = pos then (orig := x; nb) else x) f.Io.fb } in
                   let st' = (match ext with
                     | "key" -> { st with Io.s_key = chg st.Io.s_key }
                     | "val" -> { st with Io.s_val = chg st.Io.s_val }
                     | "htx" -> { st with Io.s_htx = chg st.Io.s_htx }
                     | _ -> failwith "mutate ext") in
                   Hashtbl.replace disk (d, nm) st';
                   let l = (try Hashtbl.find mutated (d, nm) with Not_found -> []) in
                   let first = (try List.assoc (ext, pos) l with Not_found -> !orig) in
                   let l = List.remove_assoc (ext, pos) l in
                   let l = if first = nb then l else ((ext, pos), first) :: l in
                   (if l = [] then Hashtbl.remove mutated (d, nm) else Hashtbl.replace mutated (d, nm) l);
                   "ok"))
           | "truncfile" ->
             (* truncfile <dir> <name>.<ext> <len>: a closed file cut to its first <len> bytes; the record-level model does
                not know short files: the map counts as mutated from here on *)
             let d = a 1 in
             (match String.rindex_opt (a 2) '.' with
              | None -> "skip:truncfile"
              | Some i ->
                let nm = String.sub (a 2) 0 i and ext = String.sub (a 2) (i + 1) (String.length (a 2) - i - 1) in
                let len = int_of_string (a 3) in
                (match Hashtbl.find_opt disk (d, nm) with
                 | None -> "skip:truncfile"
                 | Some st ->
                   let rec take n l = if n <= 0 then [] else (match l with [] -> [] | x :: r -> x :: take (n - 1) r) in
                   let chg (f : Io.file) = { f with Io.fb = take len f.Io.fb } in
                   let st' = (match ext with
                     | "key" -> { st with Io.s_key = chg st.Io.s_key }
                     | "val" -> { st with Io.s_val = chg st.Io.s_val }
                     | "htx" -> { st with Io.s_htx = chg st.Io.s_htx }
                     | _ -> failwith "truncfile ext") in
                   Hashtbl.replace disk (d, nm) st';
                   let l = (try Hashtbl.find mutated (d, nm) with Not_found -> []) in
                   Hashtbl.replace mutated (d, nm) (((ext, -1), N0) :: l);
                   "ok"))
           | "snap" ->
             render_check (Printf.sprintf "line=%d" !lineno);
             incr snapno;
             let l = Hashtbl.fold (fun _ (m, d, nm) acc -> if d = a 1 then (nm, Io.images m) :: acc else acc) maps [] in
             let l = Hashtbl.fold (fun (d, nm) st acc -> if d = a 1 then (nm, Io.st_images st) :: acc else acc) disk l in
             let l = List.sort (fun (x, _) (y, _) -> compare x y) l in
             "snap" ^ String.concat "" (List.map (fun (nm, ((h, k), v)) ->
               (match !dumpdir with
                | Some d ->
                  let dir = Printf.sprintf "%s/snap%d" d !snapno in
                  (try Unix.mkdir dir 0o755 with _ -> ());
                  write_file (dir ^ "/" ^ nm ^ ".htx") h; write_file (dir ^ "/" ^ nm ^ ".key") k; write_file (dir ^ "/" ^ nm ^ ".val") v
                | None -> ());
               (* file names through the extracted Names.file_name *)
               let fname kd = string_of_bytes (file_name (bytes_of_string nm) kd) in
               Printf.sprintf " %s=%s %s=%s %s=%s" (fname KHtx) (sum h) (fname KKey) (sum k) (fname KVal) (sum v)) l)
           | other -> "skip:" ^ other in
         print_endline out;
         Stdlib.flush stdout
       end
     done
   with End_of_file -> ());
  close_in ic;
  render_check "end";
  (match Sys.getenv_opt "VERIF_FEATURES" with
   | Some path ->
     let oc = open_out path in
     Hashtbl.iter (fun k v -> Printf.fprintf oc "%s %d\n" k v) features;
     close_out oc
   | None -> ());
  match Sys.getenv_opt "VERIF_IO_XCHECK" with
  | Some path ->
    let oc = open_out path in
    Printf.fprintf oc "summary api_calls=%d api_differ=%d opens_of_existing=%d open_differ=%d opens_rejected=%d opens_of_mutated_files=%d render_checks=%d render_differ=%d\n"
      !n_api !n_api_bad !n_open !n_open_bad !n_open_rej !n_open_mut !n_render !n_render_bad;
    output_string oc (Buffer.contents xc);
    close_out oc
  | None -> ()

(* sizing digests: the same lines as `harness sizing-val` / `sizing-key-sweep` *)
let sizing_val max =
  let last = ref (-1, -1) in
  for len = 0 to max do
    let l = n_of_int len in
    let need = val_need l in
    let slot = int_of_n (roundup val_cfg need) in
    let epl = int_of_n need - (int_of_n (enc_len l) + len) in
    if !last <> (epl, slot) then begin Printf.printf "v %d %d %d\n" len epl slot; last := (epl, slot) end
  done

let sizing_key file =
  (* lines "klen voff noff" -> "k klen voff noff epl pl slot" *)
  let ic = open_in file in
  (try
     while true do
       let line = String.trim (input_line ic) in
       match List.filter (fun s -> s <> "") (String.split_on_char ' ' line) with
       | [k; vo; no] ->
         let kl = pos_of_decimal k and v = pos_of_decimal vo and nx = pos_of_decimal no in
         let need = key_need kl v nx in
         let slot = roundup key_cfg need in
         let pl = int_of_n (enc_len kl) + int_of_n kl + int_of_n (enc_len v) + int_of_n (enc_len nx) in
         Printf.printf "k %s %s %s %d %d %s\n" k vo no (int_of_n need - pl) pl (decimal_of_n slot)
       | _ -> ()
     done
   with End_of_file -> ());
  close_in ic

let sizing_key_sweep max repsfile =
  let ic = open_in repsfile in
  let reps = ref [] in
  (try while true do let l = String.trim (input_line ic) in if l <> "" then reps := (l, pos_of_decimal l) :: !reps done with End_of_file -> ());
  close_in ic;
  let reps = List.rev !reps in
  for klen = 0 to max do
    let b = Buffer.create 64 in
    Buffer.add_string b (Printf.sprintf "K %d" klen);
    let last = ref (-1) in
    let kl = n_of_int klen in
    List.iter (fun (vs, v) -> List.iter (fun (ns, nx) ->
      let slot = int_of_n (roundup key_cfg (key_need kl v nx)) in
      if slot <> !last then begin Buffer.add_string b (Printf.sprintf " %s/%s:%d" vs ns slot); last := slot end) reps) reps;
    print_endline (Buffer.contents b)
  done

(* conversions and hashes: the same lines as `harness conv` *)
let hexn (x : n) : string =
  (* hex of a number below 2^64 *)
  let rec go p acc = match p with
    | XH -> 1 :: acc | XO q -> go q (0 :: acc) | XI q -> go q (1 :: acc) in
  match x with
  | N0 -> "0"
  | Npos p ->
    let bits = go p [] in (* most significant first *)
    let pad = (4 - List.length bits mod 4) mod 4 in
    let bits = List.init pad (fun _ -> 0) @ bits in
    let b = Buffer.create 16 in
    let rec nib = function
      | a :: bb :: c :: d :: rest -> Buffer.add_string b (Printf.sprintf "%x" (a * 8 + bb * 4 + c * 2 + d)); nib rest
      | _ -> () in
    nib bits; Buffer.contents b

let big_decimal_of_n (x : n) : string =
  (* decimal of numbers up to 2^64 via double-dabble on a digit list *)
  let rec bits p acc = match p with XH -> 1 :: acc | XO q -> bits q (0 :: acc) | XI q -> bits q (1 :: acc) in
  match x with
  | N0 -> "0"
  | Npos p ->
    let digits = ref [ 0 ] in
    List.iter (fun bit ->
      let carry = ref bit in
      digits := List.rev (List.map (fun d -> let v = d * 2 + !carry in carry := v / 10; v mod 10) (List.rev !digits));
      if !carry > 0 then digits := !carry :: !digits) (bits p []);
    String.concat "" (List.map string_of_int !digits)

let decimal_of_z (x : z) : string = match x with
  | Z0 -> "0" | Zpos p -> big_decimal_of_n (Npos p) | Zneg p -> "-" ^ big_decimal_of_n (Npos p)

let conv file =
  let ic = open_in file in
  (try
     while true do
       let line = String.trim (input_line ic) in
       match List.filter (fun s -> s <> "") (String.split_on_char ' ' line) with
       | [ "u"; xs ] ->
         let x = pos_of_decimal xs in
         let a = of_u64 x and v = of_vu64 x and sb = of_u64_be x in
         let back = big_decimal_of_n (to_u64 a) in
         let vback = match to_vu64 v with Some y -> big_decimal_of_n y | None -> "panic" in
         Printf.printf "u %s u64=%s u64r=%s back=%s backv=%s vu64=%s vu64r=%s vback=%s vbackv=%s str=%s strr=%s bytes=%s bytesr=%s hu=%s hv=%s\n"
           xs (hex a) (hex a) back back (hex v) (hex v) vback vback (hex sb) (hex sb) (hex sb) (hex sb)
           (hexn (hash_value a)) (hexn (hash_value v))
       | [ "i"; xs ] ->
         let x = z_of_decimal xs in
         let a = of_i64 x in
         let back = decimal_of_z (to_i64 a) in
         Printf.printf "i %s i64=%s i64r=%s back=%s backv=%s hi=%s\n" xs (hex a) (hex a) back back (hexn (hash_value a))
       | [ "c"; t; ha; hb ] ->
         let r = cmp_eq (parse_kt t) (unhex ha) (unhex hb) in
         Printf.printf "c %s %s %s %s\n" t ha hb (match r with Ok true -> "eq" | Ok false -> "ne" | _ -> "panic")
       | [ "h"; hk ] ->
         let h = hexn (hash_value (unhex hk)) in
         Printf.printf "h %s %s %s %s %s %s\n" hk h h h h h
       | _ -> ()
     done
   with End_of_file -> ());
  close_in ic

let buckets file =
  (* lines "b x" / "c x" -> derived bucket count and created file length *)
  let ic = open_in file in
  (try
     while true do
       let line = String.trim (input_line ic) in
       match List.filter (fun s -> s <> "") (String.split_on_char ' ' line) with
       | [ k; xs ] ->
         let x = pos_of_decimal xs in
         let p = if k = "b" then BucketsSize x else Capacity x in
         (match buckets_of_param p with
          | Ok nn ->
            let h = htx_create nn in
            (* the file grows by one byte with the first bucket write when n < 8; creation + close without update *)
            Printf.printf "%s %s %s %s\n" k xs (decimal_of_n nn) (decimal_of_n h.hend)
          | _ -> Printf.printf "%s %s panic\n" k xs)
       | _ -> ()
     done
   with End_of_file -> ());
  close_in ic

(* ---- rabuf: the extracted model of rabuf::BufFile (Cache.v, module Rabuf) on the op lines of
   `harness rabuf`.  One line per op; after `panic:*`, `err` or `hang` nothing more is printed
   (the state of the real object after an unwound call is not specified). *)
let rec nat_of_int (i : int) : nat = if i <= 0 then O else S (nat_of_int (i - 1))
let rabuf_fuel = lazy (nat_of_int 100000)

let rabuf file =
  let open Rabuf in
  let ic = open_in file in
  let disk : bytes ref = ref [] in
  let cur : cache option ref = ref None in
  let sum b = Printf.sprintf "%d:%x" (List.length b) (fnv b) in
  let stop s = print_endline s; Stdlib.flush stdout; exit 0 in
  let bad = function Panic t -> stop ("panic:" ^ tagname t) | IoErr -> stop "err" | OutOfFuel -> stop "hang" | Ok _ -> assert false in
  let num s = pos_of_decimal s in
  let signed s = if String.length s > 0 && s.[0] = '-' then (true, num (String.sub s 1 (String.length s - 1))) else (false, num s) in
  (* the file-size limit (`limit <bytes>` / `unlimit`): every call goes through Cache_fault.RabufF.cstep_f, which is cstep when
     there is no limit (cstep_f_none) and says what state a call refused by the limit leaves (`err:FileTooLarge`, the run goes on) *)
  let lim : n option ref = ref None in
  let run_op (o : op) : string =
    match !cur with
    | None -> "nohandle"
    | Some c ->
      (match RabufF.cstep_f !lim (Lazy.force rabuf_fuel) c o with
       | RabufF.FOk (c1, r) ->
         cur := Some c1;
         (match r with RUnitC -> "ok" | RPos p -> decimal_of_n p | RData b -> show b | RCount k -> decimal_of_n k)
       | RabufF.FErr c1 -> cur := Some c1; "err:FileTooLarge"
       | RabufF.FStop (RabufF.SPanic t) -> bad (Panic t)
       | RabufF.FStop RabufF.SIoErr -> bad IoErr
       | RabufF.FStop RabufF.SOutOfFuel -> bad OutOfFuel) in
  (try
     while true do
       let line = String.trim (input_line ic) in
       if line <> "" && line.[0] <> '#' then begin
         let t = List.filter (fun s -> s <> "") (String.split_on_char ' ' line) in
         let a i = List.nth t i in
         let s =
           match a 0 with
           | "open" ->
             (match !cur with Some c -> disk := RabufF.close_f !lim c | None -> ());
             let r = match a 1 with
               | "cap" -> open_cap (num (a 2)) (num (a 3)) !disk
               | "permille" -> open_permille (num (a 2)) (num (a 3)) !disk
               | "auto" -> open_auto !disk
               | "size" -> open_param (BSizeP (num (a 2))) !disk
               | "pm" -> open_param (BPerMilleP (num (a 2))) !disk
               | _ -> failwith "open" in
             (match r with Ok c -> cur := Some c; "ok" | e -> cur := None; bad e)
           | "seek" ->
             let (neg, x) = signed (a 2) in
             run_op (OSeek (match a 1 with "start" -> SeekStart x | "end" -> SeekEnd (neg, x) | "cur" -> SeekCur (neg, x) | _ -> failwith "seek"))
           | "read" -> run_op (ORead (num (a 1)))
           | "readp" -> run_op (OReadPart (num (a 1)))
           | "reads" -> run_op (OReadSmall (true, num (a 1), num (a 1)))
           | "readms" | "readu" -> run_op (OReadSmall (false, num (a 1), num (a 1)))
           | "readm" -> if int_of_string (a 1) > 8 then stop "panic:DebugAssert" else run_op (OReadSmall (false, n_of_int 8, num (a 1)))
           | "write" -> run_op (OWrite (unhex (a 1)))
           | "writep" -> run_op (OWritePart (unhex (a 1)))
           | "writes" -> run_op (OWriteSmall (true, unhex (a 1)))
           | "writeu" | "write64" -> run_op (OWriteSmall (false, unhex (a 1)))
           | "writez" -> run_op (OWriteSmall (false, List.init (int_of_string (a 1)) (fun _ -> N0)))
           | "flush" -> run_op OFlush
           | "syncall" -> run_op (OSync true)
           | "syncdata" -> run_op (OSync false)
           | "setlen" -> run_op (OSetLen (num (a 1)))
           | "prepare" -> run_op (OPrepare (num (a 1)))
           | "clear" -> run_op OClear
           | "fill" -> run_op OFill
           | "close" -> (match !cur with Some c -> disk := RabufF.close_f !lim c; cur := None; "ok" | None -> "nohandle")
           | "limit" -> lim := Some (num (a 1)); "ok"
           | "unlimit" -> lim := None; "ok"
           | "disk" -> sum (match !cur with Some c -> c.k_disk | None -> !disk)
           | other -> failwith ("rabuf op " ^ other) in
         print_endline s;
         Stdlib.flush stdout
       end
     done
   with End_of_file -> ());
  close_in ic

(* the Coq reader [Load.load] (proved: load (render s) = s) on real files *)
let read_file path : bytes =
  let ic = open_in_bin path in
  let n = in_channel_length ic in
  let s = really_input_string ic n in
  close_in ic;
  List.init n (fun i -> n_of_int (Char.code s.[i]))

let load_files dir name =
  let f e = read_file (Filename.concat dir (name ^ "." ^ e)) in
  match load KBytes ((f "htx", f "key"), f "val") with
  | Ok s ->
    (match contents s with
     | Ok l ->
       let items = List.sort compare (List.map (fun (k, v) -> show k ^ "=" ^ show v) l) in
       Printf.printf "load ok n=%s count=%s entries=%d %s\n" (decimal_of_n s.hx.nb) (decimal_of_n s.hx.count) (List.length l) (String.concat " " items)
     | _ -> print_endline "load bad:contents")
  | Panic t -> Printf.printf "load bad:panic:%s\n" (tagname t)
  | OutOfFuel -> print_endline "load bad:cycle"
  | IoErr -> print_endline "load bad:ioerr"

(* String::from_utf8_lossy as modelled in Utf8.v: the same lines as `harness lossy` *)
let lossy_file file =
  let ic = open_in file in
  (try
     while true do
       let t = String.trim (input_line ic) in
       if t <> "" then begin
         let b = if t = "-" then [] else List.init (String.length t / 2) (fun i -> n_of_int (hexval t.[2 * i] * 16 + hexval t.[2 * i + 1])) in
         Printf.printf "%s %s\n" t (hex (lossy b))
       end
     done
   with End_of_file -> ());
  close_in ic

let () =
  match Array.to_list Sys.argv with
  | _ :: "iorun" :: file :: rest ->
    (match rest with "--dump" :: d :: _ -> dumpdir := Some d | _ -> ());
    io_run_ops file
  | [ _; "load"; dir; name ] -> load_files dir name
  | [ _; "rabuf"; file ] -> rabuf file
  | [ _; "lossy"; file ] -> lossy_file file
  | _ :: "run" :: file :: rest ->
    (match rest with "--dump" :: d :: _ -> dumpdir := Some d | _ -> ());
    run_ops file
  | [ _; "sizing-val"; max ] -> sizing_val (int_of_string max)
  | [ _; "sizing-key"; file ] -> sizing_key file
  | [ _; "sizing-key-sweep"; max; reps ] -> sizing_key_sweep (int_of_string max) reps
  | [ _; "conv"; file ] -> conv file
  | [ _; "buckets"; file ] -> buckets file
  | _ -> prerr_endline "usage: driver run <ops> [--dump dir] | sizing-val <max> | sizing-key <file> | sizing-key-sweep <max> <repsfile> | conv <file> | buckets <file>"; exit 2
