#!/usr/bin/env python3
# generates theories/Io_flat_upd.v: hand-written pieces + pasted line ranges of Io_htx.v / Io_pieces.v /
# Io_updates.v with patches (every patch is asserted to apply exactly once / the stated number of times)
import re,sys,os
G='/root/scratch/ioupd/gen/'
T='/root/scratch/ioupd/coq/theories/'
STOP=sys.argv[1] if len(sys.argv)>1 else 'all'
def lines(f,a,b):
    L=open(T+f).read().split('\n')
    return '\n'.join(L[a-1:b])+'\n'
def rep(t,old,new,count=1):
    assert t.count(old)==count, (old[:70], t.count(old))
    return t.replace(old,new)
def hand(f): return open(G+f).read()
out=hand('upd_head.v')
def finish():
    open(T+'Io_flat_upd.v','w').write(out)
    sys.exit(0)
if STOP=='head': finish()

# ---------------- PART 2: Io_htx.v writers
out+=hand('upd_htx.v')
w=lines('Io_htx.v',578,588)+lines('Io_htx.v',595,633)+lines('Io_htx.v',639,767)+'\n'+lines('Io_htx.v',777,804)
# write_item_count_render: the step is built by hand
w=rep(w,'''  split; [|split; [|split]].
  - rewrite Hw. cbn [fb get_file]. unfold holds in Hh. rewrite Hh.''',
'''  split; [split; [|split; [|split]]|].
  - rewrite Hw. cbn [fb get_file]. unfold holds in Hh. rewrite Hh.''')
w=rep(w,'''    split; [eapply appended_trans; eassumption|]. repeat constructor.
Qed.''','''    split; [eapply appended_trans; eassumption|]. repeat constructor.
  - (* tight: a seek, then a write at the position of the seek *)
    apply (tight_trans _ s1); [apply tight_seek|]. apply tight_write. rewrite Hf. exact Hin.
Qed.''')
# write_key_piece_offset_render: the bitmap byte read, the two writes
w=rep(w,'''  destruct (fstep_read_le FHtx 1 s1) as (s2 & Hr & F2).''',
'''  assert (HRD : fp (get_file s1 FHtx) + 1 <= fend (get_file s1 FHtx) + slack FHtx).
  { (* tight: with fewer than 8 buckets the bitmap byte read lies at the end of the file *)
    rewrite (fstep_file _ _ _ _ _ F1). unfold fend. cbn [fb fp slack]. lia. }
  destruct (fstep_read_le FHtx 1 s1 HRD) as (s2 & Hr & F2).''')
w=rep(w,'''  pose proof (fstep_write FHtx [b'] s3) as F4.''',
'''  assert (HW3 : fp (get_file s3 FHtx) <= fend (get_file s3 FHtx)).
  { (* tight: the write follows a seek *) rewrite (fstep_file _ _ _ _ _ F3). unfold fend. cbn [fb fp]. lia. }
  pose proof (fstep_write FHtx [b'] s3 HW3) as F4.''')
w=rep(w,'''  pose proof (fstep_write FHtx (le_bytes 8 off) s5) as F6.''',
'''  assert (HW5 : fp (get_file s5 FHtx) <= fend (get_file s5 FHtx)).
  { (* tight: the write follows a seek *) rewrite (fstep_file _ _ _ _ _ F5). unfold fend. cbn [fb fp]. unfold q. lia. }
  pose proof (fstep_write FHtx (le_bytes 8 off) s5 HW5) as F6.''')
# read_item_count_fstep
w=rep(w,'''  exists s2. split; [exact Hr|]. eapply fstep_trans; [exact F1|].
  rewrite (fstep_file _ _ _ _ _ F1) in Hf. cbn [fb fp fcs] in Hf.
  split; [split; [rewrite Hf, (fstep_file _ _ _ _ _ F1); reflexivity|exact Ho]|].''',
'''  exists s2. split; [exact Hr|]. eapply fstep_trans; [exact F1|].
  assert (HT : tight s1 s2).
  { (* tight: the count field lies inside the header *)
    apply (tightx_read_le slack FHtx 8 s1 _ s2 Hr).
    assert (Himg : blen (render_htx sig2 h) = hend h) by (apply img_blen; assumption).
    rewrite (fstep_file _ _ _ _ _ F1). unfold fend. cbn [fb fp slack]. lia. }
  rewrite (fstep_file _ _ _ _ _ F1) in Hf. cbn [fb fp fcs] in Hf.
  split; [|exact HT].
  split; [split; [rewrite Hf, (fstep_file _ _ _ _ _ F1); reflexivity|exact Ho]|].''')
out+=w
if STOP=='htx': finish()

# ---------------- PART 3: Io_pieces.v
out+=hand('upd_cursors.v')
p=lines('Io_pieces.v',334,1258)+'\n'+lines('Io_pieces.v',1260,1380)
p=rep(p,"Lemma looked_ro s s' : looked s s' -> ro_step s s'.","Lemma looked_ro s s' : looked s s' -> rot s s'.")
# relink_prev_image: the link field is written by [write_n] directly
p=rep(p,'''  { eapply frame_trans; [eapply rcur_frame; exact Hc2|]. eapply upd_file_frame; exact Hu. }''',
'''  { eapply frame_trans; [eapply rcur_frame; exact Hc2|]. eapply upd_file_frame; [exact Hu|].
    (* tight: the write follows reads that ended inside the file *) apply tight_write. eapply rcur_in; exact Hc2. }''')
# a seek between two steps
p=rep(p,'''split; [rewrite Ea; reflexivity|exact Oa].''','''(* tight: *) exact (frame_seek _ _).''',3)
out+='(** *** Io_pieces.v from its section [pieces] on *)\n'+p
if STOP=='pieces': finish()

# ---------------- PART 4: Io_updates.v
u1=lines('Io_updates.v',19,63)
u2=lines('Io_updates.v',64,78)
u3=lines('Io_updates.v',115,476)
u4=lines('Io_updates.v',487,687)
u5=lines('Io_updates.v',689,721)
# the read-only lemmas of Io_flat_ro.v give the strengthened [ro_step]; [calls_between] is added
u3=rep(u3,'''  pose proof pow31_lt_pow64. eapply key_read_piece_image; try eassumption. lia.''',
'''  pose proof pow31_lt_pow64. (* tight: *) apply (rot_ex (key_read_piece o) (key_read_piece_calls o)).
  eapply key_read_piece_image; try eassumption. lia.''')
u3=rep(u3,'''  pose proof pow31_lt_pow64. eapply read_piece_only_bucket_next_offset_image; try eassumption. lia.''',
'''  pose proof pow31_lt_pow64.
  (* tight: *) apply (rot_ex (read_piece_only_bucket_next_offset o) (read_piece_only_bucket_next_offset_calls o)).
  eapply read_piece_only_bucket_next_offset_image; try eassumption. lia.''')
u3=rep(u3,'''  pose proof pow31_lt_pow64. eapply val_read_piece_image; try eassumption. lia.''',
'''  pose proof pow31_lt_pow64. (* tight: *) apply (rot_ex (val_read_piece o) (val_read_piece_calls o)).
  eapply val_read_piece_image; try eassumption. lia.''')
u3=rep(u3,'''  pose proof pow31_lt_pow64. eapply read_piece_only_payload_val_image; try eassumption. lia.''',
'''  pose proof pow31_lt_pow64.
  (* tight: *) apply (rot_ex (read_piece_only_payload FVal o) (read_piece_only_payload_calls FVal o)).
  eapply read_piece_only_payload_val_image; try eassumption. lia.''')
u3=rep(u3,'''  exact (read_key_piece_offset_render sg h Hsg Hw Hhd Hn Hc x i Hh Hi).''',
'''  (* tight: *) exact (rot_ex (read_key_piece_offset i) (read_key_piece_offset_calls i) x _
           (read_key_piece_offset_render sg h Hsg Hw Hhd Hn Hc x i Hh Hi)).''')
u3=rep(u3,'(_ & _ & Hh & _ & Hcs)','(_ & _ & Hh & _ & Hcs & _)',2)
# section top
u4=rep(u4,'''Hypothesis Hcsv : 0 < fcs (get_file (m_st m) FVal).
''','''Hypothesis Hcsv : 0 < fcs (get_file (m_st m) FVal).
Hypothesis Hx0 : x0 = m_st m.    (* tight: the origin of the steps is the state of [m] *)
''')
u4=rep(u4,'''  - unfold sim, Io_htx.holds, hold. cbn [get_file]. rewrite A, B, C. subst himg. auto.''',
'''  - unfold sim, Io_htx.holds, hold. cbn [get_file]. rewrite A, B, C. subst himg. rewrite Hx0. auto 10 using tight_refl.''')
u4=rep(u4,'''  0 < fcs (get_file (m_st (with_st m x)) FKey) /\\ 0 < fcs (get_file (m_st (with_st m x)) FVal).''',
'''  0 < fcs (get_file (m_st (with_st m x)) FKey) /\\ 0 < fcs (get_file (m_st (with_st m x)) FVal) /\\
  tight (m_st m) (m_st (with_st m x)).''')
u4=rep(u4,'''  destruct H as (_ & _ & _ & A & B). cbn [with_st m_st m_kt m_n]. auto.''',
'''  destruct H as (_ & _ & _ & A & B & T). rewrite Hx0 in T. cbn [with_st m_st m_kt m_n]. auto 10.''')
u4=rep(u4,'''  destruct (find_refines_st s ch Hinv Hfit Hhwf H64 kfr vfr Hki Hvi kimg vimg Hrk Hrv m Hkt Hmn key o (m_st m) H3 Hf)
    as (x1 & -> & R1). cbn [rbind].''',
'''  destruct (rot_ex (find m key) (find_calls m key) _ _ (* tight: *)
              (find_refines_st s ch Hinv Hfit Hhwf H64 kfr vfr Hki Hvi kimg vimg Hrk Hrv m Hkt Hmn key o (m_st m) H3 Hf))
    as (x1 & -> & R1). cbn [rbind].''',2)
TAIL='''    0 < fcs (get_file (m_st m') FKey) /\\ 0 < fcs (get_file (m_st m') FVal).'''
TAILN='''    0 < fcs (get_file (m_st m') FKey) /\\ 0 < fcs (get_file (m_st m') FVal) /\\ tight (m_st m) (m_st m').'''
u4=rep(u4,TAIL,TAILN,2)
u5=rep(u5,TAIL,TAILN,2)
u5=rep(u5,'''  apply (put0_refines (touch s) m himg kimg vimg (wf_state_touch s Hwf) H64 Hr Hkt Hmn Him Hck Hcv key v s' Hroom Hkl Hvl Hput).''',
'''  apply (put0_refines (m_st m) (touch s) m himg kimg vimg (wf_state_touch s Hwf) H64 Hr Hkt Hmn Him Hck Hcv eq_refl key v s' Hroom Hkl Hvl Hput).''')
u5=rep(u5,'''  apply (del0_refines (touch s) m himg kimg vimg (wf_state_touch s Hwf) H64 Hr Hkt Hmn Him Hck Hcv key s' r Hroom Hdel).''',
'''  apply (del0_refines (m_st m) (touch s) m himg kimg vimg (wf_state_touch s Hwf) H64 Hr Hkt Hmn Him Hck Hcv eq_refl key s' r Hroom Hdel).''')
u=('\n(** ** PART 4. Io_updates.v, replayed for tight steps *)\n\n'+u1+
   '(** tight: [x0] is the state the operation started from *)\nSection with_origin.\nVariable x0 : st.\n\n'+u2+'\n'+hand('upd_sim.v')+u3+'\n'+u4+
   '\nEnd with_origin.\n\n'+u5)
u=re.sub(r'\bro_step','rot',u)
u=u.replace('Io_htx.holds','holds')
out+=u
if STOP=='updates': finish()
out+=hand('upd_tail.v')
finish()
