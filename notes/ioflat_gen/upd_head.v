(** * Io_flat_upd: the calls of the UPDATING operations lie in the domain of the cache theorem, and
    so does a whole history, creation included.

    Io_flat.v: every operation of [Io] is, file by file, a run of canonical buffer calls
    ([calls_between]); [calls_ok] / [evs_ok] decide whether such a run is inside the domain of
    [Flatx.xrun].  Io_flat_ro.v discharged [calls_ok] for the read-only operations.  This file does
    it for [put], [del] (hence for [io_step] / [io_run]) and for [create].

    What makes an updating step in-domain.  After a seek, a write or a set_len the position is at
    or below the end of the file (a seek beyond the end EXTENDS the file, a write extends it to its
    own end); only a read that ends beyond the end leaves the position beyond it.  So a write or a
    set_len is inside the domain unless it directly follows such a read, and the whole question is
    how far the READS of an updating operation go - which depends on the data in the file (the
    length of a key is read from the file, then that many bytes are read).  The existing
    update-side theorems (Io_pieces.v, Io_updates.v, the writers of Io_htx.v) conclude [hold] /
    [frame] / [htx_step] / [sim]: what the files contain afterwards, nothing about the events in
    between - the information is not recoverable from their statements.

    ROUTE CHOSEN: (a), a replay.  [tight s s'] (PART 1) is [calls_between s s'] plus: every read
    of file [f] ends at most [slack f] bytes beyond the end, every write starts at or below the
    end, every set_len starts at or below the end and does not shrink.  It is reflexive and
    transitive with no side condition, the primitives satisfy it under the obvious local
    conditions, a strengthened read-only step ([Io_flat_ro.ro_step]) that is a run of calls
    satisfies it ([rot]), and it implies [in_domain] when no chunk starts within [slack f] bytes
    after any of the ends the file had during the step ([tight_in_domain]).  Then the cursors of
    the update-side proofs are REDEFINED to carry [tight]: [fstep] / [htx_step] (table file),
    [frame] / [rcur] / [wcur] / [looked] (piece files), [sim] (the three files; relative to the
    state [x0] the operation started from), and the proofs are replayed for them:
    PART 2 = the writers of Io_htx.v, PART 3 = Io_pieces.v from its section [pieces] on (the cursor
    section rewritten by hand), PART 4 = Io_updates.v.  The text of the proofs is the original one
    except at the places marked "tight:" (where a primitive is applied directly and its local
    condition has to be shown, or where a read-only lemma is imported and [calls_between] is
    added).  The semantic route (b) was not available (no existing lemma exposes the event list of
    a write-side step: [frame] and [hold] forget it), and (c) - a ghost flag - founders on the same
    data dependence: to know that [read_n FKey kl] stays inside the file one has to know what the
    file holds at that moment, which is exactly what the replayed proofs track.
    PART 5: [put_in_domain], [del_in_domain], [in_domain_trans], [io_step_in_domain],
    [io_run_in_domain]; PART 6: creation ([create_in_domain], by construction: no reads),
    [history_in_domain], [history_over_any_cache].

    This file is generated: /root/scratch/ioupd/gen/gen_upd.py pastes line ranges of Io_htx.v,
    Io_pieces.v and Io_updates.v between the hand-written pieces upd_head.v, upd_htx.v,
    upd_cursors.v, upd_sim.v, upd_tail.v (same directory) and applies the patches; every patch is
    asserted to apply.  If [Io_pieces.frame] / [Io_htx.fstep] / [Io_updates.sim] are strengthened in
    place one day, PARTS 2-4 can be deleted. *)
From Coq Require Import Lia ZifyN ZifyNat ZifyBool.
From Aby Require Import Base Vu64 Vu64_proofs Hash KeyTypes Consts Sizing Sizing_proofs Alloc AllocInv AllocInv_proofs
  Htx Htx_proofs Store Iter Stats Spec Refine Refine_relink Refine_ops Refine_all Layout Load Load_proofs Load_htx_proofs
  Load_all Bounded Cache Cache_proofs Open_proofs Flatx Cache_x Io Io_base Io_htx Io_pieces Io_reads Io_reads2 Io_updates
  Io_run Io_create Io_flat Io_flat_ro Io_cache.
From Aby Require Io_proofs.
Import Io.
#[local] Open Scope N_scope.

(** ** PART 1. tight steps *)

(** the local condition of a call: [sl] is how far beyond the end a read may end *)
Definition tcall_ok (sl : N) (x : Rabuf.flat) (c : call) : bool :=
  match c with
  | CSeek _ => true
  | CRead n => Rabuf.f_pos x + n <=? Rabuf.f_end x + sl
  | CWrite _ => Rabuf.f_pos x <=? Rabuf.f_end x
  | CSetLen n => (Rabuf.f_pos x <=? Rabuf.f_end x) && (Rabuf.f_end x <=? n)
  end.

Fixpoint tcalls_ok (sl : N) (x : Rabuf.flat) (l : list call) : bool :=
  match l with [] => true | c :: r => tcall_ok sl x c && tcalls_ok sl (tstep x c) r end.

Lemma tcalls_ok_app sl x a b : tcalls_ok sl x (a ++ b) = tcalls_ok sl x a && tcalls_ok sl (trun x a) b.
Proof.
  revert x. induction a as [|c a IH]; intros x; cbn [tcalls_ok trun app]; [reflexivity|].
  rewrite IH, andb_assoc. reflexivity.
Qed.

(** the predicate does say something: a write that directly follows a read beyond the end is outside *)
Example tcalls_ok_ex :
  tcalls_ok 0 (Rabuf.Flat 0 []) [CSeek 0; CWrite [1; 2]; CSeek 1; CRead 1; CWrite [3]] = true /\
  tcalls_ok 0 (Rabuf.Flat 0 []) [CSeek 0; CWrite [1; 2]; CSeek 1; CRead 2; CWrite [3]] = false /\
  tcalls_ok 7 (Rabuf.Flat 0 []) [CSeek 0; CWrite [1; 2]; CSeek 1; CRead 2; CWrite [3]] = false /\
  tcalls_ok 7 (Rabuf.Flat 0 []) [CSeek 0; CWrite [1; 2]; CSeek 1; CRead 2; CSeek 2; CWrite [3]] = true.
Proof. repeat split. Qed.

(** a tight call does not shrink the file *)
Lemma tcall_end_mono sl x c : tcall_ok sl x c = true -> Rabuf.f_end x <= Rabuf.f_end (tstep x c).
Proof.
  destruct c as [t|n|d|n]; cbn [tcall_ok tstep]; unfold Rabuf.f_end; cbn [Rabuf.f_bytes]; intros H.
  - rewrite blen_pad_to. lia.
  - lia.
  - rewrite blen_splice. lia.
  - rewrite blen_resize. apply andb_prop in H as [_ H]. apply N.leb_le in H. exact H.
Qed.

Lemma tcalls_end_mono sl l : forall x, tcalls_ok sl x l = true -> Rabuf.f_end x <= Rabuf.f_end (trun x l).
Proof.
  induction l as [|c l IH]; intros x H; cbn [tcalls_ok trun] in *; [lia|].
  apply andb_prop in H as [H1 H2]. pose proof (tcall_end_mono sl x c H1). pose proof (IH _ H2). lia.
Qed.

(** tight calls are inside the domain when no chunk starts within [sl] bytes after any of the ends
    the file has during the run *)
Lemma tcalls_calls_ok sl cs l : forall x, tcalls_ok sl x l = true ->
  (forall e, Rabuf.f_end x <= e <= Rabuf.f_end (trun x l) -> chunk_free_at cs e sl) ->
  calls_ok cs x l = true.
Proof.
  induction l as [|c l IH]; intros x H Hcf; cbn [tcalls_ok calls_ok trun] in *; [reflexivity|].
  apply andb_prop in H as [H1 H2].
  pose proof (tcall_end_mono sl x c H1) as M1. pose proof (tcalls_end_mono sl l _ H2) as M2.
  apply andb_true_intro. split.
  - destruct c as [t|n|d|n]; cbn [tcall_ok call_ok] in *; try exact H1; try reflexivity.
    unfold xread_ok. apply N.leb_le. apply N.leb_le in H1.
    apply (chunk_free_at_le cs _ sl); [apply Hcf; lia|lia].
  - apply IH; [exact H2|]. intros e He. apply Hcf. lia.
Qed.

(** [calls_between] with the local conditions: [sl f] is the slack of file [f] *)
Definition tightx (sl : fid -> N) (s s' : st) : Prop :=
  exists cf : fid -> list call,
    (forall f, trun (flat_of (get_file s f)) (cf f) = flat_of (get_file s' f) /\
               fcs (get_file s' f) = fcs (get_file s f)) /\
    (exists evs, s_log s' = rev evs ++ s_log s /\
       forall f, evs_on f evs = tevs f (flat_of (get_file s f)) (cf f)) /\
    forall f, tcalls_ok (sl f) (flat_of (get_file s f)) (cf f) = true.

(** the updating operations: reads of the table file may end 7 bytes beyond its end *)
Definition tight : st -> st -> Prop := tightx slack.

Lemma tightx_cb sl s s' : tightx sl s s' -> calls_between s s'.
Proof. intros (cf & H & E & _). exists cf. split; assumption. Qed.

Lemma tightx_refl sl s : tightx sl s s.
Proof.
  exists (fun _ => []). split; [intros f; split; reflexivity|]. split; [exists []; split; reflexivity|].
  intros f. reflexivity.
Qed.

Lemma tightx_trans sl s1 s2 s3 : tightx sl s1 s2 -> tightx sl s2 s3 -> tightx sl s1 s3.
Proof.
  intros (c1 & H1 & (e1 & A1 & F1) & K1) (c2 & H2 & (e2 & A2 & F2) & K2).
  exists (fun f => c1 f ++ c2 f). split; [|split].
  - intros f. destruct (H1 f) as [a b], (H2 f) as [c d]. rewrite trun_app, a. split; [exact c|congruence].
  - exists (e1 ++ e2). split.
    + rewrite A2, A1, rev_app_distr, app_assoc. reflexivity.
    + intros f. rewrite evs_on_app, tevs_app, F1, F2. destruct (H1 f) as [a _]. rewrite a. reflexivity.
  - intros f. rewrite tcalls_ok_app, K1. destruct (H1 f) as [a _]. rewrite a. apply K2.
Qed.

(** one call on file [f] *)
Lemma tightx_one sl f c s s' :
  flat_of (get_file s' f) = tstep (flat_of (get_file s f)) c ->
  fcs (get_file s' f) = fcs (get_file s f) ->
  (forall g, g <> f -> get_file s' g = get_file s g) ->
  s_log s' = call_ev f (flat_of (get_file s f)) c :: s_log s ->
  tcall_ok (sl f) (flat_of (get_file s f)) c = true ->
  tightx sl s s'.
Proof.
  intros Hf Hc Ho Hl Hk.
  exists (fun g => if fid_eq_dec g f then [c] else []). split; [|split].
  - intros g. destruct (fid_eq_dec g f) as [->|Hg]; cbn [trun].
    + split; [symmetry; exact Hf|exact Hc].
    + rewrite (Ho g Hg). split; reflexivity.
  - exists [call_ev f (flat_of (get_file s f)) c]. split; [exact Hl|].
    intros g. unfold evs_on. cbn [List.filter].
    replace (ev_file (call_ev f (flat_of (get_file s f)) c)) with f by (destruct c; reflexivity).
    destruct (fid_eq_dec g f) as [->|Hg].
    + rewrite fid_eqb_refl. reflexivity.
    + rewrite fid_eqb_neq by congruence. reflexivity.
  - intros g. destruct (fid_eq_dec g f) as [->|Hg]; cbn [tcalls_ok]; [rewrite Hk; reflexivity|reflexivity].
Qed.

(** *** the primitives *)
Lemma tightx_seek sl f t s : tightx sl s (seek_to f t s).
Proof.
  apply (tightx_one sl f (CSeek t)); unfold seek_to.
  - rewrite get_emit, get_set_same. reflexivity.
  - rewrite get_emit, get_set_same. reflexivity.
  - intros g Hg. rewrite get_emit, get_set_other by congruence. reflexivity.
  - rewrite log_emit, log_set_file. reflexivity.
  - reflexivity.
Qed.

Lemma tightx_write sl f d s : fp (get_file s f) <= fend (get_file s f) -> tightx sl s (write_n f d s).
Proof.
  intros Hp. apply (tightx_one sl f (CWrite d)); unfold write_n.
  - rewrite get_emit, get_set_same. reflexivity.
  - rewrite get_emit, get_set_same. reflexivity.
  - intros g Hg. rewrite get_emit, get_set_other by congruence. reflexivity.
  - rewrite log_emit, log_set_file. reflexivity.
  - cbn [tcall_ok]. apply N.leb_le. exact Hp.
Qed.

Lemma tightx_set_len sl f n s : fp (get_file s f) <= fend (get_file s f) -> fend (get_file s f) <= n ->
  tightx sl s (Io.set_len f n s).
Proof.
  intros Hp Hn. apply (tightx_one sl f (CSetLen n)); unfold Io.set_len.
  - rewrite get_emit, get_set_same. reflexivity.
  - rewrite get_emit, get_set_same. reflexivity.
  - intros g Hg. rewrite get_emit, get_set_other by congruence. reflexivity.
  - rewrite log_emit, log_set_file. reflexivity.
  - cbn [tcall_ok]. apply andb_true_intro. split; apply N.leb_le; assumption.
Qed.

Lemma tightx_read_n sl f n s r s' : read_n f n s = Ok (r, s') ->
  fp (get_file s f) + n <= fend (get_file s f) + sl f -> tightx sl s s'.
Proof.
  unfold read_n. intros [= _ <-] Hp. apply (tightx_one sl f (CRead n)).
  - rewrite get_emit, get_set_same. reflexivity.
  - rewrite get_emit, get_set_same. reflexivity.
  - intros g Hg. rewrite get_emit, get_set_other by congruence. reflexivity.
  - rewrite log_emit, log_set_file. reflexivity.
  - cbn [tcall_ok]. apply N.leb_le. exact Hp.
Qed.

Lemma tightx_read_le sl f n s r s' : read_le f n s = Ok (r, s') ->
  fp (get_file s f) + n <= fend (get_file s f) + sl f -> tightx sl s s'.
Proof.
  unfold read_le. intros H Hp. apply rbind_ok in H as ([b s1] & E & H). injection H as _ <-.
  exact (tightx_read_n sl f n s b s1 E Hp).
Qed.

(** [write_all]: every piece is written at or below the end *)
Lemma tightx_write_all sl fuel : forall f (d : bytes) s s', write_all fuel f d s = Ok s' ->
  fp (get_file s f) <= fend (get_file s f) ->
  tightx sl s s' /\
  fp (get_file s' f) = fp (get_file s f) + blen d /\
  fend (get_file s' f) = N.max (fend (get_file s f)) (fp (get_file s f) + blen d) /\
  (forall g, g <> f -> get_file s' g = get_file s g).
Proof.
  induction fuel as [|fu IH]; intros f d s s' H Hp; destruct d as [|b d']; cbn [write_all] in H.
  - injection H as <-. split; [apply tightx_refl|]. rewrite blen_nil, N.add_0_r. split; [reflexivity|]. split; [lia|auto].
  - discriminate.
  - injection H as <-. split; [apply tightx_refl|]. rewrite blen_nil, N.add_0_r. split; [reflexivity|]. split; [lia|auto].
  - set (d := b :: d') in *.
    set (k := N.to_nat (N.min (blen d) (to_boundary (fcs (get_file s f)) (fp (get_file s f))))) in *.
    destruct (write_n_spec f (take k d) s) as [[Hw Ho] _].
    set (s1 := write_n f (take k d) s) in *.
    assert (Hp1 : fp (get_file s1 f) <= fend (get_file s1 f)).
    { rewrite Hw. unfold fend. cbn [fb fp]. rewrite blen_splice. lia. }
    destruct (IH f (drop k d) s1 s' H Hp1) as (T & P & E & O).
    split; [eapply tightx_trans; [apply tightx_write; exact Hp|exact T]|].
    assert (Hb : blen (take k d) + blen (drop k d) = blen d) by (rewrite <- blen_app, take_drop; reflexivity).
    rewrite Hw in P, E. unfold fend in E. cbn [fb fp] in P, E. rewrite blen_splice in E. unfold fend.
    split; [lia|]. split; [lia|]. intros g Hg. rewrite O, Ho by exact Hg. reflexivity.
Qed.

Lemma tightx_write_all_bytes sl f (d : bytes) s s' : write_all_bytes f d s = Ok s' ->
  fp (get_file s f) <= fend (get_file s f) ->
  tightx sl s s' /\
  fp (get_file s' f) = fp (get_file s f) + blen d /\
  fend (get_file s' f) = N.max (fend (get_file s f)) (fp (get_file s f) + blen d) /\
  (forall g, g <> f -> get_file s' g = get_file s g).
Proof. apply tightx_write_all. Qed.

Lemma tight_refl s : tight s s.
Proof. apply tightx_refl. Qed.
Lemma tight_trans s1 s2 s3 : tight s1 s2 -> tight s2 s3 -> tight s1 s3.
Proof. apply tightx_trans. Qed.
Lemma tight_seek f t s : tight s (seek_to f t s).
Proof. apply tightx_seek. Qed.
Lemma tight_write f d s : fp (get_file s f) <= fend (get_file s f) -> tight s (write_n f d s).
Proof. apply tightx_write. Qed.
Lemma tight_cb s s' : tight s s' -> calls_between s s'.
Proof. apply tightx_cb. Qed.

(** *** a strengthened read-only step that is a run of calls is tight *)
Definition rot (s s' : st) : Prop := ro_step s s' /\ calls_between s s'.

Lemma rot_refl s : rot s s.
Proof. split; [apply ro_step_refl|apply cb_refl]. Qed.
Lemma rot_trans s1 s2 s3 : rot s1 s2 -> rot s2 s3 -> rot s1 s3.
Proof. intros [A B] [C D]. split; [eapply ro_step_trans; eassumption|eapply cb_trans; eassumption]. Qed.
Lemma rot_seek f t s : t <= fend (get_file s f) -> rot s (seek_to f t s).
Proof. intros H. split; [apply ro_step_seek; exact H|apply seek_to_calls]. Qed.
Lemma rot_ro s s' : rot s s' -> ro_step s s'.
Proof. intros [H _]. exact H. Qed.

(** the calls of file [f] whose events are all quiet (Io_flat_ro.v) satisfy the local conditions *)
Lemma quiet_tcalls_ok (s : st) f : forall l x, Rabuf.f_end x = fend (get_file s f) ->
  Forall (ev_quiet s) (tevs f x l) -> tcalls_ok (slack f) x l = true.
Proof.
  induction l as [|c l IH]; intros x He Hq; [reflexivity|].
  cbn [tevs] in Hq. apply Forall_cons in Hq as [Hc Hq]. cbn [tcalls_ok].
  destruct c as [t|n|d|n]; cbn [call_ev ev_quiet] in Hc; try contradiction.
  - cbn [tcall_ok andb]. apply IH; [|exact Hq]. cbn [tstep]. unfold Rabuf.f_end in *. cbn [Rabuf.f_bytes].
    rewrite pad_to_le by lia. exact He.
  - cbn [tcall_ok]. rewrite (IH (tstep x (CRead n)) He Hq), andb_true_r. apply N.leb_le. rewrite He. exact Hc.
Qed.

Lemma rot_tight s s' : rot s s' -> tight s s'.
Proof.
  intros [[_ (evs' & A' & Q)] Hcb].
  destruct (calls_between_evs s s' Hcb) as (cf & evs & A & T & F & _).
  assert (evs' = rev evs) as -> by (unfold appended in A'; rewrite A in A'; apply app_inv_tail in A'; congruence).
  exists cf. split; [exact T|]. split; [exists evs; split; [exact A|exact F]|].
  intros f. apply (quiet_tcalls_ok s f (cf f) (flat_of (get_file s f)) eq_refl).
  rewrite <- F. unfold evs_on. apply Forall_filter_list.
  apply List.Forall_rev in Q. rewrite rev_involutive in Q. exact Q.
Qed.

(** a read-only lemma of Io_flat_ro.v ("returns [r], strengthened [ro_step]") for a function that is
    a run of calls *)
Lemma rot_ex {A} (g : st -> res (A * st)) (Hg : forall s r s', g s = Ok (r, s') -> calls_between s s') x r :
  (exists x', g x = Ok (r, x') /\ ro_step x x') -> exists x', g x = Ok (r, x') /\ rot x x'.
Proof. intros (x' & E & R). exists x'. split; [exact E|]. split; [exact R|exact (Hg _ _ _ E)]. Qed.

(** *** tight steps are inside the domain *)

(** [in_domain] from its first four components *)
Lemma in_domain_intro s s' (cf : fid -> list call) evs :
  s_log s' = rev evs ++ s_log s ->
  (forall f, trun (flat_of (get_file s f)) (cf f) = flat_of (get_file s' f) /\
             fcs (get_file s' f) = fcs (get_file s f)) ->
  (forall f, evs_on f evs = tevs f (flat_of (get_file s f)) (cf f)) ->
  (forall f, calls_ok (fcs (get_file s f)) (flat_of (get_file s f)) (cf f) = true) ->
  in_domain s s'.
Proof.
  intros A T F Hok. exists cf, evs. split; [exact A|]. split; [exact T|]. split; [exact F|]. split; [exact Hok|].
  split.
  - intros f. rewrite <- evs_ok_on, F. rewrite (evs_ok_calls _ f (flat_of (get_file s f))). apply Hok.
  - intros f. destruct (calls_ok_xrun _ _ _ (Hok f)) as (outs & R & ->). rewrite R. destruct (T f) as [-> _]. reflexivity.
Qed.

Theorem tightx_in_domain sl s s' : tightx sl s s' ->
  (forall f e, fend (get_file s f) <= e <= fend (get_file s' f) -> chunk_free_at (fcs (get_file s f)) e (sl f)) ->
  in_domain s s'.
Proof.
  intros (cf & T & (evs & A & F) & K) Hcf. apply (in_domain_intro s s' cf evs A T F).
  intros f. apply (tcalls_calls_ok (sl f)); [apply K|].
  intros e He. apply Hcf. destruct (T f) as [E _]. rewrite E in He. exact He.
Qed.

(** in-domain steps compose (no side condition: the chunk sizes are kept) *)
Theorem in_domain_trans s1 s2 s3 : in_domain s1 s2 -> in_domain s2 s3 -> in_domain s1 s3.
Proof.
  intros (c1 & e1 & A1 & T1 & F1 & K1 & _) (c2 & e2 & A2 & T2 & F2 & K2 & _).
  apply (in_domain_intro s1 s3 (fun f => c1 f ++ c2 f) (e1 ++ e2)).
  - rewrite A2, A1, rev_app_distr, app_assoc. reflexivity.
  - intros f. destruct (T1 f) as [a b], (T2 f) as [c d]. rewrite trun_app, a. split; [exact c|congruence].
  - intros f. rewrite evs_on_app, tevs_app, F1, F2. destruct (T1 f) as [a _]. rewrite a. reflexivity.
  - intros f. rewrite calls_ok_app, K1. destruct (T1 f) as [a b]. rewrite a, <- b. apply K2.
Qed.

Lemma in_domain_refl s : in_domain s s.
Proof.
  apply (in_domain_intro s s (fun _ => []) []); [reflexivity|intros f; split; reflexivity|reflexivity|reflexivity].
Qed.

(** a tight step of a map of the crate: the table file stays within one byte of the end [create]
    gave it, and its chunks are a power of two of at least 128 bytes *)
Theorem tight_in_domain n s s' : tight s s' ->
  pow2 n -> pow2 (fcs (get_file s FHtx)) -> 128 <= fcs (get_file s FHtx) ->
  table_end n <= fend (get_file s FHtx) -> fend (get_file s' FHtx) <= table_end n + 1 ->
  in_domain s s'.
Proof.
  intros T Hn Hp Hc H1 H2. apply (tightx_in_domain slack s s' T).
  intros f e He. destruct f; cbn [slack]; try apply chunk_free_at_0.
  apply (table_end_chunk_free n _ _ Hn Hp Hc). lia.
Qed.
