
(** ** PART 3. Io_pieces.v, replayed for tight steps *)

(** *** the cursors on one file of the state (section 2 of Io_pieces.v, rewritten): every cursor
    carries the tightness of the steps since its origin *)
Section cursors.
Context {fid : Io.fid}.

(** what a step leaves alone: the chunk size of the file, and the other files; tight: and is tight *)
Definition frame (s s' : st) : Prop :=
  fcs (get_file s' fid) = fcs (get_file s fid) /\ (forall g, g <> fid -> get_file s' g = get_file s g) /\ tight s s'.

Lemma frame_refl s : frame s s.
Proof. split; [reflexivity|]. split; [auto|apply tight_refl]. Qed.
Lemma frame_trans s1 s2 s3 : frame s1 s2 -> frame s2 s3 -> frame s1 s3.
Proof.
  intros (A & B & T1) (C & D & T2). split; [congruence|]. split; [|eapply tight_trans; eassumption].
  intros g Hg. rewrite D, B by exact Hg. reflexivity.
Qed.
Lemma upd_file_frame s s' b p : upd_file s s' fid b p -> tight s s' -> frame s s'.
Proof. intros [H O] T. split; [rewrite H; reflexivity|]. split; [exact O|exact T]. Qed.
Lemma frame_seek s t : frame s (seek_to fid t s).
Proof. destruct (seek_to_spec fid t s) as [U _]. exact (upd_file_frame _ _ _ _ U (tight_seek fid t s)). Qed.

(** *** reading: [s] was reached from [s0] by looking only, is at position [p] (inside the file)
    and sees [rest] *)
Definition rcur (s0 s : st) (p : N) (rest : bytes) : Prop :=
  upd_file s0 s fid (fb (get_file s0 fid)) p /\ rot s0 s /\ view s fid = rest /\ p <= fend (get_file s0 fid).

Lemma rcur_fb s0 s p rest : rcur s0 s p rest -> fb (get_file s fid) = fb (get_file s0 fid).
Proof. intros [[H _] _]. rewrite H. reflexivity. Qed.
Lemma rcur_fp s0 s p rest : rcur s0 s p rest -> fp (get_file s fid) = p.
Proof. intros [[H _] _]. rewrite H. reflexivity. Qed.
Lemma rcur_in s0 s p rest : rcur s0 s p rest -> fp (get_file s fid) <= fend (get_file s fid).
Proof. intros ([H _] & _ & _ & Hp). unfold fend in *. rewrite H. cbn [fb fp]. exact Hp. Qed.
Lemma rcur_frame s0 s p rest : rcur s0 s p rest -> frame s0 s.
Proof. intros (H & R & _). exact (upd_file_frame _ _ _ _ H (rot_tight _ _ R)). Qed.

Lemma rcur_seek s off : off <= fend (get_file s fid) ->
  rcur s (seek_to fid off s) off (at_off (fb (get_file s fid)) off).
Proof.
  intros H. split; [apply seek_to_inside; exact H|]. split; [apply rot_seek; exact H|].
  split; [apply view_seek_inside; exact H|exact H].
Qed.

(** tight: the step is a strengthened read-only step *)
Lemma rcur_step s0 s s' p p' rest rest' :
  rcur s0 s p rest -> upd_file s s' fid (fb (get_file s fid)) p' -> rot s s' ->
  view s' fid = rest' -> p' <= fend (get_file s fid) -> rcur s0 s' p' rest'.
Proof.
  intros Hc0 Hu Hro Hv Hp. pose proof (rcur_fb _ _ _ _ Hc0) as Hfb.
  destruct Hc0 as (Hu0 & Hro0 & _). split; [|split; [|split]].
  - eapply upd_file_trans; [exact Hu0|]. destruct Hu0 as [E _]. rewrite E in Hu. exact Hu.
  - eapply rot_trans; eassumption.
  - exact Hv.
  - unfold fend in *. rewrite <- Hfb. exact Hp.
Qed.

Lemma rcur_vw s0 s p rest : rcur s0 s p rest -> vw s fid rest.
Proof. intros H. split; [eapply rcur_in; exact H|apply H]. Qed.

Lemma rcur_vu64 s0 s p v rest : rcur s0 s p (encode v ++ rest) -> v < 2 ^ 64 ->
  exists s', read_vu64 fid s = Ok (v, s') /\ rcur s0 s' (p + enc_len v) rest.
Proof.
  intros Hc0 Hv. pose proof Hc0 as (_ & _ & Hview & _). pose proof (rcur_vw _ _ _ _ Hc0) as Hvw.
  destruct (read_vu64_view fid s v rest Hv Hview) as (s' & evs & Hr & Hu & Hv' & _).
  (* tight: [Io_flat_ro.rd_vu64] *)
  destruct (rd_vu64 fid s v rest Hv Hvw) as (s2 & Hr2 & R & _). rewrite Hr in Hr2. injection Hr2 as <-.
  exists s'. split; [exact Hr|]. rewrite (rcur_fp _ _ _ _ Hc0) in Hu.
  apply (rcur_step s0 s s' p _ _ rest Hc0 Hu); [split; [exact R|exact (read_vu64_calls _ _ _ _ Hr)]|exact Hv'|].
  pose proof (vw_room _ _ _ _ Hvw) as Hroom. rewrite blen_encode, (rcur_fp _ _ _ _ Hc0) in Hroom. exact Hroom.
Qed.

Lemma rcur_size s0 s p sz rest : rcur s0 s p (encode (sz / 8) ++ rest) -> sz mod 8 = 0 -> sz < 2 ^ 64 ->
  exists s', read_piece_size fid s = Ok (sz, s') /\ rcur s0 s' (p + enc_len (sz / 8)) rest.
Proof.
  intros Hc0 H8 Hlt.
  destruct (rcur_vu64 s0 s p (sz / 8) rest Hc0 (div8_lt sz Hlt)) as (s' & Hr & Hc1).
  exists s'. split; [|exact Hc1]. unfold read_piece_size. rewrite Hr. cbn [rbind].
  rewrite (div8_mul8 sz H8). reflexivity.
Qed.

Lemma rcur_u64 s0 s p v rest : rcur s0 s p (le_bytes 8 v ++ rest) -> v < 2 ^ 64 ->
  exists s', read_u64 fid s = Ok (v, s') /\ rcur s0 s' (p + 8) rest.
Proof.
  intros Hc0 Hv. pose proof Hc0 as (_ & _ & Hview & _). pose proof (rcur_vw _ _ _ _ Hc0) as Hvw.
  destruct (read_u64_view fid s v rest Hv Hview) as (s' & Hr & Hf & Ho & Hv' & _).
  (* tight: [Io_flat_ro.rd_u64] *)
  destruct (rd_u64 fid s v rest Hv Hvw) as (s2 & Hr2 & R & _). rewrite Hr in Hr2. injection Hr2 as <-.
  exists s'. split; [exact Hr|]. rewrite (rcur_fp _ _ _ _ Hc0) in Hf.
  apply (rcur_step s0 s s' p _ _ rest Hc0 (conj Hf Ho)); [split; [exact R|exact (read_u64_calls _ _ _ _ Hr)]|exact Hv'|].
  pose proof (vw_room _ _ _ _ Hvw) as Hroom. rewrite blen_le_bytes, (rcur_fp _ _ _ _ Hc0) in Hroom.
  change (N.of_nat 8) with 8 in Hroom. exact Hroom.
Qed.

(** *** writing: since [s0] (which held [b0]) the file was sought to [off] and [d] was written;
    tight: by tight steps *)
Definition wcur (s0 s : st) (off : N) (d : bytes) : Prop :=
  upd_file s0 s fid (splice (fb (get_file s0 fid)) off d) (off + blen d) /\ tight s0 s.

Lemma wcur_in s0 s off d : wcur s0 s off d -> fp (get_file s fid) <= fend (get_file s fid).
Proof. intros [[E _] _]. rewrite E. unfold fend. cbn [fb fp]. rewrite blen_splice. lia. Qed.

Lemma wcur_seek s off : off <= fend (get_file s fid) -> wcur s (seek_to fid off s) off [].
Proof.
  intros H. unfold wcur. rewrite splice_nil by exact H. rewrite blen_nil, N.add_0_r.
  split; [apply seek_to_inside; exact H|apply tight_seek].
Qed.

Lemma wcur_n s0 s off d d' : wcur s0 s off d -> wcur s0 (write_n fid d' s) off (d ++ d').
Proof.
  intros Hw. destruct (write_n_spec fid d' s) as [Hu _]. pose proof (wcur_in _ _ _ _ Hw) as Hin.
  destruct Hw as [Hw T]. split; [|eapply tight_trans; [exact T|apply tight_write; exact Hin]].
  eapply upd_file_trans; [exact Hw|].
  destruct Hw as [E _]. rewrite E in Hu. cbn [fb fp fcs] in Hu.
  rewrite splice_app, blen_app, N.add_assoc. exact Hu.
Qed.

Lemma wcur_all s0 s off d d' : wcur s0 s off d -> 0 < fcs (get_file s0 fid) ->
  exists s', write_all_bytes fid d' s = Ok s' /\ wcur s0 s' off (d ++ d').
Proof.
  intros Hw Hcs. pose proof (wcur_in _ _ _ _ Hw) as Hin. destruct Hw as [Hw T]. pose proof Hw as [E _].
  destruct (write_all_bytes_spec fid d' s) as (s' & evs & Hr & Hu & _).
  { rewrite E. exact Hcs. }
  { exact Hin. }
  exists s'. split; [exact Hr|].
  split; [|eapply tight_trans; [exact T|exact (proj1 (tightx_write_all_bytes slack fid d' s s' Hr Hin))]].
  eapply upd_file_trans; [exact Hw|].
  rewrite E in Hu. cbn [fb fp fcs] in Hu.
  rewrite splice_app, blen_app, N.add_assoc. exact Hu.
Qed.

Lemma wcur_vu64 s0 s off d v : wcur s0 s off d -> 0 < fcs (get_file s0 fid) ->
  exists s', write_vu64 fid v s = Ok s' /\ wcur s0 s' off (d ++ encode v).
Proof. apply wcur_all. Qed.

Lemma wcur_size s0 s off d sz : wcur s0 s off d -> 0 < fcs (get_file s0 fid) -> sz mod 8 = 0 ->
  exists s', write_piece_size fid sz s = Ok s' /\ wcur s0 s' off (d ++ encode (sz / 8)).
Proof.
  intros Hw Hcs H8. unfold write_piece_size. rewrite H8. cbn. apply wcur_vu64; assumption.
Qed.

Lemma wcur_poff s0 s off d v : wcur s0 s off d -> 0 < fcs (get_file s0 fid) -> v mod 8 = 0 ->
  exists s', write_piece_offset fid v s = Ok s' /\ wcur s0 s' off (d ++ encode (v / 8)).
Proof.
  intros Hw Hcs H8. unfold write_piece_offset. rewrite H8. cbn. apply wcur_vu64; assumption.
Qed.

Lemma wcur_u64 s0 s off d v : wcur s0 s off d ->
  exists s', write_u64 fid v s = Ok s' /\ wcur s0 s' off (d ++ le_bytes 8 v).
Proof. intros Hw. eexists. split; [reflexivity|]. apply wcur_n. exact Hw. Qed.

(** [write_zero_to_offset]: the zero fill up to the end of the slot (nothing if already beyond) *)
Lemma wcur_zero s0 s off d size : wcur s0 s off d ->
  exists s', write_zero_to_offset fid (off + size) s = Ok s' /\ wcur s0 s' off (d ++ zeros (size - blen d)).
Proof.
  intros Hw. pose proof Hw as [[E _] T].
  unfold write_zero_to_offset, seek_position, seek_cur. cbn [rbind].
  rewrite E. cbn [fp]. rewrite N.add_0_r.
  assert (Hin : off + blen d <= fend (get_file s fid)).
  { rewrite E. unfold fend. cbn [fb]. rewrite blen_splice. lia. }
  pose proof (seek_to_inside fid _ s Hin) as Hs1. rewrite E in Hs1. cbn [fb fcs] in Hs1.
  assert (Hw1 : wcur s0 (seek_to fid (off + blen d) s) off d).
  { split; [|eapply tight_trans; [exact T|apply tight_seek]]. eapply upd_file_trans; [apply Hw|]. exact Hs1. }
  destruct (N.ltb_spec (off + blen d) (off + size)) as [Hlt|Hge].
  - eexists. split; [reflexivity|].
    replace (off + size - (off + blen d)) with (size - blen d) by lia.
    apply wcur_n. exact Hw1.
  - eexists. split; [reflexivity|].
    replace (size - blen d) with 0 by lia. change (zeros 0) with (@nil N). rewrite app_nil_r. exact Hw1.
Qed.

Lemma wcur_frame s0 s off d : wcur s0 s off d -> frame s0 s.
Proof. intros [U T]. exact (upd_file_frame _ _ _ _ U T). Qed.
Lemma wcur_fb s0 s off d : wcur s0 s off d -> fb (get_file s fid) = splice (fb (get_file s0 fid)) off d.
Proof. intros [[E _] _]. rewrite E. reflexivity. Qed.

(** a step that only looked at file [fid] *)
Definition looked (s s' : st) : Prop :=
  fb (get_file s' fid) = fb (get_file s fid) /\ frame s s' /\ rot s s'.

Lemma rcur_looked s0 s p rest : rcur s0 s p rest -> looked s0 s.
Proof.
  intros H. split; [eapply rcur_fb; exact H|]. split; [eapply rcur_frame; exact H|]. apply H.
Qed.
Lemma looked_refl s : looked s s.
Proof. split; [reflexivity|]. split; [apply frame_refl|apply rot_refl]. Qed.
Lemma looked_trans s1 s2 s3 : looked s1 s2 -> looked s2 s3 -> looked s1 s3.
Proof.
  intros (A & B & C) (D & E & F). split; [congruence|].
  split; [eapply frame_trans; eassumption|eapply rot_trans; eassumption].
Qed.
Lemma looked_frame s s' : looked s s' -> frame s s'.
Proof. intros (_ & A & _). exact A. Qed.

End cursors.
Arguments frame : clear implicits.
Arguments rcur : clear implicits.
Arguments wcur : clear implicits.
Arguments looked : clear implicits.

