
(** ** PART 3. a tight step is inside the domain of the cache theorem *)

Lemma chunk_off_le cs y : chunk_off cs y <= y.
Proof.
  unfold chunk_off. destruct (N.eq_dec cs 0) as [->|Hz].
  - rewrite N.mul_0_r. lia.
  - rewrite N.mul_comm. apply N.mul_div_le. exact Hz.
Qed.

(** no chunk starts within [k] bytes after [e] *)
Definition chunk_free_at (cs e k : N) : Prop := forall j, j <= k -> chunk_off cs (e + j) <= e.

Lemma chunk_free_at_0 cs e : chunk_free_at cs e 0.
Proof. intros j Hj. replace (e + j) with e by lia. apply chunk_off_le. Qed.

Lemma chunk_free_at_le cs e k y : chunk_free_at cs e k -> y <= e + k -> chunk_off cs y <= e.
Proof.
  intros H Hy. destruct (N.le_gt_cases y e) as [Hle|Hgt].
  - pose proof (chunk_off_le cs y). lia.
  - replace y with (e + (y - e)) by lia. apply H. lia.
Qed.

(** the calls of file [f] whose events are all quiet (in the strengthened sense) are inside the
    domain, and they leave the bytes alone *)
Lemma tight_calls_ok (s : st) cs f : chunk_free_at cs (fend (get_file s f)) (slack f) ->
  forall l x, f_end x = fend (get_file s f) -> Forall (ev_quiet s) (tevs f x l) ->
  calls_ok cs x l = true /\ f_bytes (trun x l) = f_bytes x.
Proof.
  intros Hcf. induction l as [|c l IH]; intros x He Hq; [split; reflexivity|].
  cbn [tevs] in Hq. apply Forall_cons in Hq as [Hc Hq]. cbn [calls_ok trun].
  destruct c as [t|n|d|n]; cbn [call_ev ev_quiet] in Hc; try contradiction.
  - (* a seek inside the file *)
    assert (Hb : f_bytes (tstep x (CSeek t)) = f_bytes x).
    { cbn [tstep f_bytes]. apply pad_to_le. unfold f_end in He. lia. }
    destruct (IH (tstep x (CSeek t))) as [A B]; [unfold f_end in *; rewrite Hb; exact He|exact Hq|].
    cbn [call_ok]. rewrite A, B, Hb. split; reflexivity.
  - (* a read ending at most [slack f] bytes beyond the end *)
    destruct (IH (tstep x (CRead n))) as [A B]; [exact He|exact Hq|].
    cbn [call_ok]. rewrite A, B. split; [|reflexivity]. rewrite andb_true_r.
    unfold xread_ok. apply N.leb_le. rewrite He. apply (chunk_free_at_le _ _ _ _ Hcf). lia.
Qed.

(** the domain statement for a step [s -> s']: file by file the step is a run of calls with
    exactly the logged events, all of them inside the domain of [xrun] for the chunk size of the
    file - as calls ([calls_ok]) and as read off the events ([evs_ok]) - so that the flat reference
    run of the canonical calls is defined and ends in the file of [s'] *)
Definition in_domain (s s' : st) : Prop :=
  exists (cf : fid -> list call) evs,
    s_log s' = rev evs ++ s_log s /\
    (forall f, trun (flat_of (get_file s f)) (cf f) = flat_of (get_file s' f) /\
               fcs (get_file s' f) = fcs (get_file s f)) /\
    (forall f, evs_on f evs = tevs f (flat_of (get_file s f)) (cf f)) /\
    (forall f, calls_ok (fcs (get_file s f)) (flat_of (get_file s f)) (cf f) = true) /\
    (forall f, evs_ok (fcs (get_file s f)) f (fp (get_file s f)) (fend (get_file s f)) evs = true) /\
    (forall f, xrun (fcs (get_file s f)) (flat_of (get_file s f)) (map call_op (cf f)) =
               Some (flat_of (get_file s' f), touts (flat_of (get_file s f)) (cf f))).

(** no chunk of any of the three buffers starts within [slack] bytes after the end of its file *)
Definition chunk_free (s : st) : Prop :=
  forall f, chunk_free_at (fcs (get_file s f)) (fend (get_file s f)) (slack f).

Lemma chunk_free_ro s s' : ro_step s s' -> chunk_free s -> chunk_free s'.
Proof.
  intros [H _] Hc f. specialize (Hc f). destruct (H f) as [Hb Hs]. unfold fend. rewrite Hb, Hs. exact Hc.
Qed.

Lemma Forall_filter_list {A} (P : A -> Prop) (g : A -> bool) l : Forall P l -> Forall P (List.filter g l).
Proof.
  intros H. induction H as [|a l Ha Hl IH]; cbn [List.filter]; [constructor|].
  destruct (g a); [constructor; assumption|exact IH].
Qed.

Theorem ro_step_in_domain s s' : chunk_free s -> ro_step s s' -> calls_between s s' -> in_domain s s'.
Proof.
  intros Hcf [_ (evs' & A' & Q)] Hcb.
  destruct (calls_between_evs s s' Hcb) as (cf & evs & A & T & F & K).
  assert (evs' = rev evs) as -> by (unfold appended in A'; rewrite A in A'; apply app_inv_tail in A'; congruence).
  assert (Qf : forall f, Forall (ev_quiet s) (tevs f (flat_of (get_file s f)) (cf f))).
  { intros f. rewrite <- F. unfold evs_on. apply Forall_filter_list.
    apply List.Forall_rev in Q. rewrite rev_involutive in Q. exact Q. }
  assert (Hok : forall f, calls_ok (fcs (get_file s f)) (flat_of (get_file s f)) (cf f) = true).
  { intros f. apply (tight_calls_ok s _ f (Hcf f) (cf f) (flat_of (get_file s f)) eq_refl (Qf f)). }
  exists cf, evs. split; [exact A|]. split; [exact T|]. split; [exact F|]. split; [exact Hok|].
  split; [intros f; rewrite K; apply Hok|].
  intros f. destruct (calls_ok_xrun _ _ _ (Hok f)) as (outs & R & ->). rewrite R. destruct (T f) as [-> _]. reflexivity.
Qed.

(** *** D. the read-only operations of a map on the images of a well-formed state *)
Section readonly_domain.
Context (s : store) (himg kimg vimg : bytes) (m : mp).
Hypothesis Hwf : Load_all.wf_state s.
Hypothesis H64 : fits64 s.
Hypothesis Hr : render s = Ok (himg, kimg, vimg).
Hypothesis Hkt : m_kt m = kt s.
Hypothesis Hn : m_n m = nb (hx s).
Hypothesis Him : Io.images m = (himg, kimg, vimg).
Hypothesis Hcf : chunk_free (m_st m).

Theorem get_in_domain key r : Store.get s key = Ok r ->
  exists m', Io.get m key = Ok (r, m') /\ in_domain (m_st m) (m_st m') /\ Io.images m' = Io.images m.
Proof.
  intros H. destruct (get_refines_wf s himg kimg vimg m Hwf H64 Hr Hkt Hn Him key r H) as (m' & E & R & I).
  exists m'. split; [exact E|]. split; [|exact I]. exact (ro_step_in_domain _ _ Hcf R (get_calls _ _ _ _ E)).
Qed.

Theorem has_in_domain key r : Store.has s key = Ok r ->
  exists m', Io.has m key = Ok (r, m') /\ in_domain (m_st m) (m_st m') /\ Io.images m' = Io.images m.
Proof.
  intros H. destruct (has_refines_wf s himg kimg vimg m Hwf H64 Hr Hkt Hn Him key r H) as (m' & E & R & I).
  exists m'. split; [exact E|]. split; [|exact I]. exact (ro_step_in_domain _ _ Hcf R (has_calls _ _ _ _ E)).
Qed.

Theorem len_in_domain :
  exists m', Io.len m = Ok (Store.len s, m') /\ in_domain (m_st m) (m_st m') /\ Io.images m' = Io.images m.
Proof.
  destruct (len_refines_wf s himg kimg vimg m Hwf H64 Hr Him) as (m' & E & R & I).
  exists m'. split; [exact E|]. split; [|exact I]. exact (ro_step_in_domain _ _ Hcf R (len_calls _ _ _ E)).
Qed.

Theorem iter_run_in_domain items h ex : Iter.iter_run s = Ok (items, h, ex) ->
  exists m', Io.iter_run m = Ok (items, h, ex, m') /\ in_domain (m_st m) (m_st m') /\ Io.images m' = Io.images m.
Proof.
  intros H. destruct Hwf as (HI & Hf & Hw).
  destruct (iter_run_refines s himg kimg vimg HI Hf Hw H64 Hr m Him items h ex H) as (m' & E & R & I & _).
  exists m'. split; [exact E|]. split; [|exact I]. exact (ro_step_in_domain _ _ Hcf R (iter_run_calls _ _ _ E)).
Qed.

Theorem stats_of_in_domain r : Stats.stats_of s = Ok r ->
  exists m', Io.stats_of m = Ok (r, m') /\ in_domain (m_st m) (m_st m') /\ Io.images m' = Io.images m.
Proof.
  intros H. destruct Hwf as (HI & Hf & Hw).
  destruct (stats_of_refines s himg kimg vimg HI Hf Hw H64 Hr m Hn Him r H) as (m' & E & R & I & _).
  exists m'. split; [exact E|]. split; [|exact I]. exact (ro_step_in_domain _ _ Hcf R (stats_of_calls _ _ _ E)).
Qed.
End readonly_domain.

(** *** the table file of the crate is chunk free *)
Definition pow2 (n : N) : Prop := exists k, n = 2 ^ k.

(** the end of the table file of a power of two of buckets is at most 65 bytes after a multiple of 128 *)
Lemma table_end_mod n : pow2 n -> table_end n mod 128 <= 65.
Proof.
  intros [k ->]. unfold table_end. change htx_header_size with 128.
  destruct (N.lt_ge_cases k 10) as [Hlt|Hge].
  - assert (Hk : k = 0 \/ k = 1 \/ k = 2 \/ k = 3 \/ k = 4 \/ k = 5 \/ k = 6 \/ k = 7 \/ k = 8 \/ k = 9) by lia.
    repeat (destruct Hk as [-> | Hk]; [vm_compute; discriminate|]). subst k. vm_compute. discriminate.
  - replace k with (10 + (k - 10)) by lia. rewrite N.pow_add_r. set (q := 2 ^ (k - 10)).
    change (2 ^ 10) with (8 * 128). replace (8 * 128 * q / 8) with (128 * q).
    + replace (128 + 8 * (8 * 128 * q) + 128 * q) with ((1 + 65 * q) * 128) by lia.
      rewrite N.mod_mul by lia. lia.
    + symmetry. replace (8 * 128 * q) with (128 * q * 8) by lia. apply N.div_mul. lia.
Qed.

Lemma table_end_chunk_free n cs e : pow2 n -> pow2 cs -> 128 <= cs ->
  table_end n <= e <= table_end n + 1 -> chunk_free_at cs e 7.
Proof.
  intros Hn [j ->] Hcs He i Hi.
  assert (Hj : 7 <= j).
  { destruct (N.le_gt_cases 7 j) as [H|H]; [exact H|]. exfalso.
    assert (2 ^ j <= 2 ^ 6) by (apply N.pow_le_mono_r; lia). change (2 ^ 6) with 64 in *. lia. }
  replace j with (7 + (j - 7)) by lia. rewrite N.pow_add_r. change (2 ^ 7) with 128. set (q := 2 ^ (j - 7)).
  pose proof (table_end_mod n Hn) as Hm. pose proof (N.div_mod (table_end n) 128 ltac:(lia)) as Hd.
  set (E := table_end n) in *. set (a := E / 128) in *. set (b := E mod 128) in *.
  unfold chunk_off. set (t := (e + i) / (128 * q)).
  assert (Ht : 128 * q * t <= e + i) by (apply N.mul_div_le; subst q; pose proof (N.pow_nonzero 2 (j - 7)); lia).
  (* a multiple of 128 that is at most E + 8 is at most E *)
  destruct (N.le_gt_cases (q * t) a) as [Hle|Hgt]; [nia|]. exfalso. nia.
Qed.

(** ... so a map of the crate (a power of two of buckets; buffers with chunks of a power of two of
    at least 128 bytes - 4096 under [BufAuto], 131072 otherwise) is [chunk_free] whenever its
    table file ends where [create] put the end, or one byte later (fewer than 8 buckets: the
    bitmap byte, written by the first [put]) *)
Lemma chunk_free_table x n : pow2 n -> pow2 (fcs (get_file x FHtx)) -> 128 <= fcs (get_file x FHtx) ->
  table_end n <= fend (get_file x FHtx) <= table_end n + 1 -> chunk_free x.
Proof.
  intros Hn Hp Hc He f. destruct f; cbn [slack]; try apply chunk_free_at_0.
  exact (table_end_chunk_free n _ _ Hn Hp Hc He).
Qed.

Lemma chunk_free_images s himg kimg vimg m :
  htx_wf (hx s) -> render s = Ok (himg, kimg, vimg) -> Io.images m = (himg, kimg, vimg) -> m_n m = nb (hx s) ->
  pow2 (m_n m) -> pow2 (fcs (get_file (m_st m) FHtx)) -> 128 <= fcs (get_file (m_st m) FHtx) ->
  hend (hx s) <= table_end (nb (hx s)) + 1 -> chunk_free (m_st m).
Proof.
  intros Hw Hr Him Hn Hpn Hpc Hc He.
  apply (chunk_free_table _ (m_n m) Hpn Hpc Hc).
  assert (Hfe : fend (get_file (m_st m) FHtx) = hend (hx s)).
  { unfold Io.images in Him. injection Him as A _ _. unfold fend. cbn [get_file]. rewrite A.
    unfold render in Hr. cbv zeta in Hr.
    destruct (render_pfile key_cfg kslot_bytes (sig_of (kt s)) (keyf s)) as [ki| | |]; cbn [rbind] in Hr; try discriminate Hr.
    destruct (render_pfile val_cfg vslot_bytes (sig_of (kt s)) (valf s)) as [vi| | |]; cbn [rbind] in Hr; try discriminate Hr.
    injection Hr as <- _ _. apply render_htx_blen; [apply sig_len|]. destruct Hw as (_ & H & _). lia. }
  rewrite Hfe, Hn. destruct Hw as (_ & H & _). unfold table_end in *. lia.
Qed.

(** D, as asked: images of a well-formed state, table size a power of two, table-file chunk size a
    power of two >= 4096 (any >= 128 will do), table file of the length [create] gave it (or one
    more): the calls of the five read-only operations are inside the domain of the cache theorem *)
Theorem readonly_calls_in_domain s himg kimg vimg m :
  Load_all.wf_state s -> fits64 s -> render s = Ok (himg, kimg, vimg) ->
  m_kt m = kt s -> m_n m = nb (hx s) -> Io.images m = (himg, kimg, vimg) ->
  pow2 (m_n m) -> pow2 (fcs (get_file (m_st m) FHtx)) -> 4096 <= fcs (get_file (m_st m) FHtx) ->
  hend (hx s) <= table_end (nb (hx s)) + 1 ->
  (forall key r, Store.get s key = Ok r ->
     exists m', Io.get m key = Ok (r, m') /\ in_domain (m_st m) (m_st m') /\ Io.images m' = Io.images m) /\
  (forall key r, Store.has s key = Ok r ->
     exists m', Io.has m key = Ok (r, m') /\ in_domain (m_st m) (m_st m') /\ Io.images m' = Io.images m) /\
  (exists m', Io.len m = Ok (Store.len s, m') /\ in_domain (m_st m) (m_st m') /\ Io.images m' = Io.images m) /\
  (forall items h ex, Iter.iter_run s = Ok (items, h, ex) ->
     exists m', Io.iter_run m = Ok (items, h, ex, m') /\ in_domain (m_st m) (m_st m') /\ Io.images m' = Io.images m) /\
  (forall r, Stats.stats_of s = Ok r ->
     exists m', Io.stats_of m = Ok (r, m') /\ in_domain (m_st m) (m_st m') /\ Io.images m' = Io.images m).
Proof.
  intros Hwf H64 Hr Hkt Hn Him Hpn Hpc Hc He.
  assert (Hcf : chunk_free (m_st m))
    by (apply (chunk_free_images s himg kimg vimg m); try assumption; [apply Hwf|lia]).
  split; [intros key r; apply (get_in_domain s himg kimg vimg m); assumption|].
  split; [intros key r; apply (has_in_domain s himg kimg vimg m); assumption|].
  split; [apply (len_in_domain s himg kimg vimg m); assumption|].
  split; [intros items h ex; apply (iter_run_in_domain s himg kimg vimg m); assumption|].
  intros r; apply (stats_of_in_domain s himg kimg vimg m); assumption.
Qed.

(** *** after any history from [create]: the read-only operations are inside the domain *)
Lemma sized_final ops : forall s s' outs, sized s ops -> store_run s ops = Ok (s', outs) -> fits64 s'.
Proof.
  induction ops as [|o ops IH]; intros s s' outs Hsz Hrun; cbn [store_run] in Hrun.
  - injection Hrun as <- _. apply (sized_here _ _ Hsz).
  - destruct (store_step s o) as [[s1 r]| | |] eqn:E1; cbn [rbind] in Hrun; try discriminate.
    destruct (store_run s1 ops) as [[s2 rs]| | |] eqn:E2; cbn [rbind] in Hrun; try discriminate.
    injection Hrun as <- _. cbn [sized] in Hsz. destruct Hsz as (_ & _ & H). exact (IH s1 s2 rs (H s1 r E1) E2).
Qed.

Lemma pow2_chunk_of b : pow2 (chunk_of htx_chunk_size b) /\ 4096 <= chunk_of htx_chunk_size b.
Proof. destruct b; cbn [chunk_of]; (split; [|vm_compute; discriminate]); [exists 12|exists 17]; reflexivity. Qed.

Theorem history_then_readonly_in_domain t n bk bv bh ops :
  1 <= n -> pow2 n -> Forall (op_wf t) ops -> sized (Store.create t n) ops ->
  exists m0 m' s',
    Io.create t n bk bv bh = Ok m0 /\
    store_run (Store.create t n) ops = Ok (s', snd (spec_run ∅ ops)) /\
    io_run m0 ops = Ok (m', snd (spec_run ∅ ops)) /\
    render s' = Ok (Io.images m') /\
    calls_between (empty_st bk bv bh) (m_st m') /\
    chunk_free (m_st m') /\
    (forall key r, Store.get s' key = Ok r ->
       exists m2, Io.get m' key = Ok (r, m2) /\ in_domain (m_st m') (m_st m2) /\ Io.images m2 = Io.images m') /\
    (forall key r, Store.has s' key = Ok r ->
       exists m2, Io.has m' key = Ok (r, m2) /\ in_domain (m_st m') (m_st m2) /\ Io.images m2 = Io.images m') /\
    (exists m2, Io.len m' = Ok (Store.len s', m2) /\ in_domain (m_st m') (m_st m2) /\ Io.images m2 = Io.images m') /\
    (forall items h ex, Iter.iter_run s' = Ok (items, h, ex) ->
       exists m2, Io.iter_run m' = Ok (items, h, ex, m2) /\ in_domain (m_st m') (m_st m2) /\ Io.images m2 = Io.images m') /\
    (forall r, Stats.stats_of s' = Ok r ->
       exists m2, Io.stats_of m' = Ok (r, m2) /\ in_domain (m_st m') (m_st m2) /\ Io.images m2 = Io.images m').
Proof.
  intros Hn Hpn Hops Hsz.
  destruct (create_refines t n bk bv bh Hn) as (m0 & Hc & Hr & Hkt & Hmn & Hcs).
  destruct (run_from_create t n ops Hn Hops) as (s' & Hrun & _ & _).
  destruct (create_closed t n Hn) as [_ HR0].
  assert (Hsim : simg (Store.create t n) m0).
  { unfold simg. split; [exact Hr|]. split; [exact Hkt|]. split; [exact Hmn|]. split; apply Hcs. }
  destruct (io_run_refines ops (Store.create t n) ∅ m0 s' _ (Load_all.wf_state_create t n Hn) HR0 Hsim Hops Hsz Hrun)
    as (m' & Hio & (Hr' & Hkt' & Hn' & _) & Hwf' & _ & _).
  pose proof (sized_final _ _ _ _ Hsz Hrun) as H64.
  assert (Hcb : calls_between (empty_st bk bv bh) (m_st m')).
  { eapply cb_trans; [exact (create_calls _ _ _ _ _ _ Hc)|exact (io_run_calls _ _ _ _ Hio)]. }
  destruct (hwfe_run (Store.create t n) ops s' _ Hn (hwfe_create n Hn) Hrun) as [_ Hnb]. cbn [Store.create hx htx_create nb] in Hnb.
  pose proof (hend_reachable t n ops s' _ Hn Hrun) as He.
  assert (Hfcs : fcs (get_file (m_st m') FHtx) = chunk_of htx_chunk_size bh).
  { destruct Hcb as (cf & H & _). destruct (H FHtx) as [_ ->]. reflexivity. }
  destruct (pow2_chunk_of bh) as [Hp2 Hge].
  destruct (images_eta m') as (hi & ki & vi & Him). rewrite Him in Hr'.
  destruct (readonly_calls_in_domain s' hi ki vi m' Hwf' H64 Hr' Hkt' Hn' Him) as (A & B & C & D & E);
    [rewrite Hn', Hnb; exact Hpn|rewrite Hfcs; exact Hp2|rewrite Hfcs; exact Hge|lia|].
  assert (Hcf : chunk_free (m_st m')).
  { apply (chunk_free_images s' hi ki vi m'); try assumption;
      [apply Hwf'|rewrite Hn', Hnb; exact Hpn|rewrite Hfcs; exact Hp2|rewrite Hfcs; lia|lia]. }
  exists m0, m', s'. repeat (split; [first [assumption | rewrite Him; assumption]|]). exact E.
Qed.

Print Assumptions ro_step_in_domain.
Print Assumptions history_then_readonly_in_domain.
Print Assumptions table_end_chunk_free.
Print Assumptions readonly_calls_in_domain.
