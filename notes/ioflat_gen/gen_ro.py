import re,sys
T='/root/scratch/ioflat/coq/theories/'
def lines(f,a,b):
    L=open(T+f).read().split('\n')
    return '\n'.join(L[a-1:b])+'\n'
def rep(t,old,new,count=1):
    assert t.count(old)==count, (old[:60], t.count(old))
    return t.replace(old,new)
out=open('head.v').read()
w=lines('Load_htx_proofs.v',276,404)
w=re.sub(r'\bhtx_wf','hwfe',w).replace('wf_same','wfe_same')
out=out.replace('HWFE_REPLAY',w)
# ---- Io_htx: section image
h=lines('Io_htx.v',144,509)
old='''  eapply ro_step_trans; [apply ro_step_seek; exact Hin|].
  eapply ro_step_of_reads; [split; [exact Hf|exact Ho]|exact Ha|].
  constructor; [|constructor]. eexists _, _. reflexivity.
'''
assert h.count(old)==2
i=h.index(old)
h=h[:i]+'''  eapply ro_step_trans; [apply ro_step_seek; exact Hin|].
  (* tight: *) exact (ro_step_read8 FHtx _ _ _ _ _ (conj Hf Ho) Ha Hv).
'''+h[i+len(old):]
i=h.index(old)
h=h[:i]+'''  eapply ro_step_trans; [apply ro_step_seek; exact Hin|].
  (* tight: *) exact (ro_step_read8 FHtx _ _ _ _ _ (conj Hf Ho) Ha Hview).
'''+h[i+len(old):]
h=rep(h,'''    assert (Hro : ro_step s s1) by (exact (ro_step_read FHtx s s1 _ 8 Hu Ha)).''',
'''    assert (Hro : ro_step s s1).
    { (* tight: the stride ends at most 6 bytes beyond the end *)
      apply (ro_step_read FHtx s s1 _ 8 Hu Ha). unfold slack, fend. cbn [get_file]. rewrite Hh, Hp, img_blen.
      pose proof hend_ge as Hge. assert (Hd : (idx + 1 * 8) / 8 <= nb h / 8) by (apply N.div_le_mono; lia).
      rewrite N.div_add in Hd by lia. unfold base. lia. }''')
h=rep(h,'''    assert (Hro : ro_step s s1) by (exact (ro_step_read FHtx s s1 _ 1 Hu Ha)).''',
'''    assert (Hro : ro_step s s1).
    { (* tight: with fewer than 8 buckets the bitmap byte read lies at the end of the file *)
      apply (ro_step_read FHtx s s1 _ 1 Hu Ha). unfold slack, fend. cbn [get_file]. rewrite Hh, Hp, img_blen.
      pose proof hend_ge as Hge. assert (Hd : idx / 8 <= nb h / 8) by (apply N.div_le_mono; lia).
      unfold base. lia. }''')
h=rep(h,'''    { eapply ro_step_read; [split; [exact Hf|exact Ho]|exact Ha]. }''',
'''    { (* tight: *) exact (ro_step_read8 FHtx _ _ _ _ _ (conj Hf Ho) Ha Hv). }''')
out+='\n(** *** Io_htx.v, section [image] *)\n'+h
out+='\n'+lines('Io_htx.v',806,817)
# ---- Io_reads: D2, D3
r=lines('Io_reads.v',303,617)+lines('Io_reads.v',619,965)+lines('Io_reads.v',987,1020)
old_rdn='''  - eapply ro_step_of_reads; [split; [exact Hf|exact Ho]|exact Ha|].
    constructor; [|constructor]. eexists _, _. reflexivity.
'''
r=rep(r,old_rdn,'''  - (* tight: *) apply (ro_step_read f s s' _ (blen d) (conj Hf Ho) Ha). unfold slack. destruct f; lia.
''')
# rd_vu64: new proof
i=r.index('Lemma rd_vu64 f s v (rest : bytes)')
j=r.index('Qed.',i)+4
r=r[:i]+'''Lemma rd_vu64 f s v (rest : bytes) : v < 2 ^ 64 -> vw s f (encode v ++ rest) ->
  exists s', read_vu64 f s = Ok (v, s') /\\ ro_step s s' /\\ vw s' f rest /\\
    fp (get_file s' f) = fp (get_file s f) + enc_len v.
Proof.
  (* tight: the first byte, then the follow bytes, each inside the file; the value is the one
     [Io_base.read_vu64_view] computes *)
  intros Hv Hvw. pose proof Hvw as [Hp Hview].
  destruct (read_vu64_view f s v rest Hv Hview) as (s' & evs & Hr & _).
  destruct (encode_first v Hv) as (b0 & r & He & Hd & Hbr).
  rewrite He in Hvw. cbn [app] in Hvw.
  destruct (rd_byte f s b0 (r ++ rest) Hvw) as (s1 & E1 & R1 & V1 & P1).
  unfold read_vu64 in Hr |- *. rewrite E1 in *. cbn [rbind] in *.
  destruct (b0 <? 128) eqn:Hb.
  - injection Hr as -> <-. apply N.ltb_lt in Hb. rewrite (dec_len_lt128 _ Hb) in Hd.
    assert (r = []) by (destruct r; [reflexivity|rewrite blen_cons in Hbr; lia]). subst r. cbn [app] in V1.
    exists s1. split; [reflexivity|]. split; [exact R1|]. split; [exact V1|lia].
  - destruct (rd_n f s1 r rest V1) as (s2 & E2 & R2 & V2 & P2).
    replace (dec_len b0 - 1) with (blen r) in * by lia.
    unfold read_le in Hr |- *. rewrite E2 in *. cbn [rbind] in *.
    destruct (vu64_of_parts b0 (le_decode r)) as [v0|]; [|discriminate Hr]. injection Hr as -> <-.
    pose proof (enc_len_range v).
    exists s2. split; [reflexivity|]. split; [eapply ro_step_trans; eassumption|]. split; [exact V2|lia].
Qed.'''+r[j:]
r=r.replace('Io_htx.holds','holds')
out+='\n(** *** Io_reads.v, D2 - D3 *)\n'+r
# ---- Io_reads2
q=lines('Io_reads2.v',14,715)
q=q.replace('Io_htx.holds','holds')
out+='\n(** *** Io_reads2.v *)\n'+q
out+=open('tail.v').read()
open(T+'Io_flat_ro.v','w').write(out)
