(** ** 2. the three-file relation; tight: the state [x] was reached from [x0] by tight steps *)
Definition sim (h : htx) (kf : pfile krec) (vf : pfile bytes) (x : st) : Prop :=
  holds sg h x /\
  hold key_cfg kslot_bytes sg FKey x kf /\ hold val_cfg vslot_bytes sg FVal x vf /\
  0 < fcs (get_file x FKey) /\ 0 < fcs (get_file x FVal) /\ tight x0 x.

Lemma sim_ro h kf vf x x' : sim h kf vf x -> rot x x' -> sim h kf vf x'.
Proof.
  intros (A & B & C & D & E & T) R. pose proof (tight_trans _ _ _ T (rot_tight _ _ R)) as T2.
  destruct R as [R _]. pose proof R as [Hb _].
  destruct (Hb FHtx) as [b1 c1], (Hb FKey) as [b2 c2], (Hb FVal) as [b3 c3].
  unfold sim, holds, hold in *. cbn [get_file] in *.
  rewrite b1, b2, b3, c2, c3. auto 10.
Qed.

Lemma sim_kstep h kf vf x x' kf' : sim h kf vf x -> frame FKey x x' ->
  hold key_cfg kslot_bytes sg FKey x' kf' -> sim h kf' vf x'.
Proof.
  intros (A & B & C & D & E & T) (Fc & Fo & T') H'. pose proof (tight_trans _ _ _ T T') as T2.
  pose proof (Fo FHtx ltac:(discriminate)) as E1. pose proof (Fo FVal ltac:(discriminate)) as E2.
  unfold sim, holds, hold in *. cbn [get_file] in *. rewrite E1, E2, Fc. auto 10.
Qed.

Lemma sim_vstep h kf vf x x' vf' : sim h kf vf x -> frame FVal x x' ->
  hold val_cfg vslot_bytes sg FVal x' vf' -> sim h kf vf' x'.
Proof.
  intros (A & B & C & D & E & T) (Fc & Fo & T') H'. pose proof (tight_trans _ _ _ T T') as T2.
  pose proof (Fo FHtx ltac:(discriminate)) as E1. pose proof (Fo FKey ltac:(discriminate)) as E2.
  unfold sim, holds, hold in *. cbn [get_file] in *. rewrite E1, E2, Fc. auto 10.
Qed.

Lemma sim_hstep h kf vf x x' h' : sim h kf vf x -> htx_step x x' (render_htx sg h') -> sim h' kf vf x'.
Proof.
  intros (A & B & C & D & E & T) [(Hb & _ & Fo & _) T']. pose proof (tight_trans _ _ _ T T') as T2.
  pose proof (Fo FKey ltac:(discriminate)) as E1. pose proof (Fo FVal ltac:(discriminate)) as E2.
  unfold sim, holds, hold in *. cbn [get_file] in *. rewrite E1, E2. auto 10.
Qed.

