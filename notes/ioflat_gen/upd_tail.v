
(** ** PART 5. [put], [del], one call, a history: inside the domain of the cache theorem *)

(** the table file of a map that holds the images of [s] ends at [hend (hx s)] *)
Lemma images_fend_htx s (imgs : bytes * bytes * bytes) m : htx_wf (hx s) -> render s = Ok imgs -> Io.images m = imgs ->
  fend (get_file (m_st m) FHtx) = hend (hx s).
Proof.
  intros Hw Hr Him. destruct imgs as [[himg kimg] vimg].
  unfold Io.images in Him. injection Him as A _ _. unfold fend. cbn [get_file]. rewrite A.
  unfold render in Hr. cbv zeta in Hr.
  destruct (render_pfile key_cfg kslot_bytes (sig_of (kt s)) (keyf s)) as [ki| | |]; cbn [rbind] in Hr; try discriminate Hr.
  destruct (render_pfile val_cfg vslot_bytes (sig_of (kt s)) (valf s)) as [vi| | |]; cbn [rbind] in Hr; try discriminate Hr.
  injection Hr as <- _ _. apply render_htx_blen; [apply sig_len|]. destruct Hw as (_ & H & _). lia.
Qed.

Lemma pow2_pos n : pow2 n -> 1 <= n.
Proof. intros [k ->]. pose proof (N.pow_nonzero 2 k). lia. Qed.

(** a tight step between two maps holding the images of [s] and [s'] (same number of buckets,
    table files within one byte of the end [create] gives) is inside the domain *)
Lemma tight_step_in_domain s s' m m' :
  htx_wf (hx s) -> htx_wf (hx s') -> render s = Ok (Io.images m) -> render s' = Ok (Io.images m') ->
  nb (hx s') = nb (hx s) -> hend (hx s') <= table_end (nb (hx s')) + 1 ->
  pow2 (nb (hx s)) -> pow2 (fcs (get_file (m_st m) FHtx)) -> 4096 <= fcs (get_file (m_st m) FHtx) ->
  tight (m_st m) (m_st m') -> in_domain (m_st m) (m_st m').
Proof.
  intros Hw Hw' Hr Hr' Hnb He' Hpn Hpc Hc T.
  apply (tight_in_domain (nb (hx s)) _ _ T Hpn Hpc); [lia| |].
  - rewrite (images_fend_htx s _ m Hw Hr eq_refl). destruct Hw as (_ & H & _). unfold table_end. lia.
  - rewrite (images_fend_htx s' _ m' Hw' Hr' eq_refl). rewrite <- Hnb. exact He'.
Qed.

(** THEOREM 1a.  Under the hypotheses of [Io_proofs.Io_d_put], for a map of the crate (a power of
    two of buckets, table-file chunks a power of two >= 4096, the table file at most one byte
    longer than [create] made it): [Io.put] returns [Ok], leaves the images of [s'], and its calls
    are inside the domain of the cache theorem.  (The chunk sizes of the key and value files do
    not matter: no read of an updating operation ends beyond the end of those files.) *)
Theorem put_in_domain s m himg kimg vimg key v s' :
  wf_state s -> fits64 s -> render s = Ok (himg, kimg, vimg) ->
  m_kt m = kt s -> m_n m = nb (hx s) -> Io.images m = (himg, kimg, vimg) ->
  0 < fcs (get_file (m_st m) FKey) -> 0 < fcs (get_file (m_st m) FVal) ->
  room s -> blen key < 2 ^ 31 -> blen v < 2 ^ 31 ->
  pow2 (m_n m) -> pow2 (fcs (get_file (m_st m) FHtx)) -> 4096 <= fcs (get_file (m_st m) FHtx) ->
  hend (hx s) <= table_end (nb (hx s)) + 1 ->
  Store.put s key v = Ok s' ->
  exists m', Io.put m key v = Ok m' /\ render s' = Ok (Io.images m') /\
    m_kt m' = m_kt m /\ m_n m' = m_n m /\
    0 < fcs (get_file (m_st m') FKey) /\ 0 < fcs (get_file (m_st m') FVal) /\
    nb (hx s') = nb (hx s) /\ hend (hx s') <= table_end (nb (hx s')) + 1 /\
    in_domain (m_st m) (m_st m').
Proof.
  intros Hwf H64 Hr Hkt Hmn Him Hck Hcv Hroom Hkl Hvl Hpn Hpc Hc He Hput.
  destruct (put_refines s m himg kimg vimg key v s' Hwf H64 Hr Hkt Hmn Him Hck Hcv Hroom Hkl Hvl Hput)
    as (m' & imgs' & Hp & Hr' & Hi' & Hkt' & Hn' & Hck' & Hcv' & T).
  pose proof Hwf as (_ & _ & Hw). rewrite Hmn in Hpn.
  destruct (hwfe_put_same s key v s' (pow2_pos _ Hpn) (conj Hw He) Hput) as [[Hw' He'] Hnb].
  subst imgs'. rewrite <- Him in Hr.
  exists m'. repeat (split; [assumption|]).
  exact (tight_step_in_domain s s' m m' Hw Hw' Hr Hr' Hnb He' Hpn Hpc Hc T).
Qed.

(** THEOREM 1b.  The same for [Io.del], under the hypotheses of [Io_proofs.Io_d_del]. *)
Theorem del_in_domain s m himg kimg vimg key s' r :
  wf_state s -> fits64 s -> render s = Ok (himg, kimg, vimg) ->
  m_kt m = kt s -> m_n m = nb (hx s) -> Io.images m = (himg, kimg, vimg) ->
  0 < fcs (get_file (m_st m) FKey) -> 0 < fcs (get_file (m_st m) FVal) ->
  room s ->
  pow2 (m_n m) -> pow2 (fcs (get_file (m_st m) FHtx)) -> 4096 <= fcs (get_file (m_st m) FHtx) ->
  hend (hx s) <= table_end (nb (hx s)) + 1 ->
  Store.del s key = Ok (s', r) ->
  exists m', Io.del m key = Ok (r, m') /\ render s' = Ok (Io.images m') /\
    m_kt m' = m_kt m /\ m_n m' = m_n m /\
    0 < fcs (get_file (m_st m') FKey) /\ 0 < fcs (get_file (m_st m') FVal) /\
    nb (hx s') = nb (hx s) /\ hend (hx s') <= table_end (nb (hx s')) + 1 /\
    in_domain (m_st m) (m_st m').
Proof.
  intros Hwf H64 Hr Hkt Hmn Him Hck Hcv Hroom Hpn Hpc Hc He Hdel.
  destruct (del_refines s m himg kimg vimg key s' r Hwf H64 Hr Hkt Hmn Him Hck Hcv Hroom Hdel)
    as (m' & imgs' & Hp & Hr' & Hi' & Hkt' & Hn' & Hck' & Hcv' & T).
  pose proof Hwf as (_ & _ & Hw). rewrite Hmn in Hpn.
  destruct (hwfe_del_same s key s' r (pow2_pos _ Hpn) (conj Hw He) Hdel) as [[Hw' He'] Hnb].
  subst imgs'. rewrite <- Him in Hr.
  exists m'. repeat (split; [assumption|]).
  exact (tight_step_in_domain s s' m m' Hw Hw' Hr Hr' Hnb He' Hpn Hpc Hc T).
Qed.

(** in the form "the step satisfies": whatever [Io.put] / [Io.del] returned *)
Corollary put_step_in_domain s m himg kimg vimg key v s' m' :
  wf_state s -> fits64 s -> render s = Ok (himg, kimg, vimg) ->
  m_kt m = kt s -> m_n m = nb (hx s) -> Io.images m = (himg, kimg, vimg) ->
  0 < fcs (get_file (m_st m) FKey) -> 0 < fcs (get_file (m_st m) FVal) ->
  room s -> blen key < 2 ^ 31 -> blen v < 2 ^ 31 ->
  pow2 (m_n m) -> pow2 (fcs (get_file (m_st m) FHtx)) -> 4096 <= fcs (get_file (m_st m) FHtx) ->
  hend (hx s) <= table_end (nb (hx s)) + 1 ->
  Store.put s key v = Ok s' -> Io.put m key v = Ok m' -> in_domain (m_st m) (m_st m').
Proof.
  intros Hwf H64 Hr Hkt Hmn Him Hck Hcv Hroom Hkl Hvl Hpn Hpc Hc He Hput E.
  destruct (put_in_domain s m himg kimg vimg key v s' Hwf H64 Hr Hkt Hmn Him Hck Hcv Hroom Hkl Hvl Hpn Hpc Hc He Hput)
    as (m2 & E2 & H). rewrite E in E2. injection E2 as <-. apply H.
Qed.

Corollary del_step_in_domain s m himg kimg vimg key s' r r' m' :
  wf_state s -> fits64 s -> render s = Ok (himg, kimg, vimg) ->
  m_kt m = kt s -> m_n m = nb (hx s) -> Io.images m = (himg, kimg, vimg) ->
  0 < fcs (get_file (m_st m) FKey) -> 0 < fcs (get_file (m_st m) FVal) ->
  room s ->
  pow2 (m_n m) -> pow2 (fcs (get_file (m_st m) FHtx)) -> 4096 <= fcs (get_file (m_st m) FHtx) ->
  hend (hx s) <= table_end (nb (hx s)) + 1 ->
  Store.del s key = Ok (s', r) -> Io.del m key = Ok (r', m') -> in_domain (m_st m) (m_st m').
Proof.
  intros Hwf H64 Hr Hkt Hmn Him Hck Hcv Hroom Hpn Hpc Hc He Hdel E.
  destruct (del_in_domain s m himg kimg vimg key s' r Hwf H64 Hr Hkt Hmn Him Hck Hcv Hroom Hpn Hpc Hc He Hdel)
    as (m2 & E2 & H). rewrite E in E2. injection E2 as _ <-. apply H.
Qed.

(** the hypotheses on the map that a history keeps *)
Definition crate_map (s : store) (m : mp) : Prop :=
  pow2 (m_n m) /\ pow2 (fcs (get_file (m_st m) FHtx)) /\ 4096 <= fcs (get_file (m_st m) FHtx) /\
  hend (hx s) <= table_end (nb (hx s)) + 1.

Lemma in_domain_fcs s s' f : in_domain s s' -> fcs (get_file s' f) = fcs (get_file s f).
Proof. intros (cf & evs & _ & T & _). apply T. Qed.

(** THEOREM 2a.  One API call ([Io_run.io_step_refines] with the domain statement). *)
Theorem io_step_in_domain s sp m o s1 r :
  wf_state s -> represents s sp -> simg s m -> op_wf (kt s) o -> fits64 s -> room s ->
  crate_map s m ->
  store_step s o = Ok (s1, r) ->
  exists m1, io_step m o = Ok (m1, r) /\ simg s1 m1 /\
    wf_state s1 /\ represents s1 (fst (spec_step sp o)) /\ kt s1 = kt s /\ r = snd (spec_step sp o) /\
    crate_map s1 m1 /\ in_domain (m_st m) (m_st m1).
Proof.
  intros Hwf HR Hsim Hw H64 Hroom (Hpn & Hpc & Hc & He) Hs.
  destruct (io_step_refines s sp m o s1 r Hwf HR Hsim Hw H64 Hroom Hs) as (m1 & Hio & Hsim1 & Hwf1 & HR1 & Hkt1 & Hrr).
  destruct Hsim as (Hr & Hkt & Hn & Hck & Hcv).
  pose proof Hwf as (_ & _ & Hhw). pose proof Hpn as Hpn'. rewrite Hn in Hpn'.
  destruct (hwfe_step s o s1 r (pow2_pos _ Hpn') (conj Hhw He) Hs) as [[_ He1] Hnb1].
  destruct (images_eta m) as (hi & ki & vi & Him). rewrite Him in Hr.
  assert (Hcf : chunk_free (m_st m))
    by (apply (chunk_free_images s hi ki vi m); try assumption; lia).
  assert (Hdom : in_domain (m_st m) (m_st m1)).
  { destruct o as [k v | k | k | k | |]; cbn [store_step] in Hs; cbn [io_step op_wf] in *.
    - destruct (Store.put s k v) as [s'| | |] eqn:E; cbn [rbind] in Hs; try discriminate. injection Hs as <- <-.
      destruct Hw as [(_ & Hkl & _) (_ & Hvl)].
      apply rbind_ok in Hio as (m' & Ep & Hio). injection Hio as <-.
      exact (put_step_in_domain s m hi ki vi k v s' m' Hwf H64 Hr Hkt Hn Him Hck Hcv Hroom Hkl Hvl Hpn Hpc Hc He E Ep).
    - destruct (Store.get s k) as [rr| | |] eqn:E; cbn [rbind] in Hs; try discriminate. injection Hs as <- <-.
      destruct (get_in_domain s hi ki vi m Hwf H64 Hr Hkt Hn Him Hcf k rr E) as (m' & Hg & Hd & _).
      rewrite Hg in Hio. cbn [rbind] in Hio. injection Hio as <-. exact Hd.
    - destruct (Store.del s k) as [[s' rr]| | |] eqn:E; cbn [rbind] in Hs; try discriminate. injection Hs as <- <-.
      apply rbind_ok in Hio as ([r' m'] & Ep & Hio). cbv beta iota in Hio. injection Hio as <- _.
      exact (del_step_in_domain s m hi ki vi k s' rr r' m' Hwf H64 Hr Hkt Hn Him Hck Hcv Hroom Hpn Hpc Hc He E Ep).
    - destruct (Store.has s k) as [b| | |] eqn:E; cbn [rbind] in Hs; try discriminate. injection Hs as <- <-.
      destruct (has_in_domain s hi ki vi m Hwf H64 Hr Hkt Hn Him Hcf k b E) as (m' & Hg & Hd & _).
      rewrite Hg in Hio. cbn [rbind] in Hio. injection Hio as <-. exact Hd.
    - injection Hs as <- <-.
      destruct (len_in_domain s hi ki vi m Hwf H64 Hr Him Hcf) as (m' & Hg & Hd & _).
      rewrite Hg in Hio. cbn [rbind] in Hio. injection Hio as <-. exact Hd.
    - injection Hs as <- <-.
      destruct (len_in_domain s hi ki vi m Hwf H64 Hr Him Hcf) as (m' & Hg & Hd & _).
      rewrite Hg in Hio. cbn [rbind] in Hio. injection Hio as <-. exact Hd. }
  exists m1. repeat (split; [assumption|]). split; [|exact Hdom].
  pose proof Hsim1 as (_ & _ & Hn1 & _).
  unfold crate_map. split; [rewrite Hn1, Hnb1, <- Hn; exact Hpn|].
  rewrite (in_domain_fcs _ _ FHtx Hdom). auto.
Qed.

(** THEOREM 2b.  Histories ([Io_run.io_run_refines] with the domain statement). *)
Theorem io_run_in_domain ops : forall s sp m s' outs,
  wf_state s -> represents s sp -> simg s m -> Forall (op_wf (kt s)) ops -> sized s ops ->
  crate_map s m ->
  store_run s ops = Ok (s', outs) ->
  exists m', io_run m ops = Ok (m', outs) /\ simg s' m' /\ wf_state s' /\
    represents s' (fst (spec_run sp ops)) /\ outs = snd (spec_run sp ops) /\
    crate_map s' m' /\ in_domain (m_st m) (m_st m').
Proof.
  induction ops as [|o ops IH]; intros s sp m s' outs Hwf HR Hsim Hw Hsz Hcm Hrun.
  - cbn [store_run] in Hrun. injection Hrun as <- <-. exists m. cbn. repeat (split; [solve [auto]|]). apply in_domain_refl.
  - cbn [store_run] in Hrun.
    destruct (store_step s o) as [[s1 r]| | |] eqn:E1; cbn [rbind] in Hrun; try discriminate.
    destruct (store_run s1 ops) as [[s2 rs]| | |] eqn:E2; cbn [rbind] in Hrun; try discriminate.
    injection Hrun as <- <-.
    inversion Hw as [|? ? Ho Hops]; subst.
    destruct (sized_here _ _ Hsz) as [H64 Hroom].
    destruct (io_step_in_domain s sp m o s1 r Hwf HR Hsim Ho H64 Hroom Hcm E1)
      as (m1 & Hio & Hsim1 & Hwf1 & HR1 & Hkt1 & Hr & Hcm1 & Hd1).
    assert (Hsz1 : sized s1 ops) by (cbn [sized] in Hsz; destruct Hsz as (_ & _ & H); exact (H s1 r E1)).
    rewrite <- Hkt1 in Hops.
    destruct (IH s1 _ m1 s2 rs Hwf1 HR1 Hsim1 Hops Hsz1 Hcm1 E2) as (m2 & Hio2 & Hsim2 & Hwf2 & HR2 & Hrs & Hcm2 & Hd2).
    exists m2. cbn [io_run spec_run]. rewrite Hio. cbn [rbind]. rewrite Hio2. cbn [rbind].
    destruct (spec_step sp o) as [sp1 r0] eqn:Es. cbn [fst snd] in *.
    destruct (spec_run sp1 ops) as [sp2 rs0] eqn:Er. cbn [fst snd] in *.
    subst. repeat (split; [solve [auto]|]). exact (in_domain_trans _ _ _ Hd1 Hd2).
Qed.

(** ** PART 6. creation, and a whole history from the empty files *)

(** position at or below the end, in all three files: what a seek, a write and a set_len leave *)
Definition pe (s : st) : Prop := forall f, fp (get_file s f) <= fend (get_file s f).

Lemma pe_step f s s' : pe s -> (forall g, g <> f -> get_file s' g = get_file s g) ->
  fp (get_file s' f) <= fend (get_file s' f) -> pe s'.
Proof. intros Hs O Hf g. destruct (fid_eq_dec g f) as [->|Hg]; [exact Hf|rewrite (O g Hg); apply Hs]. Qed.

Definition same_others (f : fid) (s s' : st) : Prop := forall g, g <> f -> get_file s' g = get_file s g.

Lemma same_others_trans f s1 s2 s3 : same_others f s1 s2 -> same_others f s2 s3 -> same_others f s1 s3.
Proof. intros A B g Hg. rewrite B, A by exact Hg. reflexivity. Qed.

(** what a primitive does to the position and the end of its file *)
Lemma seek_to_nums f t s :
  fp (get_file (seek_to f t s) f) = t /\ fend (get_file (seek_to f t s) f) = N.max (fend (get_file s f)) t /\
  same_others f s (seek_to f t s).
Proof.
  destruct (seek_to_spec f t s) as [[H O] _]. rewrite H. unfold fend. cbn [fb fp]. rewrite blen_pad_to. auto.
Qed.

Lemma write_n_nums f d s :
  fp (get_file (write_n f d s) f) = fp (get_file s f) + blen d /\
  fend (get_file (write_n f d s) f) = N.max (fend (get_file s f)) (fp (get_file s f) + blen d) /\
  same_others f s (write_n f d s).
Proof.
  destruct (write_n_spec f d s) as [[H O] _]. rewrite H. unfold fend. cbn [fb fp]. rewrite blen_splice. auto.
Qed.

Lemma set_len_nums f n s :
  fp (get_file (Io.set_len f n s) f) = N.min (fp (get_file s f)) n /\ fend (get_file (Io.set_len f n s) f) = n /\
  same_others f s (Io.set_len f n s).
Proof.
  unfold Io.set_len. rewrite get_emit, get_set_same. unfold fend. cbn [fb fp]. rewrite blen_resize.
  split; [reflexivity|]. split; [reflexivity|].
  intros g Hg. rewrite get_emit, get_set_other by congruence. reflexivity.
Qed.

(** steps with no read: any slack will do, take 0 (then no condition on the chunks is left) *)
Notation tight0 := (tightx (fun _ => 0)).

Ltac tchain := repeat first [eassumption | eapply tightx_trans; [eassumption|]].
Ltac ochain := repeat first [eassumption | eapply same_others_trans; [eassumption|]].
Ltac inv_bind H x E := apply rbind_ok in H as (x & E & H); cbv beta in H.

Lemma seek_pe f t s : pe s -> tight0 s (seek_to f t s) /\ pe (seek_to f t s).
Proof.
  intros Hs. split; [apply tightx_seek|]. destruct (seek_to_nums f t s) as (A & B & O).
  apply (pe_step f s _ Hs O). lia.
Qed.

Lemma write_pe f d s : pe s -> tight0 s (write_n f d s) /\ pe (write_n f d s).
Proof.
  intros Hs. split; [apply tightx_write; apply Hs|]. destruct (write_n_nums f d s) as (A & B & O).
  apply (pe_step f s _ Hs O). lia.
Qed.

Lemma write_all_pe f (d : bytes) s s' : write_all_bytes f d s = Ok s' -> pe s ->
  tight0 s s' /\ pe s' /\ same_others f s s' /\
  fp (get_file s' f) = fp (get_file s f) + blen d /\
  fend (get_file s' f) = N.max (fend (get_file s f)) (fp (get_file s f) + blen d).
Proof.
  intros E Hs. destruct (tightx_write_all_bytes (fun _ => 0) f d s s' E (Hs f)) as (T & P & F & O).
  split; [exact T|]. split; [|auto]. apply (pe_step f s _ Hs O). lia.
Qed.

(** [init_pheader]: two seeks, then writes *)
Lemma init_pheader_tight c f sig2 s s' : init_pheader c f sig2 s = Ok s' -> pe s ->
  tight0 s s' /\ pe s' /\ same_others f s s'.
Proof.
  unfold init_pheader, seek_to_end, seek_from_start, write_u64. cbn [rbind]. intros H Hs.
  destruct (seek_pe f (fend (get_file s f)) s Hs) as [T0 P0]. destruct (seek_to_nums f (fend (get_file s f)) s) as (_ & _ & O0).
  set (s0 := seek_to f (fend (get_file s f)) s) in *.
  destruct (seek_pe f 0 s0 P0) as [T1 P1]. destruct (seek_to_nums f 0 s0) as (_ & _ & O1).
  set (s1 := seek_to f 0 s0) in *.
  inv_bind H s2 E2. destruct (write_all_pe f _ s1 s2 E2 P1) as (T2 & P2 & O2 & _).
  inv_bind H s3 E3. destruct (write_all_pe f _ s2 s3 E3 P2) as (T3 & P3 & O3 & _).
  cbn [rbind] in H.
  destruct (write_pe f (le_bytes 8 0) s3 P3) as [T4 P4]. destruct (write_n_nums f (le_bytes 8 0) s3) as (_ & _ & O4).
  set (s4 := write_n f (le_bytes 8 0) s3) in *.
  destruct (write_pe f (le_bytes 8 0) s4 P4) as [T5 P5]. destruct (write_n_nums f (le_bytes 8 0) s4) as (_ & _ & O5).
  set (s5 := write_n f (le_bytes 8 0) s4) in *.
  destruct (write_all_pe f _ s5 s' H P5) as (T6 & P6 & O6 & _).
  split; [tchain|]. split; [exact P6|]. ochain.
Qed.

Lemma blen_htx_signature : blen htx_signature = 8.
Proof. reflexivity. Qed.

(** [init_htx] on an empty table file: the header is written from position 0, [set_len] grows the
    file from the end of the header, the final zero word is written after a seek *)
Lemma init_htx_tight sig2 n s s' : init_htx sig2 n s = Ok s' -> pe s ->
  fend (get_file s FHtx) = 0 -> blen sig2 = 8 ->
  tight0 s s' /\ pe s' /\ same_others FHtx s s'.
Proof.
  unfold init_htx, seek_to_end, seek_from_start, write_u64. cbn [rbind]. intros H Hs He Hsig.
  destruct (seek_pe FHtx (fend (get_file s FHtx)) s Hs) as [T0 P0].
  destruct (seek_to_nums FHtx (fend (get_file s FHtx)) s) as (A0 & B0 & O0).
  set (s0 := seek_to FHtx (fend (get_file s FHtx)) s) in *.
  destruct (seek_pe FHtx 0 s0 P0) as [T1 P1]. destruct (seek_to_nums FHtx 0 s0) as (A1 & B1 & O1).
  set (s1 := seek_to FHtx 0 s0) in *.
  inv_bind H s2 E2. destruct (write_all_pe FHtx _ s1 s2 E2 P1) as (T2 & P2 & O2 & A2 & B2).
  inv_bind H s3 E3. destruct (write_all_pe FHtx _ s2 s3 E3 P2) as (T3 & P3 & O3 & A3 & B3).
  cbn [rbind] in H.
  destruct (write_pe FHtx (le_bytes 8 n) s3 P3) as [T4 P4]. destruct (write_n_nums FHtx (le_bytes 8 n) s3) as (A4 & B4 & O4).
  set (s4 := write_n FHtx (le_bytes 8 n) s3) in *.
  inv_bind H s5 E5. destruct (write_all_pe FHtx _ s4 s5 E5 P4) as (T5 & P5 & O5 & A5 & B5).
  cbv zeta in H. change htx_bitmap with true in H. cbv iota in H.
  set (e := htx_header_size + n * 8 + n / 8) in *.
  destruct (e <? 8); [discriminate H|]. cbn [rbind] in H. injection H as <-.
  (* the end of the file before [set_len]: the 128 bytes of the header *)
  rewrite blen_htx_signature in A2, B2. rewrite Hsig in A3, B3. rewrite blen_le_bytes in A4, B4.
  change (N.of_nat 8) with 8 in A4, B4. rewrite blen_zeros in A5, B5.
  change (htx_header_size - 24) with 104 in A5, B5.
  assert (He5 : fend (get_file s5 FHtx) = 128 /\ fp (get_file s5 FHtx) = 128) by lia.
  destruct He5 as [He5 Hp5].
  assert (T6 : tight0 s5 (Io.set_len FHtx e s5)).
  { apply tightx_set_len; [lia|]. rewrite He5. unfold e. change htx_header_size with 128. lia. }
  destruct (set_len_nums FHtx e s5) as (A6 & B6 & O6).
  assert (P6 : pe (Io.set_len FHtx e s5)) by (apply (pe_step FHtx s5 _ P5 O6); lia).
  set (s6 := Io.set_len FHtx e s5) in *.
  destruct (seek_pe FHtx (e - 8) s6 P6) as [T7 P7]. destruct (seek_to_nums FHtx (e - 8) s6) as (_ & _ & O7).
  set (s7 := seek_to FHtx (e - 8) s6) in *.
  destruct (write_pe FHtx (le_bytes 8 0) s7 P7) as [T8 P8]. destruct (write_n_nums FHtx (le_bytes 8 0) s7) as (_ & _ & O8).
  split; [tchain|]. split; [exact P8|]. ochain.
Qed.

(** creation is inside the domain, whatever the chunk sizes: position 0, header writes, a growing
    [set_len], a seek, the zero word - no read *)
Theorem create_in_domain t n bk bv bh m : Io.create t n bk bv bh = Ok m -> in_domain (empty_st bk bv bh) (m_st m).
Proof.
  unfold Io.create. cbv zeta. intros H.
  assert (P0 : pe (empty_st bk bv bh)) by (intros []; cbn; lia).
  inv_bind H s1 E1. destruct (init_pheader_tight _ _ _ _ _ E1 P0) as (T1 & P1 & O1).
  inv_bind H s2 E2. destruct (init_pheader_tight _ _ _ _ _ E2 P1) as (T2 & P2 & O2).
  inv_bind H s3 E3. injection H as <-. cbn [m_st].
  destruct (init_htx_tight _ _ _ _ E3 P2) as (T3 & _ & _).
  { rewrite (O2 FHtx ltac:(discriminate)), (O1 FHtx ltac:(discriminate)). reflexivity. }
  { unfold blen. rewrite sig_len. reflexivity. }
  apply (tightx_in_domain (fun _ => 0)); [tchain|].
  intros f e _. apply chunk_free_at_0.
Qed.

(** THEOREM 3.  END TO END, the domain included: create the three files byte by byte, run any history
    of well-formed calls through the byte-level model (table size a power of two; any of the
    buffer kinds the crate offers): every call returns what the ideal map returns, the three files
    are the [render] of the record-level state, and ALL the calls made on each file - creation
    included - are inside the domain of the cache theorem. *)
Theorem history_in_domain t n bk bv bh ops :
  1 <= n -> pow2 n -> Forall (op_wf t) ops -> sized (Store.create t n) ops ->
  exists m0 m' s',
    Io.create t n bk bv bh = Ok m0 /\
    store_run (Store.create t n) ops = Ok (s', snd (spec_run ∅ ops)) /\
    io_run m0 ops = Ok (m', snd (spec_run ∅ ops)) /\
    render s' = Ok (Io.images m') /\
    in_domain (empty_st bk bv bh) (m_st m').
Proof.
  intros Hn Hpn Hops Hsz.
  destruct (create_refines t n bk bv bh Hn) as (m0 & Hc & Hr & Hkt & Hmn & Hcs).
  destruct (run_from_create t n ops Hn Hops) as (s' & Hrun & _ & _).
  destruct (create_closed t n Hn) as [_ HR0].
  assert (Hsim : simg (Store.create t n) m0).
  { unfold simg. split; [exact Hr|]. split; [exact Hkt|]. split; [exact Hmn|]. split; apply Hcs. }
  pose proof (create_in_domain t n bk bv bh m0 Hc) as Hd0.
  assert (Hfcs : fcs (get_file (m_st m0) FHtx) = chunk_of htx_chunk_size bh) by (rewrite (in_domain_fcs _ _ FHtx Hd0); reflexivity).
  destruct (pow2_chunk_of bh) as [Hp2 Hge].
  assert (Hcm : crate_map (Store.create t n) m0).
  { unfold crate_map. rewrite Hmn, Hfcs. split; [exact Hpn|]. split; [exact Hp2|]. split; [exact Hge|].
    exact (proj2 (hwfe_create n Hn)). }
  destruct (io_run_in_domain ops (Store.create t n) ∅ m0 s' _ (Load_all.wf_state_create t n Hn) HR0 Hsim Hops Hsz Hcm Hrun)
    as (m' & Hio & (Hr' & _) & _ & _ & _ & _ & Hd).
  exists m0, m', s'. split; [exact Hc|]. split; [exact Hrun|]. split; [exact Hio|]. split; [exact Hr'|].
  exact (in_domain_trans _ _ _ Hd0 Hd).
Qed.

(** THEOREM 4.  ... hence over ANY buffer configuration: put a cache in front of each of the three
    (empty) files; the calls of creation and of the whole history, issued against the cache,
    return what the flat file returned to [Io], leave a cache that represents the file after the
    history, and a flush puts exactly those bytes on the disk *)
Theorem history_over_any_cache t n bk bv bh ops :
  1 <= n -> pow2 n -> Forall (op_wf t) ops -> sized (Store.create t n) ops ->
  exists m0 m' s',
    Io.create t n bk bv bh = Ok m0 /\
    store_run (Store.create t n) ops = Ok (s', snd (spec_run ∅ ops)) /\
    io_run m0 ops = Ok (m', snd (spec_run ∅ ops)) /\
    render s' = Ok (Io.images m') /\
    exists cf, forall f, served_by_cache (empty_st bk bv bh) (m_st m') f (cf f).
Proof.
  intros Hn Hpn Hops Hsz.
  destruct (history_in_domain t n bk bv bh ops Hn Hpn Hops Hsz) as (m0 & m' & s' & Hc & Hrun & Hio & Hr & Hd).
  exists m0, m', s'. split; [exact Hc|]. split; [exact Hrun|]. split; [exact Hio|]. split; [exact Hr|].
  destruct (in_domain_served _ _ Hd) as (cf & evs & _ & _ & Hs). exists cf. exact Hs.
Qed.

(** non-vacuity: the concrete history of Io_proofs.v ([sizedb] decides [sized]), 4 buckets - fewer
    than 8: the first [put] reads the bitmap byte AT the end of the table file and grows it *)
Example history_in_domain_example :
  exists m0 m' s',
    Io.create KBytes 4 BufAuto BufAuto BufSized = Ok m0 /\
    store_run (Store.create KBytes 4) Io_proofs.ex_ops = Ok (s', snd (spec_run ∅ Io_proofs.ex_ops)) /\
    io_run m0 Io_proofs.ex_ops = Ok (m', snd (spec_run ∅ Io_proofs.ex_ops)) /\
    render s' = Ok (Io.images m') /\
    in_domain (empty_st BufAuto BufAuto BufSized) (m_st m').
Proof.
  apply history_in_domain.
  - lia.
  - exists 2. reflexivity.
  - repeat constructor; cbn; try lia; try discriminate.
  - apply sizedb_ok. vm_compute. reflexivity.
Qed.

Print Assumptions put_in_domain.
Print Assumptions del_in_domain.
Print Assumptions in_domain_trans.
Print Assumptions io_step_in_domain.
Print Assumptions io_run_in_domain.
Print Assumptions create_in_domain.
Print Assumptions history_in_domain.
Print Assumptions history_over_any_cache.
Print Assumptions history_in_domain_example.
