(** * Io_flat_ro: the calls of the read-only operations lie in the domain of the cache theorem.

    Io_flat.v: every operation of [Io] is, file by file, a run of canonical buffer calls
    ([calls_between]), and [calls_ok] / [evs_ok] decide whether such a run is inside the domain of
    [Flatx.xrun].  This file discharges [calls_ok] for [get] / [has] / [len] / [iter_run] /
    [stats_of] on the images of a well-formed state.

    The existing proofs (Io_htx.v, Io_reads.v, Io_reads2.v) conclude [Io_htx.ro_step], whose event
    predicate [ev_quiet] says nothing about the length of a read.  Here [ev_quiet] is STRENGTHENED:
    a read ends at most [slack f] bytes beyond the end of file [f] (7 for the table file - the
    8-byte stride of [scan64] over the bitmap and the 1-byte bitmap reads of a table with fewer
    than 8 buckets -, 0 for the key and value files), and the proofs of the three files are
    replayed for the strengthened [ro_step]: PART 2 below is a copy of their text (the section
    [image] of Io_htx.v, D2-D3 of Io_reads.v, all of Io_reads2.v), unchanged except for the seven
    places where a read event is produced (marked "tight:").  If [Io_htx.ev_quiet] is
    strengthened in place one day, PART 2 can be deleted.

    PART 0 (record level): the table file never grows beyond one byte after the end [create] gave
    it ([hend_reachable]; the invariance proofs of Load_htx_proofs.v section 5 replayed for the
    two-sided bound).

    PART 3: a step whose events are tight is inside the domain ([tight_calls_ok],
    [ro_step_in_domain]) for every buffer whose chunks do not start within [slack f] bytes after the
    end of the file ([chunk_free]); for the table file of a map with a power of two of buckets and
    a chunk size that is a power of two >= 128 (the crate: 4096 or 131072) that is so
    ([table_end_chunk_free]).  [readonly_calls_in_domain]: the five read-only operations on the
    images of a well-formed state; [history_then_readonly_in_domain]: the same after [create] and
    any history, with nothing assumed but the 64-bit headroom [sized].

    (This file is generated: /root/scratch/ioflat/gen/gen_ro.py pastes the line ranges of the
    three files between head.v and tail.v and applies the seven patches.) *)
From Coq Require Import Lia ZifyN ZifyNat ZifyBool.
From Aby Require Import Base Vu64 Vu64_proofs Hash KeyTypes Consts Sizing Sizing_proofs Alloc AllocInv AllocInv_proofs
  Htx Htx_proofs Store Iter Stats Layout Load Load_proofs Load_htx_proofs Cache Cache_proofs Refine Refine_relink
  Spec Open_proofs Refine_all Flatx Io Io_base Io_htx Io_reads Io_reads2 Io_run Io_create Io_flat.
From Aby Require Load_all.
#[local] Open Scope N_scope.

(** ** PART 0 (record level). the table file never grows beyond one byte after the end [create]
    gave it

    [htx_wf] says [table_end (nb h) <= hend h]; here the other side: [hend h <= table_end (nb h) + 1]
    ([write_head] writes the bitmap byte of bucket [i] at [.. + i / 8], at most the byte at the
    end - for fewer than 8 buckets).  The invariance proofs are those of Load_htx_proofs.v section
    5, replayed for the conjunction [hwfe]. *)
Definition table_end (n : N) : N := htx_header_size + 8 * n + n / 8.

Definition hwfe (h : htx) : Prop := htx_wf h /\ hend h <= table_end (nb h) + 1.

Lemma hwfe_create n : 1 <= n -> hwfe (htx_create n).
Proof. intros Hn. split; [apply htx_wf_create; exact Hn|]. unfold table_end, htx_create. cbn [hend nb]. lia. Qed.

Lemma hwfe_write_head h i off : hwfe h -> i < nb h -> hwfe (write_head h i off).
Proof.
  intros [Hw He] Hi. split; [apply htx_wf_write_head; assumption|].
  unfold table_end, write_head in *. cbn [hend nb].
  assert (i / 8 <= nb h / 8) by (apply N.div_le_mono; lia). lia.
Qed.

HWFE_REPLAY
Theorem hend_reachable t n ops s' outs : 1 <= n -> store_run (create t n) ops = Ok (s', outs) ->
  table_end (nb (hx s')) <= hend (hx s') <= table_end (nb (hx s')) + 1.
Proof.
  intros Hn Hr. destruct (hwfe_reachable t n ops s' outs Hn Hr) as [(_ & H & _) He]. unfold table_end in *. lia.
Qed.

Import Io.

(** ** PART 1. the strengthened step *)

(** how far beyond the end of file [f] a read of a read-only operation may end *)
Definition slack (f : fid) : N := match f with FHtx => 7 | _ => 0 end.

Definition ev_quiet (s : st) (e : ev) : Prop :=
  match e with
  | EvRead f p n => p + n <= fend (get_file s f) + slack f
  | EvSeek f t => t <= fend (get_file s f)
  | _ => False
  end.

Definition ro_step (s s' : st) : Prop :=
  (forall f, fb (get_file s' f) = fb (get_file s f) /\ fcs (get_file s' f) = fcs (get_file s f)) /\
  exists evs, appended s s' evs /\ Forall (ev_quiet s) evs.

Lemma ev_quiet_weaken s e : ev_quiet s e -> Io_htx.ev_quiet s e.
Proof. destruct e; cbn; auto. Qed.

(** it is a strengthening *)
Lemma ro_step_weaken s s' : ro_step s s' -> Io_htx.ro_step s s'.
Proof.
  intros [H (evs & A & F)]. split; [exact H|]. exists evs. split; [exact A|].
  eapply Forall_impl; [exact F|]. apply ev_quiet_weaken.
Qed.

Lemma ev_quiet_ext s s' e : (forall f, fb (get_file s' f) = fb (get_file s f)) -> ev_quiet s e -> ev_quiet s' e.
Proof. intros H. destruct e; cbn; auto; unfold fend; rewrite H; auto. Qed.

Lemma ro_step_refl s : ro_step s s.
Proof. split; [auto|]. exists []. split; [apply appended_refl|constructor]. Qed.

Lemma ro_step_trans s1 s2 s3 : ro_step s1 s2 -> ro_step s2 s3 -> ro_step s1 s3.
Proof.
  intros [H1 (e1 & A1 & Q1)] [H2 (e2 & A2 & Q2)]. split.
  - intros f. destruct (H1 f) as [a b], (H2 f) as [c d]. split; congruence.
  - exists (e2 ++ e1). split; [eapply appended_trans; eassumption|].
    apply Forall_app. split; [|exact Q1].
    eapply Forall_impl; [exact Q2|]. intros e He. eapply ev_quiet_ext; [|exact He].
    intros f. symmetry. apply H1.
Qed.

Lemma ro_step_seek f t s : t <= fend (get_file s f) -> ro_step s (seek_to f t s).
Proof.
  intros Hle. destruct (seek_to_inside f t s Hle) as [Hf Ho]. destruct (seek_to_spec f t s) as [_ Ha].
  split.
  - intros g. destruct (fid_eq_dec g f) as [->|Hg].
    + rewrite Hf. auto.
    + rewrite Ho by exact Hg. auto.
  - exists [EvSeek f t]. split; [exact Ha|]. constructor; [exact Hle|constructor].
Qed.

(** tight: one read, ending at most [slack f] bytes beyond the end *)
Lemma ro_step_read f s s' p n :
  upd_file s s' f (fb (get_file s f)) p -> appended s s' [EvRead f (fp (get_file s f)) n] ->
  fp (get_file s f) + n <= fend (get_file s f) + slack f -> ro_step s s'.
Proof.
  intros [Hf Ho] Ha Hb. split.
  - intros g. destruct (fid_eq_dec g f) as [->|Hg].
    + rewrite Hf. auto.
    + rewrite Ho by exact Hg. auto.
  - eexists. split; [exact Ha|]. constructor; [exact Hb|constructor].
Qed.

Lemma view_room s f (d rest : bytes) : view s f = d ++ rest -> d <> [] ->
  fp (get_file s f) + blen d <= fend (get_file s f).
Proof.
  intros Hv Hd. apply (f_equal blen) in Hv. unfold view in Hv. rewrite blen_at_off, blen_app in Hv.
  assert (0 < blen d) by (destruct d; [congruence|rewrite blen_cons; lia]). unfold fend. lia.
Qed.

(** tight: a read of the 8 bytes the view begins with *)
Lemma ro_step_read8 f s s' p v (rest : bytes) :
  upd_file s s' f (fb (get_file s f)) p -> appended s s' [EvRead f (fp (get_file s f)) 8] ->
  view s f = le_bytes 8 v ++ rest -> ro_step s s'.
Proof.
  intros Hu Ha Hv. apply (ro_step_read f s s' p 8 Hu Ha).
  pose proof (view_room s f _ _ Hv ltac:(discriminate)) as Hb. rewrite blen_le_bytes in Hb.
  change (N.of_nat 8) with 8 in Hb. lia.
Qed.

(** ** PART 2. the proofs of Io_htx.v / Io_reads.v / Io_reads2.v, replayed *)
