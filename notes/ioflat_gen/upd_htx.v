
(** ** PART 2. the writers of the table file (Io_htx.v, from [fstep] on), replayed for tight steps *)

(** a step on one file: its bytes and position afterwards, the other files untouched, all
    appended events on that file; tight: and the step is tight *)
Definition fstep (f : fid) (s s' : st) (b' : bytes) (p' : N) : Prop :=
  (upd_file s s' f b' p' /\ exists evs, appended s s' evs /\ Forall (fun e => ev_file e = f) evs) /\ tight s s'.

Lemma fstep_trans f s1 s2 s3 b2 p2 b3 p3 : fstep f s1 s2 b2 p2 -> fstep f s2 s3 b3 p3 -> fstep f s1 s3 b3 p3.
Proof.
  intros [[U1 (e1 & A1 & F1)] T1] [[U2 (e2 & A2 & F2)] T2]. split; [|eapply tight_trans; eassumption].
  split; [eapply upd_file_trans; eassumption|].
  exists (e2 ++ e1). split; [eapply appended_trans; eassumption|]. apply Forall_app. split; assumption.
Qed.

Lemma fstep_seek f t s : fstep f s (seek_to f t s) (pad_to (fb (get_file s f)) t) t.
Proof.
  destruct (seek_to_spec f t s) as [U A]. split; [|apply tight_seek]. split; [exact U|]. exists [EvSeek f t]. split; [exact A|].
  constructor; [reflexivity|constructor].
Qed.

Lemma fstep_seek_inside f t s : t <= fend (get_file s f) -> fstep f s (seek_to f t s) (fb (get_file s f)) t.
Proof. intros H. pose proof (fstep_seek f t s) as F. rewrite pad_to_le in F by exact H. exact F. Qed.

(** tight: a write at or below the end *)
Lemma fstep_write f d s : fp (get_file s f) <= fend (get_file s f) ->
  fstep f s (write_n f d s) (splice (fb (get_file s f)) (fp (get_file s f)) d) (fp (get_file s f) + blen d).
Proof.
  intros Hp. destruct (write_n_spec f d s) as [U A]. split; [|apply tight_write; exact Hp]. split; [exact U|].
  eexists. split; [exact A|]. constructor; [reflexivity|constructor].
Qed.

(** tight: a read ending at most [slack f] bytes beyond the end *)
Lemma fstep_read_le f n s : fp (get_file s f) + n <= fend (get_file s f) + slack f ->
  exists s', read_le f n s = Ok (le_decode (map (fun k => getb (fb (get_file s f)) (fp (get_file s f) + k)) (seqN' 0 (N.to_nat n))), s') /\
    fstep f s s' (fb (get_file s f)) (fp (get_file s f) + n).
Proof.
  intros Hp. destruct (read_le_spec f n s) as (s' & Hr & U & A). exists s'. split; [exact Hr|].
  split; [|exact (tightx_read_le slack f n s _ s' Hr Hp)]. split; [exact U|].
  eexists. split; [exact A|]. constructor; [reflexivity|constructor].
Qed.

Lemma fstep_file f s s' b p : fstep f s s' b p -> get_file s' f = File b p (fcs (get_file s f)).
Proof. intros [[[H _] _] _]. exact H. Qed.

(** a step that touched the table file only ([Io_htx.htx_step]); tight: and is tight *)
Definition htx_step (s s' : st) (b' : bytes) : Prop := Io_htx.htx_step s s' b' /\ tight s s'.

Lemma htx_step_of_fstep s s' b p : fstep FHtx s s' b p -> htx_step s s' b.
Proof.
  intros [[[Hf Ho] (evs & A & F)] T]. split; [|exact T]. split; [rewrite Hf; reflexivity|]. split; [rewrite Hf; reflexivity|].
  split; [exact Ho|]. exists evs. split; [exact A|exact F].
Qed.

Lemma htx_step_trans s1 s2 s3 b2 b3 : htx_step s1 s2 b2 -> htx_step s2 s3 b3 -> htx_step s1 s3 b3.
Proof.
  intros [(B1 & C1 & O1 & e1 & A1 & F1) T1] [(B2 & C2 & O2 & e2 & A2 & F2) T2]. split; [|eapply tight_trans; eassumption].
  split; [exact B2|]. split; [congruence|]. split.
  - intros g Hg. rewrite O2, O1 by exact Hg. reflexivity.
  - exists (e2 ++ e1). split; [eapply appended_trans; eassumption|]. apply Forall_app. split; assumption.
Qed.

